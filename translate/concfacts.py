#!/usr/bin/env python3
"""concfacts.py — translator T for C19: clang JSON AST of the concurrency-relevant classes of /repo  ->  per-method
action lists (Lock / Unlock / Rd f / Wr f) in coq/gen/ConcFacts.v.

What is extracted (purely syntactic):
  * a `std::lock_guard/unique_lock/scoped_lock` local declaration = Lock; the end of its compound statement = Unlock
  * `this->field` (implicit or explicit, also through a base class) = Rd/Wr of that field, in source order; a field is a
    Wr when it is the target of an assignment / ++ / -- or the object of a non-const member (operator) call
  * calls to other member functions of the same object are inlined
  * a method whose return type is a reference/pointer and which returns (part of) a field lets the caller read the
    field after the lock is released: an extra `Rd f` is appended after the final Unlock
  * fields that are std::atomic, std::mutex, SharedVariable or another analysed class (self-synchronised, checked on
    its own), and fields never written by a method in scope (immutable after construction) are left out
Scope: the operations the property names (METHODS below).  Fails closed: a class or method that cannot be found is an
error, and the generated file is only (re)written when every class was translated."""
import json
import os
import subprocess
import sys

HERE = os.path.dirname(os.path.abspath(__file__))

# class (as named in the dump) -> operations in scope (writer and reader operations of the property)
METHODS = {
    "SharedVariable<int>": ["store", "load", "operator=", "operator int"],
    "SharedOptionalVariable<int>": ["store", "consume"],
    "OnlineAverage": ["update", "reset", "getAverage", "isAvailable"],
    "OnlineVariance": ["update", "reset", "getVariance"],
    "RateMonitoring": ["update", "getRate", "timeout"],
    "Checkup<double>": ["getReport", "timeout"],
    "CheckupEqualTo<double>": ["evaluate"],
    "CheckupGreaterThan<double>": ["evaluate"],
    "CheckupLowerThan<double>": ["evaluate"],
    "CheckupReliability": ["evaluate", "getReport"],
    "CheckupRate<romea::core::CheckupEqualTo<double>>": ["evaluate", "getReport", "heartBeatCallback"],
    "CheckupRate<romea::core::CheckupGreaterThan<double>>": ["evaluate", "getReport", "heartBeatCallback"],
}
# methods of a base class that operate on the same object (their fields/mutex are the derived object's)
BASES = {"OnlineVariance": ["OnlineAverage"], "CheckupEqualTo<double>": ["Checkup<double>"],
         "CheckupGreaterThan<double>": ["Checkup<double>"], "CheckupLowerThan<double>": ["Checkup<double>"]}
SELF_SYNC = ("std::atomic", "atomic<", "std::mutex", "mutex", "SharedVariable", "SharedOptionalVariable", "RateMonitoring",
             "CheckupEqualTo", "CheckupGreaterThan", "CheckupLowerThan", "CheckupReliability", "OnlineAverage", "OnlineVariance")
LOCKS = ("lock_guard", "unique_lock", "scoped_lock")


def load_dump(repo):
    cmd = ["clang++", "-std=c++17", "-fsyntax-only", "-w", "-I" + os.path.join(repo, "include"), "-I" + repo,
           "-I/usr/include/eigen3", "-Xclang", "-ast-dump=json", "-Xclang", "-ast-dump-filter=romea::core",
           os.path.join(HERE, "conc_tu.cpp")]
    p = subprocess.run(cmd, capture_output=True, text=True, timeout=300)
    if p.returncode != 0:
        raise RuntimeError("clang failed: " + p.stderr[-1500:])
    s, dec, i, objs = p.stdout, json.JSONDecoder(), 0, []
    while i < len(s):
        if s[i] != "{":
            j = s.find("\n", i)
            i = len(s) if j < 0 else j + 1
            continue
        o, i = dec.raw_decode(s, i)
        objs.append(o)
    return objs


class Facts:
    def __init__(self, objs):
        self.classes = {}      # name -> {"id":…, "fields": {fid: (name, type)}, "methods": {mname: node}}
        self.method_by_id = {}
        self.class_of_id = {}
        for o in objs:
            self.walk(o, None, False)
        # attach out-of-line definitions
        for node, parent in self.pending:
            cname = self.class_of_id.get(parent)
            if cname:
                self.classes[cname]["methods"].setdefault(node.get("name"), node)
                self.method_by_id[node["id"]] = node

    pending = []

    def spec_name(self, node):
        args = []
        for ch in node.get("inner", []):
            if ch.get("kind") == "TemplateArgument" and "type" in ch:
                args.append(ch["type"]["qualType"])
        return node.get("name", "?") + ("<" + ",".join(args) + ">" if args else "")

    def walk(self, node, cls, in_pattern):
        k = node.get("kind")
        if k == "ClassTemplateDecl":
            for ch in node.get("inner", []):
                if ch.get("kind") == "CXXRecordDecl":
                    self.class_of_id[ch.get("id")] = None          # the pattern: dependent, skipped
                    self.walk_members(ch, None, True)
                elif ch.get("kind") == "ClassTemplateSpecializationDecl":
                    self.walk(ch, None, False)
            return
        if k in ("CXXRecordDecl", "ClassTemplateSpecializationDecl") and node.get("completeDefinition"):
            name = self.spec_name(node) if k == "ClassTemplateSpecializationDecl" else node.get("name")
            c = self.classes.setdefault(name, {"id": node.get("id"), "fields": {}, "methods": {}})
            self.class_of_id[node.get("id")] = name
            self.walk_members(node, name, False)
            return
        if k in ("CXXMethodDecl", "CXXConversionDecl") and cls is None and not in_pattern:
            if any(ch.get("kind") == "CompoundStmt" for ch in node.get("inner", [])):
                self.pending.append((node, node.get("parentDeclContextId")))
            return
        for ch in node.get("inner", []):
            if isinstance(ch, dict):
                self.walk(ch, cls, in_pattern)

    def walk_members(self, node, name, in_pattern):
        for ch in node.get("inner", []):
            k = ch.get("kind")
            if in_pattern:
                continue
            if k == "FieldDecl":
                self.classes[name]["fields"][ch["id"]] = (ch.get("name"), ch.get("type", {}).get("qualType", ""))
            elif k in ("CXXMethodDecl", "CXXConversionDecl"):
                self.method_by_id[ch["id"]] = ch
                if any(x.get("kind") == "CompoundStmt" for x in ch.get("inner", [])):
                    self.classes[name]["methods"][ch.get("name")] = ch

    # ------------------------------------------------------------------ action extraction
    def fields_of(self, cname):
        f = dict(self.classes[cname]["fields"])
        for b in BASES.get(cname, []):
            f.update(self.classes[b]["fields"])
        return f

    def find_method(self, cname, mname):
        for c in [cname] + BASES.get(cname, []):
            m = self.classes.get(c, {}).get("methods", {}).get(mname)
            if m is not None:
                return m
        return None

    def actions(self, cname, mnode, depth=0):
        out = []
        fields = self.fields_of(cname)
        escapes = []
        rtype = mnode.get("type", {}).get("qualType", "")
        ret_is_ref = rtype.split("(")[0].strip().endswith(("&", "*"))

        def this_field(n):
            """if n is (a cast of) this->field return the field id"""
            while n.get("kind") in ("ImplicitCastExpr", "ParenExpr", "CXXConstCastExpr", "CXXStaticCastExpr"):
                n = n["inner"][0]
            if n.get("kind") == "MemberExpr" and "referencedMemberDecl" in n:
                b = n["inner"][0]
                while b.get("kind") in ("ImplicitCastExpr", "ParenExpr"):
                    b = b["inner"][0]
                if b.get("kind") == "CXXThisExpr" and n["referencedMemberDecl"] in fields:
                    return n["referencedMemberDecl"]
            return None

        def root_field(n):
            """field of this that the expression designates (sub-object access chains)"""
            while True:
                f = this_field(n)
                if f is not None:
                    return f
                if n.get("kind") in ("MemberExpr", "ImplicitCastExpr", "ParenExpr", "CXXMemberCallExpr", "CXXOperatorCallExpr",
                                     "ArraySubscriptExpr", "UnaryOperator", "MaterializeTemporaryExpr", "ExprWithCleanups") and n.get("inner"):
                    n = n["inner"][1] if n.get("kind") == "CXXOperatorCallExpr" and len(n["inner"]) > 1 else n["inner"][0]
                    continue
                return None

        def mutex_of(n):
            """the member mutex a lock_guard declaration locks (declaration id of the field), or None"""
            if n.get("kind") == "MemberExpr" and "referencedMemberDecl" in n and "mutex" in n.get("type", {}).get("qualType", ""):
                return n["referencedMemberDecl"]
            for ch in n.get("inner", []):
                if isinstance(ch, dict):
                    r = mutex_of(ch)
                    if r is not None:
                        return r
            return None

        def is_const_callee(n):
            t = n.get("type", {}).get("qualType", "")
            return t.rstrip().endswith("const") or ") const" in t

        def visit(n, lhs):
            k = n.get("kind")
            if k == "CompoundStmt":
                nlocks = 0
                mids = []
                for ch in n.get("inner", []):
                    if ch.get("kind") == "DeclStmt" and any(
                            v.get("kind") == "VarDecl" and any(l in v.get("type", {}).get("qualType", "") for l in LOCKS)
                            for v in ch.get("inner", [])):
                        mid = mutex_of(ch)
                        out.append(("Lock", mid))
                        mids.append(mid)
                        nlocks += 1
                        continue
                    visit(ch, False)
                for mid in reversed(mids):
                    out.append(("Unlock", mid))
                return
            if k == "ReturnStmt" and depth == 0 and ret_is_ref and n.get("inner"):
                f = root_field(n["inner"][0])
                if f is not None:
                    escapes.append(f)
            f = this_field(n) if k == "MemberExpr" else None
            if f is not None:
                out.append(("Wr" if lhs else "Rd", f))
                return
            if k == "CXXMemberCallExpr" and n.get("inner"):
                callee = n["inner"][0]
                args = n["inner"][1:]
                for a in args:
                    visit(a, False)
                c = callee
                while c.get("kind") in ("ImplicitCastExpr", "ParenExpr"):
                    c = c["inner"][0]
                if c.get("kind") == "MemberExpr":
                    base = c["inner"][0]
                    b = base
                    while b.get("kind") in ("ImplicitCastExpr", "ParenExpr"):
                        b = b["inner"][0]
                    if b.get("kind") == "CXXThisExpr":
                        target = self.method_by_id.get(c.get("referencedMemberDecl"))
                        tname = target.get("name") if target else c.get("name")
                        body = self.find_method(cname, tname)
                        if body is not None and depth < 6:
                            sub, _ = self.actions(cname, body, depth + 1)
                            out.extend(sub)
                        return
                    visit(base, not is_const_callee(c))
                    return
                visit(callee, False)
                return
            if k == "CXXOperatorCallExpr" and len(n.get("inner", [])) >= 2:
                callee, obj, rest = n["inner"][0], n["inner"][1], n["inner"][2:]
                for a in rest:
                    visit(a, False)
                c = callee
                while c.get("kind") in ("ImplicitCastExpr", "ParenExpr"):
                    c = c["inner"][0]
                nm = c.get("referencedDecl", {}).get("name", "")
                assign = nm in ("operator=", "operator+=", "operator-=", "operator*=", "operator/=", "operator++", "operator--")
                visit(obj, lhs or assign or (nm == "operator[]" and lhs))
                return
            if k in ("BinaryOperator", "CompoundAssignOperator") and len(n.get("inner", [])) == 2:
                op = n.get("opcode", "")
                if k == "CompoundAssignOperator" or op == "=":
                    visit(n["inner"][1], False)
                    visit(n["inner"][0], True)
                    return
            if k == "UnaryOperator" and n.get("opcode") in ("++", "--") and n.get("inner"):
                visit(n["inner"][0], True)
                return
            if k == "MemberExpr" and n.get("inner"):
                visit(n["inner"][0], lhs)      # sub-object of a field: same access kind
                return
            for ch in n.get("inner", []):
                if isinstance(ch, dict):
                    visit(ch, lhs if k in ("ImplicitCastExpr", "ParenExpr", "ArraySubscriptExpr") else False)

        for ch in mnode.get("inner", []):
            if ch.get("kind") == "CompoundStmt":
                visit(ch, False)
        for f in escapes:
            out.append(("Rd", f))
        return out, escapes


def generate(repo="/repo"):
    """returns (coq_text, errors, summary)"""
    errors = []
    try:
        facts = Facts(load_dump(repo))
    except Exception as e:  # noqa
        return None, ["cannot build the AST: %s" % e], {}
    per_class = {}
    for cname, mlist in METHODS.items():
        if cname not in facts.classes:
            errors.append("class %s not found in the AST" % cname)
            continue
        fields = facts.fields_of(cname)
        acts = {}
        for m in mlist:
            node = facts.find_method(cname, m)
            if node is None:
                errors.append("method %s::%s not found (or has no body)" % (cname, m))
                continue
            acts[m], _ = facts.actions(cname, node)
        # inherited operations that stay in scope for derived classes (e.g. OnlineVariance::getAverage)
        for b in BASES.get(cname, []):
            for m in METHODS.get(b, []):
                if m not in acts:
                    node = facts.find_method(b, m)
                    if node is not None:
                        acts[m], _ = facts.actions(cname, node)
        # the lock-discipline theorem is about ONE mutex per object: the mutex most operations lock is the object's
        # mutex; a lock_guard on any other mutex (e.g. a member shadowing the base-class mutex) protects nothing
        counts = {}
        for al in acts.values():
            for a in al:
                if a[0] == "Lock":
                    counts[a[1]] = counts.get(a[1], 0) + 1
        primary = max(counts, key=counts.get) if counts else None
        for m in list(acts):
            acts[m] = [((a[0],) if a[0] in ("Lock", "Unlock") else a) for a in acts[m]
                       if not (a[0] in ("Lock", "Unlock") and a[1] != primary)]
        per_class[cname] = (fields, acts)
    if errors:
        return None, errors, {}
    lines = ["(* GENERATED by translate/concfacts.py from the clang AST of the current /repo sources. Do not edit. *)",
             "From Coq Require Import List String.", "From Romea Require Import Conc.", "Import ListNotations.",
             "Local Open Scope string_scope.", ""]
    summary = {}
    names = []
    for cname, (fields, acts) in per_class.items():
        # shared mutable plain fields: written by some operation in scope, and not self-synchronised
        plain = {fid for fid, (n, t) in fields.items() if not any(s in t for s in SELF_SYNC)}
        written = {a[1] for al in acts.values() for a in al if a[0] == "Wr" and a[1] in plain}
        ids = {fid: i for i, fid in enumerate(sorted(written, key=lambda f: fields[f][0]))}
        ident = "".join(ch if ch.isalnum() else "_" for ch in cname).strip("_")
        names.append(ident)
        mdefs = []
        for m, al in acts.items():
            toks = []
            for a in al:
                if a[0] in ("Lock", "Unlock"):
                    toks.append(a[0])
                elif a[1] in ids:
                    toks.append("%s %d" % (a[0], ids[a[1]]))
            mdefs.append('    ("%s", [%s])' % (m, "; ".join(toks)))
        lines.append("(* %s   fields: %s *)" % (cname, ", ".join("%d=%s" % (i, fields[f][0]) for f, i in ids.items())))
        lines.append('Definition cls_%s : cls := {| cname := "%s"; cmethods := [\n%s ] |}.' % (ident, cname, ";\n".join(mdefs)))
        lines.append("")
        summary[cname] = {m: [(" ".join(str(x) if not isinstance(x, str) or x in ("Lock", "Unlock", "Rd", "Wr") else x for x in
                                        ((a[0],) if len(a) == 1 else (a[0], fields[a[1]][0])))) for a in al
                              if len(a) == 1 or a[1] in ids] for m, al in acts.items()}
    lines.append("Definition all_classes : list cls := [%s]." % "; ".join("cls_" + n for n in names))
    return "\n".join(lines) + "\n", [], summary


def generate_to(path, repo="/repo"):
    text, errors, _ = generate(repo)
    if errors:
        return errors
    old = open(path).read() if os.path.exists(path) else None
    if old != text:
        os.makedirs(os.path.dirname(path), exist_ok=True)
        with open(path, "w") as f:
            f.write(text)
    return []


if __name__ == "__main__":
    t, e, s = generate(os.environ.get("VERIF_REPO", "/repo"))
    if e:
        print("\n".join(e))
        sys.exit(2)
    print(t)
