#!/usr/bin/env python3
"""tr_C05_p2p.py — plug-in translator for C05: src/transform/estimation/FindRigidTransformationByLeastSquares.cpp
   -> coq/gen/SrcP2p.v.

Regenerates, from the clang JSON AST of the INSTANTIATED members of FindRigidTransformationByLeastSquares<PointType>
(the explicit instantiations at the end of the .cpp file) for PointType = Eigen::Vector2d, Eigen::Vector3d,
HomogeneousCoordinates2d, HomogeneousCoordinates3d (tags V2, V3, H2, H3; the float instantiation of the same template must
give the same term), Gallina terms for
  the constructor                       src_new_<tag>
  setPreconditioner                     src_setPreconditioner_<tag>
  estimate_ (aligned arrays)            src_estimate_aligned_<tag>
  estimate_ (correspondence vector)     src_estimate_corr_<tag>
  the four public find overloads        src_find_aligned_<tag>, src_find_corr_<tag>, src_find_pre_aligned_<tag>, src_find_pre_corr_<tag>
by symbolic execution of the instantiated bodies (calls of other members of the class are inlined from THEIR instantiated
bodies).  coq/SrcTieC05.v proves the generated terms equal to the functions of coq/P2pModel.v for EVERY numeric dictionary.

Vocabulary of the generated terms (coq/SrcP2pLib.v, LinAlgBModel.v, Num.v):
  * Scalar -> T over the dictionary N; size_t / Eigen::Index / int -> nat, unbounded (wrap-around is not modelled; the only
    integer operations accepted are literals, sizes, loop counters, comparisons of compile-time constants);
  * a point / normal (PointType, any Eigen::Matrix<Scalar,k,1>) -> list T of its k STORED coordinates (HomogeneousCoordinates2
    stores 3, HomogeneousCoordinates3 stores 4); p(i), p[i] with a compile-time i -> vget N p i; a - b, a + b component by
    component over the stored size; a.dot(b) -> eig_dot N [a_0; ..] [b_0; ..] (sum of products, left to right from zero:
    the reading of Eigen's reduction used by the hand-written models, SrcP2pLib.v);
  * PointSet / NormalSet (std::vector<PointType, aligned_allocator>) -> list (list T); v[i] -> nth i v [];
    v.size() -> length v.  std::vector<Correspondence> -> list (nat * nat), c.sourcePointIndex = fst c,
    c.targetPointIndex = snd c (the other two fields are refused); cs[i] -> nth i cs (0, 0).  Reading past the end is
    undefined behaviour in C++: the tie lemmas are stated for index sets the model accepts;
  * a fixed-size matrix local (Eigen::Matrix<Scalar,r,c>) -> its r*c entries (Python side), printed as the list of its rows;
    Identity() -> n_one / nzero; m(i,j) = e with compile-time i, j; m.block(0,0,p,q) /= s  (also *=) entry by entry;
    a dynamic matrix local takes the value assigned to it;
  * the member leastSquares_ (class LeastSquares<Scalar>) is an ABSTRACT object of type Ls: each method called on it is the
    field F_<method> : Ls -> args -> Ls * result (Ls for void methods) of the argument M : LsMethods T Ls (record of
    coq/SrcP2pLib.v; the methods are bound BY NAME and type: a method that is not a field, or another overload, is refused);
    a reference bound to leastSquares_.getJ() / getY() is a view: `J(i, j) = e` becomes F_getJ_set M ls i j e, `Y(i) = e`
    becomes F_getY_set M ls i e; the default-constructed member of the constructor is F_new M;
  * a const accessor called on a parameter of another class (PreconditionedPointSet::get(), getPreconditioningMatrix()) is
    a free variable <parameter>_<accessor>;
  * `if (c)` needs a compile-time c (CARTESIAN_DIM == 2: the static constexpr members are evaluated through their
    initialisers down to the literals of PointTraits); only the taken branch is executed;
  * `for (size_t n = 0; n < K; ++n) body` with a run-time K whose body changes only the abstract member becomes
    fold_left (fun acc n => body) (seq 0 K) ls;   every statement-level value is let-bound.
Signature of a generated definition: (Ls : Type) (M : LsMethods T Ls), the parameters in declaration order (unnamed ones
dropped), the other free variables sorted by name (accessor variables, the member leastSquares_).
Result: (leastSquares_ after the call, returned value) — only the member for void methods / the constructor.
Anything else raises Unsupported: the function is left out and reported for C05 only (fail closed)."""
import os
import re
import sys

HERE = os.path.dirname(os.path.abspath(__file__))
if HERE not in sys.path:
    sys.path.insert(0, HERE)
import srcfuns  # noqa: E402
from srcfuns import Unsupported  # noqa: E402

PROP = "C05"
SRC = "src/transform/estimation/FindRigidTransformationByLeastSquares.cpp"
CLS = "FindRigidTransformationByLeastSquares"
FILTER = "romea::core::"
OUT = "SrcP2p.v"
# tag -> (regex of the template argument, per scalar)
TAGS = [("V2", r"^Eigen::Matrix<%s, 2, 1(, \d+)*>$"), ("V3", r"^Eigen::Matrix<%s, 3, 1(, \d+)*>$"),
        ("H2", r"^romea::core::HomogeneousCoordinates2<%s>$"), ("H3", r"^romea::core::HomogeneousCoordinates3<%s>$")]
INT_TYPES = {"int", "long", "long long", "unsigned long", "unsigned long long", "unsigned int", "size_t", "std::size_t"}
TRANSPARENT = ("ParenExpr", "MaterializeTemporaryExpr", "ExprWithCleanups", "CXXBindTemporaryExpr", "ConstantExpr",
               "SubstNonTypeTemplateParmExpr")
CASTS = ("ImplicitCastExpr", "CXXStaticCastExpr", "CXXFunctionalCastExpr", "CStyleCastExpr")
NOOP_CASTS = ("LValueToRValue", "NoOp", "DerivedToBase", "UncheckedDerivedToBase", "ConstructorConversion",
              "FunctionToPointerDecay", "IntegralCast")
CORR_FIELDS = {"sourcePointIndex": "fst", "targetPointIndex": "snd"}
# the methods of LeastSquares<Scalar> the generated terms may use = the fields of the record LsMethods of coq/SrcP2pLib.v
# (bound BY NAME: a call of any other method, or of another overload, is refused)
LS_METHODS = {"F_new": "Ls", "F_setEstimateSize": "Ls -> nat -> Ls", "F_setDataSize": "Ls -> nat -> Ls * bool",
              "F_getJ_set": "Ls -> nat -> nat -> T -> Ls", "F_getY_set": "Ls -> nat -> T -> Ls",
              "F_estimateUsingSVD": "Ls -> Ls * (list T)", "F_setPreconditionner": "Ls -> (list (list T)) -> Ls"}
RESERVED = {"N", "T", "Ls", "M", "fst", "snd", "nth", "length", "seq", "fold_left", "list", "nat", "bool", "true", "false", "acc",
            "vget", "mget", "eig_dot", "Some", "None", "map", "fun", "let", "in", "if", "then", "else", "match", "end"}

HEAD = """(* GENERATED by translate/tr_C05_p2p.py from the clang AST of the current sources
   (src/transform/estimation/FindRigidTransformationByLeastSquares.cpp, instantiated members). Do not edit.
   Vocabulary and conventions: translate/tr_C05_p2p.py, coq/SrcP2pLib.v. *)
From Coq Require Import List Arith Bool.
From Romea Require Import Num LinAlgBModel SrcP2pLib.
Import ListNotations.

Section Src.
Context {T : Type} (N : NumOps T).
"""


# ------------------------------------------------------------------------------------------------ types
def norm_type(ty):
    ty = re.sub(r"\b(const|struct|class|typename)\b", "", ty).replace("&", "")
    return re.sub(r"\s+", " ", ty).strip()


def qtype(n):
    t = n.get("type", {})
    return t.get("desugaredQualType", t.get("qualType", ""))


def split_targs(s):
    """top-level template arguments of 'X<a, b<c, d>, e>' -> (X, [a, b<c, d>, e])"""
    i = s.find("<")
    if i < 0 or not s.endswith(">"):
        return s, []
    depth, cur, out = 0, "", []
    for ch in s[i + 1:-1]:
        if ch == "<":
            depth += 1
        elif ch == ">":
            depth -= 1
        if ch == "," and depth == 0:
            out.append(cur.strip())
            cur = ""
        else:
            cur += ch
    if cur.strip():
        out.append(cur.strip())
    return s[:i], out


def classify(ty, aliases=None):
    """-> ('T', scalar) | ('NAT',) | ('B',) | ('VOID',) | ('V', scalar, k) | ('M', scalar, r, c) | ('DV', scalar) | ('DM', scalar)
          | ('PS', scalar, k) | ('CS',) | ('C',) | ('OBJ', scalar) | ('PPS',) | None"""
    t = norm_type(ty)
    if aliases:
        m = re.search(r"::(\w+)$", t)
        if m and m.group(1) in aliases and CLS in t:
            return classify(aliases[m.group(1)], None)
    if t in ("float", "double"):
        return ("T", t)
    if t in INT_TYPES:
        return ("NAT",)
    if t == "bool":
        return ("B",)
    if t == "void":
        return ("VOID",)
    head, args = split_targs(t)
    head = head.replace("romea::core::", "")
    if head == "Eigen::Matrix" and len(args) >= 3 and args[0] in ("float", "double"):
        try:
            r, c = int(args[1]), int(args[2])
        except ValueError:
            return None
        if r > 0 and c == 1:
            return ("V", args[0], r)
        if r > 0 and c > 1:
            return ("M", args[0], r, c)
        if r == -1 and c == 1:
            return ("DV", args[0])
        if r == -1 and c == -1:
            return ("DM", args[0])
        return None
    if head in ("HomogeneousCoordinates2", "HomogeneousCoordinates3") and len(args) == 1 and args[0] in ("float", "double"):
        # class HomogeneousCoordinatesK<Scalar> : public Eigen::Matrix<Scalar, K + 1, 1>  (checked against the casts met in the body)
        return ("V", args[0], int(head[-1]) + 1)
    if head in ("std::vector", "PointSet", "NormalSet", "VectorOfEigenVector") and args:
        e = classify(args[0], None)
        if e and e[0] == "C" and head == "std::vector":
            return ("CS",)
        if e and e[0] == "V":
            if head == "std::vector" and (len(args) < 2 or "aligned_allocator" not in args[1]):
                return None
            return ("PS", e[1], e[2])
        return None
    if head == "Correspondence" and not args:
        return ("C",)
    if head == "LeastSquares" and len(args) == 1:
        a = classify(args[0], aliases)
        if a and a[0] == "T":
            return ("OBJ", a[1])
        if args[0] in ("float", "double") or args[0].endswith("::Scalar"):
            return ("OBJ", None)
        return None
    if head == "PreconditionedPointSet" and len(args) == 1:
        return ("PPS",)
    return None


class Val:
    def __init__(self, kind, term=None, conc=None, size=None, comps=None, rows=None, cols=None, entries=None, view=None):
        self.kind, self.term, self.conc, self.size, self.comps = kind, term, conc, size, comps
        self.rows, self.cols, self.entries, self.view = rows, cols, entries, view


def natl(k):
    return "%d%%nat" % k


def atomic(t):
    return re.match(r"^[A-Za-z_][A-Za-z0-9_']*$", t) is not None or re.match(r"^\d+%nat$", t) is not None


# ------------------------------------------------------------------------------------------------ translation unit
class Unit:
    def __init__(self, objs):
        self.vardecls = {}
        self.specs = {}       # template argument type -> ClassTemplateSpecializationDecl
        seen = set()

        def walk(n):
            if not isinstance(n, dict):
                return
            k = n.get("kind")
            if k == "VarDecl" and n.get("id") and n.get("inner"):
                self.vardecls.setdefault(n["id"], n)
            if k == "ClassTemplateSpecializationDecl" and n.get("name") == CLS and n.get("id") not in seen and \
                    any(c.get("kind") == "CXXMethodDecl" for c in n.get("inner", [])):
                seen.add(n.get("id"))
                ta = [c for c in n.get("inner", []) if c.get("kind") == "TemplateArgument"]
                if len(ta) == 1:
                    self.specs.setdefault(norm_type(ta[0].get("type", {}).get("qualType", "")), n)
            for c in n.get("inner", []):
                if isinstance(c, dict) and (k in ("ClassTemplateDecl", "ClassTemplateSpecializationDecl", "NamespaceDecl", "CXXRecordDecl")
                                            or k is None):
                    walk(c)
        for o in objs:
            walk(o)

    def spec(self, tag_re, scalar):
        rx = re.compile(tag_re % scalar)
        found = [s for t, s in self.specs.items() if rx.match(t)]
        if len(found) != 1:
            raise Unsupported("%d instantiations of %s match %s" % (len(found), CLS, tag_re % scalar))
        return found[0]


def has_body(n):
    return any(c.get("kind") == "CompoundStmt" for c in n.get("inner", []))


def params_of(decl):
    return [c for c in decl.get("inner", []) if c.get("kind") == "ParmVarDecl"]


# ------------------------------------------------------------------------------------------------ executor
class Exec:
    def __init__(self, unit, spec, scalar):
        self.unit, self.spec, self.scalar = unit, spec, scalar
        self.aliases = {}
        for c in spec.get("inner", []):
            if c.get("kind") == "TypeAliasDecl" and c.get("name"):
                self.aliases[c["name"]] = qtype(c)
        self.methods = [c for c in spec.get("inner", []) if c.get("kind") in ("CXXMethodDecl", "CXXConstructorDecl")
                        and has_body(c) and not c.get("isImplicit")]
        self.store = {}        # location -> Val      location = ('var', decl id) | ('mem', name)
        self.refs = {}         # decl id of a reference variable -> ('view', object location, getter) | ('loc', location)
        self.lets = []         # (name, term)
        self.counter = 0
        self.fargs = {}        # F_ name -> coq type
        self.free = {}         # free variable -> coq type   (members, accessor variables)
        self.params = []       # (name, coq type)
        self.used = set(RESERVED)
        self.depth = 0
        self.written = []      # member locations written
        self.ls_scalar_ok = True

    # ---- names
    def fresh(self, base):
        base = re.sub(r"[^A-Za-z0-9_]", "_", base) or "v"
        self.counter += 1
        nm = "%s_%d" % (base, self.counter)
        while nm in self.used:
            self.counter += 1
            nm = "%s_%d" % (base, self.counter)
        self.used.add(nm)
        return nm

    def bind(self, base, term):
        if atomic(term):
            return term
        nm = self.fresh(base)
        self.lets.append((nm, term))
        return nm

    def need_scalar(self, s):
        if s is not None and s != self.scalar:
            raise Unsupported("scalar type %s in the %s instantiation (mixed precision is not modelled)" % (s, self.scalar))

    def cls(self, ty):
        return classify(ty, self.aliases)

    def farg(self, name, cty):
        """a method of the abstract solver object: the field `name` of the record M : LsMethods Ls"""
        if name not in LS_METHODS:
            raise Unsupported("LeastSquares::%s is not a method the solver model offers (LsMethods, coq/SrcP2pLib.v)" % name[2:])
        if LS_METHODS[name] != cty:
            raise Unsupported("LeastSquares::%s used at type %s, the solver model offers %s" % (name[2:], cty, LS_METHODS[name]))
        self.fargs[name] = cty
        return "(%s M)" % name

    def freevar(self, name, cty):
        if name in self.free:
            if self.free[name] != cty:
                raise Unsupported("free variable %s used at two different types" % name)
            return name
        if name in self.used:
            raise Unsupported("name clash on %s" % name)
        self.used.add(name)
        self.free[name] = cty
        return name

    # ---- values
    def coq_type(self, c):
        if c[0] == "T":
            self.need_scalar(c[1])
            return "T"
        if c[0] == "NAT":
            return "nat"
        if c[0] == "B":
            return "bool"
        if c[0] in ("V", "DV"):
            self.need_scalar(c[1])
            return "(list T)"
        if c[0] in ("M", "DM", "PS"):
            self.need_scalar(c[1])
            return "(list (list T))"
        if c[0] == "CS":
            return "(list (nat * nat))"
        if c[0] == "C":
            return "(nat * nat)%type"
        if c[0] == "OBJ":
            self.need_scalar(c[1])
            return "Ls"
        raise Unsupported("no Coq type for %s" % (c,))

    def of_term(self, c, term):
        """the value denoted by a Coq term of the type of class c"""
        self.coq_type(c)
        if c[0] == "T":
            return Val("T", term)
        if c[0] == "NAT":
            return Val("NAT", term)
        if c[0] == "B":
            return Val("B", term)
        if c[0] == "V":
            return Val("V", term, size=c[2])
        if c[0] == "DV":
            return Val("V", term, size=None)
        if c[0] == "M":
            return Val("M", term, rows=c[2], cols=c[3])
        if c[0] == "DM":
            return Val("M", term, rows=None, cols=None)
        if c[0] == "PS":
            return Val("PS", term, size=c[2])
        if c[0] == "CS":
            return Val("CS", term)
        if c[0] == "C":
            return Val("C", term)
        if c[0] == "OBJ":
            return Val("OBJ", term)
        raise Unsupported("value of class %s" % (c,))

    def comps(self, v, k=None):
        """component terms of a vector value"""
        if v.kind != "V":
            raise Unsupported("expected a vector, found %s" % v.kind)
        if v.comps is not None:
            return v.comps
        n = v.size if v.size is not None else k
        if n is None:
            raise Unsupported("vector of unknown size")
        return ["(vget N %s %s)" % (v.term, natl(i)) for i in range(n)]

    def vec_term(self, v):
        if v.kind != "V":
            raise Unsupported("expected a vector, found %s" % v.kind)
        return v.term if v.comps is None else "[%s]" % "; ".join(v.comps)

    def entry(self, m, i, j):
        if m.kind != "M":
            raise Unsupported("expected a matrix, found %s" % m.kind)
        if m.rows is not None and not (0 <= i < m.rows and 0 <= j < m.cols):
            raise Unsupported("matrix index (%d, %d) out of range" % (i, j))
        if m.entries is not None:
            return m.entries[(i, j)]
        return "(mget N %s %s %s)" % (m.term, natl(i), natl(j))

    def mat_term(self, m):
        if m.kind != "M":
            raise Unsupported("expected a matrix, found %s" % m.kind)
        if m.entries is None:
            if m.term is None:
                raise Unsupported("use of an unset matrix")
            return m.term
        return "[%s]" % "; ".join("[%s]" % "; ".join(m.entries[(i, j)] for j in range(m.cols)) for i in range(m.rows))

    def as_arg(self, v):
        """(term, coq type) of a value passed to an abstract method"""
        if v.kind == "T":
            return v.term, "T"
        if v.kind == "NAT":
            return v.term, "nat"
        if v.kind == "B":
            return v.term, "bool"
        if v.kind == "V":
            return self.vec_term(v), "(list T)"
        if v.kind == "M":
            return self.mat_term(v), "(list (list T))"
        raise Unsupported("argument of kind %s to an abstract method" % v.kind)

    # ---- AST helpers
    def strip(self, n):
        while True:
            k = n.get("kind")
            if k in TRANSPARENT and n.get("inner"):
                n = n["inner"][-1]
            elif k in CASTS and n.get("castKind") in NOOP_CASTS and n.get("inner"):
                if n.get("castKind") == "IntegralCast" and classify(qtype(n)) != ("NAT",):
                    return n
                self.check_base_cast(n)
                n = n["inner"][-1]
            else:
                return n

    def check_base_cast(self, n):
        """a derived-to-base cast of a point to an Eigen base: the stored size read off the Eigen type must be the one assumed"""
        if n.get("castKind") not in ("DerivedToBase", "UncheckedDerivedToBase"):
            return
        frm = self.cls(qtype(n["inner"][-1])) if n.get("inner") else None
        if not frm or frm[0] != "V":
            return
        m = re.search(r"Eigen::Matrix<(?:float|double), (-?\d+), (-?\d+)", qtype(n))
        if m and (int(m.group(1)), int(m.group(2))) != (frm[2], 1):
            raise Unsupported("a %s is cast to an Eigen base of %s x %s coefficients, %d assumed" % (norm_type(qtype(n["inner"][-1])), m.group(1), m.group(2), frm[2]))

    def callee(self, n):
        c = self.strip(n["inner"][0])
        if c.get("kind") == "DeclRefExpr":
            return c.get("referencedDecl", {}).get("name"), c
        if c.get("kind") == "MemberExpr":
            return c.get("name"), c
        return None, c

    def concrete(self, n):
        v = self.expr(n)
        if v.kind not in ("NAT",) or v.conc is None:
            raise Unsupported("index / size that is not a compile-time constant")
        return v.conc

    # ---- static constexpr members (CARTESIAN_DIM): evaluated through their initialisers
    def const_eval(self, n, depth=0):
        if depth > 8:
            raise Unsupported("constant evaluation depth")
        n = self.strip(n)
        k = n.get("kind")
        if k in CASTS and n.get("castKind") == "IntegralCast":
            return self.const_eval(n["inner"][-1], depth + 1)
        if k == "IntegerLiteral":
            return int(n["value"])
        if k == "DeclRefExpr" and n.get("referencedDecl", {}).get("kind") == "VarDecl":
            d = self.unit.vardecls.get(n["referencedDecl"]["id"])
            if d is None or not d.get("constexpr") and "const" not in qtype(d):
                raise Unsupported("constant %s has no visible constant initialiser" % n["referencedDecl"].get("name"))
            return self.const_eval(d["inner"][-1], depth + 1)
        if k == "BinaryOperator" and n.get("opcode") in ("+", "-", "*"):
            a, b = self.const_eval(n["inner"][0], depth + 1), self.const_eval(n["inner"][1], depth + 1)
            r = {"+": a + b, "-": a - b, "*": a * b}[n["opcode"]]
            if r < 0:
                raise Unsupported("negative constant")
            return r
        raise Unsupported("constant expression %s" % k)

    # ---- lvalues
    def location(self, n):
        """location of a variable / member expression (after resolving references)"""
        n = self.strip(n)
        k = n.get("kind")
        if k == "DeclRefExpr":
            d = n["referencedDecl"]
            if d["id"] in self.refs:
                return self.refs[d["id"]]
            return ("loc", ("var", d["id"]))
        if k == "MemberExpr" and self.strip(n["inner"][0]).get("kind") == "CXXThisExpr":
            return ("loc", ("mem", n.get("name")))
        raise Unsupported("lvalue %s" % k)

    def read_loc(self, loc, n):
        if loc not in self.store:
            if loc[0] == "mem":
                c = self.cls(qtype(n))
                if c is None or c[0] != "OBJ":
                    raise Unsupported("member %s of type %s" % (loc[1], norm_type(qtype(n))))
                self.store[loc] = self.of_term(c, self.freevar(loc[1], "Ls"))
            else:
                raise Unsupported("read of an unknown variable %s" % n.get("referencedDecl", {}).get("name"))
        return self.store[loc]

    def write_obj(self, loc, term):
        nm = self.bind(loc[1] if loc[0] == "mem" else "obj", term)
        self.store[loc] = Val("OBJ", nm)
        if loc not in self.written:
            self.written.append(loc)

    # ---- expressions
    def expr(self, n):
        n = self.strip(n)
        k = n.get("kind")
        if k in CASTS:
            ck = n.get("castKind")
            if ck == "IntegralCast":
                return self.expr(n["inner"][-1])
            raise Unsupported("cast %s" % ck)
        if k == "IntegerLiteral":
            v = int(n["value"])
            return Val("NAT", natl(v), conc=v)
        if k == "CXXBoolLiteralExpr":
            return Val("B", "true" if n.get("value") else "false", conc=bool(n.get("value")))
        if k == "DeclRefExpr":
            d = n["referencedDecl"]
            if d.get("kind") == "VarDecl" and d["id"] not in self.refs and ("var", d["id"]) not in self.store:
                v = self.const_eval(n)
                return Val("NAT", natl(v), conc=v)
            ref = self.location(n)
            if ref[0] == "view":
                return Val("VIEW", view=ref)
            return self.read_loc(ref[1], n)
        if k == "MemberExpr":
            b = self.strip(n["inner"][0])
            if b.get("kind") == "CXXThisExpr":
                return self.read_loc(("mem", n.get("name")), n)
            o = self.expr(b)
            if o.kind == "C":
                f = CORR_FIELDS.get(n.get("name"))
                if f is None:
                    raise Unsupported("field %s of a Correspondence" % n.get("name"))
                return Val("NAT", "(%s %s)" % (f, o.term))
            raise Unsupported("member %s of a %s" % (n.get("name"), o.kind))
        if k == "UnaryOperator":
            op = n.get("opcode")
            a = self.expr(n["inner"][0])
            if op == "-" and a.kind == "T":
                return Val("T", "(nneg N %s)" % a.term)
            if op == "+" and a.kind == "T":
                return a
            raise Unsupported("unary %s on a %s" % (op, a.kind))
        if k == "BinaryOperator":
            return self.binop(n)
        if k == "CXXOperatorCallExpr":
            return self.opcall(n)
        if k == "CXXMemberCallExpr":
            return self.membercall(n)
        if k == "CallExpr":
            return self.call(n)
        if k in ("CXXConstructExpr", "CXXTemporaryObjectExpr"):
            return self.construct(n)
        raise Unsupported("expression %s" % k)

    def binop(self, n):
        op = n.get("opcode")
        if op in ("=", "+=", "-=", "*=", "/="):
            raise Unsupported("assignment used as an expression")
        a, b = self.expr(n["inner"][0]), self.expr(n["inner"][1])
        if a.kind == "T" and b.kind == "T" and op in srcfuns.BINOP:
            return Val("T", "(%s N %s %s)" % (srcfuns.BINOP[op], a.term, b.term))
        if a.kind == "NAT" and b.kind == "NAT":
            if a.conc is not None and b.conc is not None:
                if op in ("==", "!=", "<", "<=", ">", ">="):
                    r = {"==": a.conc == b.conc, "!=": a.conc != b.conc, "<": a.conc < b.conc, "<=": a.conc <= b.conc,
                         ">": a.conc > b.conc, ">=": a.conc >= b.conc}[op]
                    return Val("B", "true" if r else "false", conc=r)
                if op in ("+", "*"):
                    r = a.conc + b.conc if op == "+" else a.conc * b.conc
                    return Val("NAT", natl(r), conc=r)
            if op == "+":
                return Val("NAT", "(%s + %s)%%nat" % (a.term, b.term))
        raise Unsupported("operator %s on %s, %s" % (op, a.kind, b.kind))

    def opcall(self, n):
        nm, _ = self.callee(n)
        args = n["inner"][1:]
        if nm in ("operator[]", "operator()") and len(args) == 2:
            base = self.expr(args[0])
            if base.kind == "PS":
                i = self.expr(args[1])
                if i.kind != "NAT":
                    raise Unsupported("point set index of kind %s" % i.kind)
                return Val("V", "(nth %s %s [])" % (i.term, base.term), size=base.size)
            if base.kind == "CS":
                i = self.expr(args[1])
                if i.kind != "NAT":
                    raise Unsupported("correspondence index of kind %s" % i.kind)
                return Val("C", "(nth %s %s (0%%nat, 0%%nat))" % (i.term, base.term))
            if base.kind == "V":
                i = self.concrete(args[1])
                cs = self.comps(base, i + 1)
                if not 0 <= i < len(cs):
                    raise Unsupported("component %d of a vector of %d stored coordinates" % (i, len(cs)))
                return Val("T", cs[i])
            raise Unsupported("indexing a %s" % base.kind)
        if nm == "operator()" and len(args) == 3:
            base = self.expr(args[0])
            if base.kind == "M":
                return Val("T", self.entry(base, self.concrete(args[1]), self.concrete(args[2])))
            raise Unsupported("two-index access to a %s" % base.kind)
        if nm in ("operator-", "operator+") and len(args) == 2:
            a, b = self.expr(args[0]), self.expr(args[1])
            want = "scalar_difference_op" if nm == "operator-" else "scalar_sum_op"
            if a.kind == "V" and b.kind == "V" and want in qtype(n):
                ca, cb = self.comps(a), self.comps(b)
                if len(ca) != len(cb):
                    raise Unsupported("vectors of different sizes")
                f = "nsub" if nm == "operator-" else "nadd"
                return Val("V", comps=["(%s N %s %s)" % (f, x, y) for x, y in zip(ca, cb)], size=len(ca))
            raise Unsupported("Eigen %s on %s, %s" % (nm, a.kind, b.kind))
        raise Unsupported("operator call %s" % nm)

    def membercall(self, n):
        nm, cal = self.callee(n)
        if cal.get("kind") != "MemberExpr":
            raise Unsupported("member call shape")
        args = n["inner"][1:]
        objn = self.strip(cal["inner"][0])
        if objn.get("kind") == "CXXThisExpr":
            return self.inline(cal, args)
        oc = self.cls(qtype(objn))
        if oc and oc[0] == "OBJ":
            return self.abstract_call(objn, nm, args, n)
        if oc and oc[0] == "PPS" and not args:
            if objn.get("kind") != "DeclRefExpr" or objn["referencedDecl"].get("kind") != "ParmVarDecl":
                raise Unsupported("accessor %s on something that is not a parameter" % nm)
            rc = self.cls(qtype(n))
            if rc is None or rc[0] not in ("PS", "M"):
                raise Unsupported("accessor %s of type %s" % (nm, norm_type(qtype(n))))
            return self.of_term(rc, self.freevar("%s_%s" % (objn["referencedDecl"]["name"], nm), self.coq_type(rc)))
        obj = self.expr(objn)
        if nm == "size" and not args and obj.kind in ("PS", "CS"):
            return Val("NAT", "(length %s)" % obj.term)
        if nm == "dot" and len(args) == 1 and obj.kind == "V":
            b = self.expr(args[0])
            rc = self.cls(qtype(n))
            if b.kind != "V" or rc is None or rc[0] != "T":
                raise Unsupported("dot product with a %s" % b.kind)
            self.need_scalar(rc[1])
            ca, cb = self.comps(obj), self.comps(b)
            if len(ca) != len(cb):
                raise Unsupported("dot product of vectors of different sizes")
            return Val("T", "(eig_dot N [%s] [%s])" % ("; ".join(ca), "; ".join(cb)))
        raise Unsupported("member call %s on a %s" % (nm, obj.kind))

    def abstract_call(self, objn, nm, args, n):
        """a method of the abstract member object: F_<method> : Ls -> args -> Ls * result"""
        ref = self.location(objn)
        if ref[0] != "loc":
            raise Unsupported("method call on a view")
        loc = ref[1]
        obj = self.read_loc(loc, objn)
        if nm in ("getJ", "getY", "getW") and not args:
            return Val("VIEW", view=("view", loc, nm))
        vals = [self.as_arg(self.expr(a)) for a in args]
        rc = self.cls(qtype(n))
        if rc is None:
            raise Unsupported("result type %s of %s" % (norm_type(qtype(n)), nm))
        aty = "".join(" -> " + t for _, t in vals)
        if rc[0] == "VOID":
            head = self.farg("F_" + nm, "Ls%s -> Ls" % aty)
            self.write_obj(loc, "(%s %s%s)" % (head, obj.term, "".join(" " + t for t, _ in vals)))
            return Val("VOID")
        rty = self.coq_type(rc)
        head = self.farg("F_" + nm, "Ls%s -> Ls * %s" % (aty, rty))
        call = "(%s %s%s)" % (head, obj.term, "".join(" " + t for t, _ in vals))
        c = self.bind("call", call)
        self.write_obj(loc, "(fst %s)" % c)
        return self.of_term(rc, "(snd %s)" % c)

    def call(self, n):
        nm, c = self.callee(n)
        rty = qtype(n)
        if nm == "Identity" and len(n["inner"]) == 1 and "scalar_identity_op" in rty:
            m = re.search(r"scalar_identity_op<(float|double)>, Eigen::Matrix<(float|double), (\d+), (\d+)", rty)
            if m:
                self.need_scalar(m.group(1))
                r, cc = int(m.group(3)), int(m.group(4))
                return Val("M", rows=r, cols=cc, entries={(i, j): ("(n_one N)" if i == j else "(nzero N)") for i in range(r) for j in range(cc)})
        raise Unsupported("call of %s" % nm)

    def construct(self, n):
        c = self.cls(qtype(n))
        args = [a for a in n.get("inner", []) if isinstance(a, dict) and a.get("kind") != "CXXDefaultArgExpr"]
        if c is None:
            raise Unsupported("construction of %s" % norm_type(qtype(n)))
        if c[0] in ("M", "DM"):
            self.need_scalar(c[1])
            if not args:
                return Val("M", None, rows=None, cols=None)
            if len(args) == 1:
                v = self.expr(args[0])
                if v.kind == "M" and (c[0] == "DM" or v.rows is None or (v.rows, v.cols) == (c[2], c[3])):
                    if v.rows is None and c[0] == "M":
                        return Val("M", v.term, rows=c[2], cols=c[3])
                    return v
        if c[0] in ("V", "DV"):
            self.need_scalar(c[1])
            if len(args) == 1:
                v = self.expr(args[0])
                if v.kind == "V":
                    if c[0] == "DV":
                        return v
                    if v.size is None and v.comps is None:
                        return Val("V", v.term, size=c[2])        # fixed-size vector constructed from a run-time sized one
                    if (v.size or len(v.comps)) == c[2]:
                        return v
        if c[0] == "OBJ" and not args:
            self.need_scalar(c[1])
            return Val("OBJ", self.farg("F_new", "Ls"))
        raise Unsupported("construction of %s from %d argument(s)" % (norm_type(qtype(n)), len(args)))

    # ---- calls of other members of the class: inlined from their instantiated bodies
    def inline(self, cal, args):
        if self.depth > 4:
            raise Unsupported("call depth")
        mid = cal.get("referencedMemberDecl")
        ms = [m for m in self.methods if m.get("id") == mid]
        if len(ms) != 1:
            raise Unsupported("member %s has no instantiated body" % cal.get("name"))
        ps = params_of(ms[0])
        if len(ps) != len(args):
            raise Unsupported("default arguments")
        vals = [self.expr(a) for a in args]
        for p, v in zip(ps, vals):
            if v.kind in ("VIEW", "VOID"):
                raise Unsupported("argument of kind %s" % v.kind)
            self.refs.pop(p["id"], None)
            self.store[("var", p["id"])] = v
        self.depth += 1
        try:
            return self.run_body(ms[0])
        finally:
            self.depth -= 1

    # ---- statements
    def run_body(self, decl):
        for ini in [c for c in decl.get("inner", []) if c.get("kind") == "CXXCtorInitializer"]:
            d = ini.get("anyInit")
            inner = [c for c in ini.get("inner", []) if isinstance(c, dict)]
            if not d or len(inner) != 1:
                raise Unsupported("constructor initialiser")
            v = self.expr(inner[0])
            if v.kind != "OBJ":
                raise Unsupported("initialiser of the member %s of kind %s" % (d.get("name"), v.kind))
            self.store[("mem", d.get("name"))] = v
            if ("mem", d.get("name")) not in self.written:
                self.written.append(("mem", d.get("name")))
        body = [c for c in decl["inner"] if c.get("kind") == "CompoundStmt"][0]
        stmts = body.get("inner", [])
        ret = Val("VOID")
        for i, st in enumerate(stmts):
            if st.get("kind") == "ReturnStmt":
                if i != len(stmts) - 1:
                    raise Unsupported("return before the end of the body")
                if st.get("inner"):
                    ret = self.expr(st["inner"][0])
            else:
                self.stmt(st)
        return ret

    def stmt(self, st):
        k = st.get("kind")
        if k == "CompoundStmt":
            for c in st.get("inner", []):
                self.stmt(c)
        elif k == "NullStmt":
            pass
        elif k == "DeclStmt":
            for v in st.get("inner", []):
                self.decl(v)
        elif k == "IfStmt":
            parts = [c for c in st.get("inner", []) if isinstance(c, dict)]
            if len(parts) not in (2, 3) or st.get("hasInit") or st.get("hasVar"):
                raise Unsupported("if statement shape")
            c = self.expr(parts[0])
            if c.kind != "B" or c.conc is None:
                raise Unsupported("if on a condition that is not a compile-time constant")
            if c.conc:
                self.stmt(parts[1])
            elif len(parts) == 3:
                self.stmt(parts[2])
        elif k == "ForStmt":
            self.for_stmt(st)
        elif k == "ReturnStmt":
            raise Unsupported("return inside a block")
        else:
            self.effect(st)

    def decl(self, v):
        if v.get("kind") != "VarDecl":
            raise Unsupported("declaration %s" % v.get("kind"))
        qt = qtype(v)
        init = [c for c in v.get("inner", []) if isinstance(c, dict)]
        is_ref = qt.rstrip().endswith("&") and not qt.rstrip().endswith("&&")
        loc = ("var", v["id"])
        self.refs.pop(v["id"], None)
        c = self.cls(qt)
        if not init:
            if c and c[0] in ("M", "DM"):
                self.need_scalar(c[1])
                self.store[loc] = Val("M", None, rows=None, cols=None)
                return
            raise Unsupported("uninitialised local %s of type %s" % (v.get("name"), norm_type(qt)))
        val = self.expr(init[0])
        if val.kind == "VIEW":
            if not is_ref:
                raise Unsupported("copy of the solver's matrix %s" % val.view[2])
            self.refs[v["id"]] = val.view
            return
        if c is None:
            raise Unsupported("local %s of type %s" % (v.get("name"), norm_type(qt)))
        if is_ref and val.kind == "OBJ":
            raise Unsupported("reference to the solver object")
        if val.kind == "VOID":
            raise Unsupported("void initialiser")
        self.store[loc] = self.letval("l_" + v.get("name", "v"), val)

    def letval(self, base, val):
        """let-bind the value (matrices and explicit vectors stay unfolded)"""
        if val.kind in ("T", "NAT") and val.conc is None:
            return Val(val.kind, self.bind(base, val.term))
        if val.kind in ("C", "PS", "CS"):
            return Val(val.kind, self.bind(base, val.term), size=val.size)
        if val.kind == "V" and val.comps is None:
            return Val("V", self.bind(base, val.term), size=val.size)
        if val.kind == "V":
            return Val("V", comps=[self.bind("%s_%d" % (base, i), t) for i, t in enumerate(val.comps)], size=val.size)
        if val.kind == "M" and val.entries is None and val.term is not None:
            return Val("M", self.bind(base, val.term), rows=val.rows, cols=val.cols)
        return val

    def effect(self, st):
        s = self.strip(st)
        k = s.get("kind")
        if k == "BinaryOperator" and s.get("opcode") == "=":
            self.assign(s["inner"][0], self.expr(s["inner"][1]))
            return
        if k == "CXXOperatorCallExpr":
            nm, _ = self.callee(s)
            if nm == "operator=" and len(s["inner"]) == 3:
                self.assign(s["inner"][1], self.expr(s["inner"][2]))
                return
            if nm in ("operator/=", "operator*=") and len(s["inner"]) == 3:
                self.block_update(s["inner"][1], nm[-2], self.expr(s["inner"][2]))
                return
            raise Unsupported("operator statement %s" % nm)
        if k == "CXXMemberCallExpr":
            self.expr(s)
            return
        if srcfuns.Fn({"inner": []}).void_noop(st):
            return
        raise Unsupported("statement %s" % k)

    def assign(self, lhs, val):
        lhs = self.strip(lhs)
        if lhs.get("kind") == "CXXOperatorCallExpr":
            nm, _ = self.callee(lhs)
            if nm in ("operator()", "operator[]") and len(lhs["inner"]) in (3, 4):
                base = self.strip(lhs["inner"][1])
                idx = lhs["inner"][2:]
                ref = self.location(base) if base.get("kind") in ("DeclRefExpr", "MemberExpr") else None
                if ref is None and base.get("kind") == "CXXMemberCallExpr":
                    v = self.expr(base)
                    ref = v.view if v.kind == "VIEW" else None
                if ref is not None and ref[0] == "view":
                    if val.kind != "T":
                        raise Unsupported("assignment of a %s to a coefficient" % val.kind)
                    want = {"getJ": 2, "getY": 1, "getW": 1}[ref[2]]
                    if len(idx) != want:
                        raise Unsupported("%d indexes on %s" % (len(idx), ref[2]))
                    its = []
                    for i in idx:
                        iv = self.expr(i)
                        if iv.kind != "NAT":
                            raise Unsupported("index of kind %s" % iv.kind)
                        its.append(iv.term)
                    obj = self.store.get(ref[1])
                    if obj is None or obj.kind != "OBJ":
                        raise Unsupported("view of an unknown object")
                    f = self.farg("F_%s_set" % ref[2], "Ls -> %sT -> Ls" % ("nat -> " * want))
                    self.write_obj(ref[1], "(%s %s %s %s)" % (f, obj.term, " ".join(its), val.term))
                    return
                if ref is not None and ref[0] == "loc" and ref[1] in self.store and self.store[ref[1]].kind == "M" and len(idx) == 2:
                    m = self.store[ref[1]]
                    if val.kind != "T":
                        raise Unsupported("assignment of a %s to a coefficient" % val.kind)
                    i, j = self.concrete(idx[0]), self.concrete(idx[1])
                    if m.rows is None or not (0 <= i < m.rows and 0 <= j < m.cols):
                        raise Unsupported("matrix index (%d, %d) out of range" % (i, j))
                    ent = {(a, b): self.entry(m, a, b) for a in range(m.rows) for b in range(m.cols)}
                    ent[(i, j)] = self.bind("m_%d_%d" % (i, j), val.term)
                    self.store[ref[1]] = Val("M", rows=m.rows, cols=m.cols, entries=ent)
                    return
            raise Unsupported("assignment target")
        if lhs.get("kind") == "DeclRefExpr":
            ref = self.location(lhs)
            if ref[0] == "loc" and ref[1] in self.store and self.store[ref[1]].kind == "M" and val.kind == "M":
                c = self.cls(qtype(lhs))
                if c and c[0] == "DM" and val.rows is not None:       # a dynamic matrix takes the size of what is assigned
                    self.store[ref[1]] = val
                    return
                if c and c[0] == "M" and (val.rows, val.cols) == (c[2], c[3]):
                    self.store[ref[1]] = val
                    return
        raise Unsupported("assignment target %s" % lhs.get("kind"))

    def block_update(self, lhs, op, val):
        """m.block(i0, j0, p, q) /= s   (*= likewise): entry by entry"""
        lhs = self.strip(lhs)
        if val.kind != "T" or lhs.get("kind") != "CXXMemberCallExpr":
            raise Unsupported("compound assignment shape")
        nm, cal = self.callee(lhs)
        if nm != "block" or len(lhs["inner"]) != 5 or "Eigen::Block<" not in qtype(lhs):
            raise Unsupported("compound assignment to %s" % nm)
        ref = self.location(cal["inner"][0])
        if ref[0] != "loc" or ref[1] not in self.store or self.store[ref[1]].kind != "M" or self.store[ref[1]].rows is None:
            raise Unsupported("block of something that is not a local matrix with known size")
        m = self.store[ref[1]]
        i0, j0, p, q = (self.concrete(a) for a in lhs["inner"][1:])
        if i0 + p > m.rows or j0 + q > m.cols:
            raise Unsupported("block out of range")
        s = self.bind("s", val.term)
        f = "ndiv" if op == "/" else "nmul"
        ent = {(a, b): self.entry(m, a, b) for a in range(m.rows) for b in range(m.cols)}
        for a in range(i0, i0 + p):
            for b in range(j0, j0 + q):
                ent[(a, b)] = "(%s N %s %s)" % (f, ent[(a, b)], s)
        self.store[ref[1]] = Val("M", rows=m.rows, cols=m.cols, entries=ent)

    def assigns_var(self, n, vid):
        if n.get("kind") in ("BinaryOperator", "CompoundAssignOperator", "UnaryOperator") and \
                n.get("opcode") in ("=", "+=", "-=", "*=", "/=", "++", "--"):
            l = self.strip(n["inner"][0])
            if l.get("kind") == "DeclRefExpr" and l["referencedDecl"]["id"] == vid:
                return True
        return any(isinstance(c, dict) and self.assigns_var(c, vid) for c in n.get("inner", []))

    def for_stmt(self, st):
        """for (size_t n = 0; n < K; ++n) body, body changing only the abstract member -> fold_left (fun acc n => ..) (seq 0 K) ls"""
        parts = st.get("inner", [])
        if len(parts) != 5 or (parts[1] and parts[1].get("kind")):
            raise Unsupported("for statement shape")
        init, _, cond, inc, body = parts
        if not init or init.get("kind") != "DeclStmt" or len(init.get("inner", [])) != 1 or init["inner"][0].get("kind") != "VarDecl":
            raise Unsupported("for loop without a single loop variable")
        v = init["inner"][0]
        if self.cls(qtype(v)) != ("NAT",) or not v.get("inner"):
            raise Unsupported("loop variable of type %s" % norm_type(qtype(v)))
        i0 = self.expr(v["inner"][-1])
        if i0.kind != "NAT" or i0.conc != 0:
            raise Unsupported("loop that does not start at 0")
        vid = v["id"]
        c = self.strip(cond) if cond else {}
        if c.get("kind") != "BinaryOperator" or c.get("opcode") not in ("<", "!="):
            raise Unsupported("loop condition other than n < bound")
        l = self.strip(c["inner"][0])
        if l.get("kind") != "DeclRefExpr" or l["referencedDecl"]["id"] != vid:
            raise Unsupported("loop condition does not test the loop variable")
        bound = self.expr(c["inner"][1])
        if bound.kind != "NAT":
            raise Unsupported("loop bound of kind %s" % bound.kind)
        i = self.strip(inc) if inc else {}
        if i.get("kind") != "UnaryOperator" or i.get("opcode") != "++" or \
                self.strip(i["inner"][0]).get("referencedDecl", {}).get("id") != vid:
            raise Unsupported("loop increment other than ++n / n++")
        if self.assigns_var(body, vid):
            raise Unsupported("loop variable assigned in the body")
        if srcfuns.Fn({"inner": []}).has_kind(body, ("BreakStmt", "ContinueStmt", "ReturnStmt", "GotoStmt")):
            raise Unsupported("break / continue / return in a loop")
        objs = [loc for loc, val in self.store.items() if val.kind == "OBJ"]
        if len(objs) != 1:
            raise Unsupported("loop with %d abstract objects in scope" % len(objs))
        oloc = objs[0]
        before = {loc: val for loc, val in self.store.items()}
        acc, var = self.fresh("acc"), self.fresh("k_" + v.get("name", "n"))
        saved_lets, saved_refs, saved_written = self.lets, dict(self.refs), list(self.written)
        self.lets = []
        self.store[oloc] = Val("OBJ", acc)
        self.store[("var", vid)] = Val("NAT", var)
        try:
            self.stmt(body)
            body_lets = self.lets
            after = self.store[oloc]
        finally:
            self.lets = saved_lets
            self.refs = saved_refs
        for loc, val in before.items():
            if loc != oloc and self.store.get(loc) is not val:
                raise Unsupported("the loop body assigns something else than the solver object")
        for loc in list(self.store):
            if loc not in before:
                del self.store[loc]                     # locals of the body
        if after.term == acc:
            raise Unsupported("loop whose body does not change the solver object")
        self.written = saved_written
        txt = "".join("let %s := %s in " % (nm, t) for nm, t in body_lets)
        fold = "(fold_left (fun (%s : Ls) (%s : nat) => %s%s) (seq 0 %s) %s)" % (acc, var, txt, after.term, bound.term, before[oloc].term)
        self.store[oloc] = before[oloc]
        self.write_obj(oloc, fold)

    # ---- one method
    def run(self, decl):
        for i, p in enumerate(params_of(decl)):
            nm = p.get("name")
            if not nm:
                continue                                             # unnamed: cannot be referred to
            c = self.cls(qtype(p))
            if c is None:
                raise Unsupported("parameter %s of type %s" % (nm, norm_type(qtype(p))))
            cn = "p_" + nm if nm in self.used else nm
            self.used.add(cn)
            if c[0] == "PPS":
                self.store[("var", p["id"])] = Val("PPS", cn)
                continue
            self.params.append((cn, self.coq_type(c)))
            self.store[("var", p["id"])] = self.of_term(c, cn)
        ret = self.run_body(decl)
        outs = []
        for loc in self.written:
            if loc[0] == "mem":
                outs.append((self.store[loc].term, "Ls", loc[1]))
        if ret.kind == "M":
            outs.append((self.mat_term(ret), "(list (list T))", "returned matrix (list of rows)"))
        elif ret.kind in ("T", "NAT", "B"):
            outs.append((ret.term, {"T": "T", "NAT": "nat", "B": "bool"}[ret.kind], "returned value"))
        elif ret.kind == "V":
            outs.append((self.vec_term(ret), "(list T)", "returned vector"))
        elif ret.kind != "VOID":
            raise Unsupported("result of kind %s" % ret.kind)
        if not outs:
            raise Unsupported("no output")
        return outs


def pick(ex, name, nparams, first=None):
    ms = [m for m in ex.methods if m.get("name") == name and len(params_of(m)) == nparams]
    if first is not None:
        def first_is_pre(m):
            c = ex.cls(qtype(params_of(m)[0]))
            return bool(c) and c[0] == "PPS"
        ms = [m for m in ms if first_is_pre(m) == first]
    if len(ms) != 1:
        raise Unsupported("%d instantiated definitions of %s/%d" % (len(ms), name, nparams))
    return ms[0]


# (coq stem, method (None = constructor), number of parameters, first parameter is a PreconditionedPointSet?)
TARGETS = [("src_new", None, 0, None), ("src_setPreconditioner", "setPreconditioner", 2, None),
           ("src_estimate_aligned", "estimate_", 3, None), ("src_estimate_corr", "estimate_", 4, None),
           ("src_find_aligned", "find", 3, False), ("src_find_corr", "find", 4, False),
           ("src_find_pre_aligned", "find", 3, True), ("src_find_pre_corr", "find", 4, True)]


def translate(unit, tag_re, scalar, coq_name, meth, npar, first):
    spec = unit.spec(tag_re, scalar)
    ex = Exec(unit, spec, scalar)
    decl = pick(ex, meth if meth else CLS, npar, first)
    outs = ex.run(decl)
    fargs = sorted(ex.fargs.items())
    free = sorted(ex.free.items())
    binders = ["(Ls : Type)", "(M : LsMethods T Ls)"] + ["(%s : %s)" % p for p in ex.params] + ["(%s : %s)" % (n, t) for n, t in free]
    rty = " * ".join(t for _, t, _ in outs)
    if len(outs) > 1:
        rty = "(%s)%%type" % rty
    body = "".join("  let %s := %s in\n" % (n, t) for n, t in ex.lets)
    res = outs[0][0] if len(outs) == 1 else "(%s)" % ", ".join(t for t, _, _ in outs)
    text = "Definition %s %s : %s :=\n%s  %s." % (coq_name, " ".join(binders), rty, body, res)
    comment = "arguments: Ls, M (methods used: %s), %s\n   result: %s" % (
        ", ".join(n for n, _ in fargs) or "-", ", ".join([n for n, _ in ex.params] + [n for n, _ in free]), ", ".join(w for _, _, w in outs))
    return text, comment


def clean(s):
    return str(s).replace("*)", "* )").replace("(*", "( *")[:300]


def generate(repo):
    lines, errors = [HEAD], []
    try:
        objs = srcfuns.load_uncached(repo, SRC, FILTER)
        unit = Unit(objs)
    except Unsupported as e:
        return "\n".join(lines + ["(* NOT TRANSLATED: %s *)" % clean(e), "End Src."]) + "\n", [(PROP, str(e))]
    for tag, tag_re in TAGS:
        for stem, meth, npar, first in TARGETS:
            nm = "%s_%s" % (stem, tag)
            what = "%s: %s<%s>::%s" % (SRC, CLS, tag, meth or CLS)
            try:
                td = translate(unit, tag_re, "double", nm, meth, npar, first)
                tf = translate(unit, tag_re, "float", nm, meth, npar, first)
                if td != tf:
                    raise Unsupported("the float and double instantiations give different terms")
                lines.append("(* %s  (instantiated at Scalar = double; the float instantiation gives this same term)\n   %s *)\n%s\n" % (what, td[1], td[0]))
            except Unsupported as e:
                errors.append((PROP, "%s (%s): %s" % (nm, SRC, e)))
                lines.append("(* %s: NOT TRANSLATED from %s — %s *)\n" % (nm, what, clean(e)))
            except Exception as e:  # noqa — an AST shape the executor did not expect: fail closed for this function
                errors.append((PROP, "%s (%s): internal error %r" % (nm, SRC, e)))
                lines.append("(* %s: NOT TRANSLATED — internal error *)\n" % nm)
    return "\n".join(lines + ["End Src."]) + "\n", errors


def write_if_changed(path, text):
    old = open(path).read() if os.path.exists(path) else None
    if old != text:
        with open(path, "w") as f:
            f.write(text)


def generate_to(gen_dir, repo="/repo"):
    os.makedirs(gen_dir, exist_ok=True)
    try:
        text, errors = generate(repo)
    except Exception as e:  # noqa — nothing could be generated: leave no stale file behind
        write_if_changed(os.path.join(gen_dir, OUT), "(* NOT GENERATED: translator failed: %s *)\n" % clean(repr(e)))
        return [(PROP, "translator failed: %r" % (e,))]
    write_if_changed(os.path.join(gen_dir, OUT), text)
    return errors


if __name__ == "__main__":
    t, e = generate(os.environ.get("VERIF_REPO", "/repo"))
    print(t)
    for x in e:
        print("%s: %s" % x, file=sys.stderr)
    sys.exit(2 if e else 0)
