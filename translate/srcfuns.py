#!/usr/bin/env python3
"""srcfuns.py — translator T2: small pure C++ functions of /repo  ->  Gallina terms over the numeric dictionary.

For each function listed in FUNCS the clang JSON AST of its body is translated, expression by expression, into a term
over `NumOps T` (coq/gen/SrcFuns<id>.v, one file per property, regenerated on every run).  coq/SrcTie<id>.v then proves, for the real instance, that
each generated term equals the hand-written model function the theorems are about — so the closed-form leaves of the
models are tied to the source *syntactically*, not only by running them: editing the C++ expression changes the
generated term and the tie lemma has to be re-proved (it breaks when the meaning over the reals changes).

Loops: `while (c) {..}` and `for (;;) {..; if (c) break;}` over scalar locals become a local `fix` on an added fuel
argument; the function then returns an option (None = still running after `fuel` passes), and so does every caller.

Supported C++ (anything else is an error — fail closed):
  const double x = e;   return e;   return T(e1, e2[, e3]);   v[i] = e; ... return v;
  + - * / unary -, parentheses, implicit casts, int and floating literals, parameters, locals,
  member access through `this` and through parameters, std:: sin cos tan atan sqrt log exp abs/fabs, atan2, pow.
Conventions: pow(x, 2) with the integer literal 2 becomes x*x (exact squaring; Rpower is only defined for positive bases);
the literal M_PI becomes npi, M_PI_2 becomes npi/2, M_PI_4 npi/4 (the model idealises the constant); an int literal k
becomes nofZ k, a floating literal m·10^e becomes nofDec m e."""
import json
import os
import subprocess
import sys
from decimal import Decimal

HERE = os.path.dirname(os.path.abspath(__file__))
EA = "include/romea_core_common/math/EulerAngles.hpp"
PC = "include/romea_core_common/coordinates/PolarCoordinates.hpp"
SC = "include/romea_core_common/coordinates/SphericalCoordinates.hpp"

# (coq name, source file, qualified-name filter for clang, method name)
FUNCS = [
    ("src_isometricLatitude", "src/geodesy/LambertConverter.cpp", "romea::core::LambertConverter::computeIsometricLatitude", "computeIsometricLatitude"),
    ("src_grandeNormale", "src/geodesy/LambertConverter.cpp", "romea::core::LambertConverter::computeGrandeNormal", "computeGrandeNormal"),
    ("src_meridionalRadius", "src/geodesy/EarthEllipsoid.cpp", "romea::core::EarthEllipsoid::meridionalRadius", "meridionalRadius"),
    ("src_transversalRadius", "src/geodesy/EarthEllipsoid.cpp", "romea::core::EarthEllipsoid::transversalRadius", "transversalRadius"),
    # constructor: the member initialisers, in initialisation order, as a tuple (a member may read members initialised before it)
    ("src_makeEllipsoid", "src/geodesy/EarthEllipsoid.cpp", "romea::core::EarthEllipsoid::EarthEllipsoid", "EarthEllipsoid",
     {"ctor": 2}),
    ("src_toECEF", "src/geodesy/ECEFConverter.cpp", "romea::core::ECEFConverter::toECEF", "toECEF"),
    ("src_toLambert", "src/geodesy/LambertConverter.cpp", "romea::core::LambertConverter::toLambert", "toLambert"),
    # matrix mode: the 3x3 block written column by column with Eigen comma initialisers  m.linear().col(k) << a, b, c;
    # iterative code: loops become a local fix on a fuel argument, result in option
    ("src_computeLatitude", "src/geodesy/LambertConverter.cpp", "romea::core::LambertConverter::computeLatitude", "computeLatitude",
     {"constexpr": [("EPSILON", "EPSILON")]}),
    ("src_lambertToWGS84", "src/geodesy/LambertConverter.cpp", "romea::core::LambertConverter::toWGS84", "toWGS84", {}),
    ("src_secantProjection", "src/geodesy/LambertConverter.cpp", "romea::core::LambertConverter::computeProjectionParameters",
     "computeProjectionParameters", {"param_type": "SecantProjectionParameters"}),
    ("src_tangentProjection", "src/geodesy/LambertConverter.cpp", "romea::core::LambertConverter::computeProjectionParameters",
     "computeProjectionParameters", {"param_type": "TangentProjectionParameters"}),
    ("src_ecefToWGS84", "src/geodesy/ECEFConverter.cpp", "romea::core::ECEFConverter::toWGS84", "toWGS84",
     {"constexpr": [("EPSILON", "EPSILON")], "constructors": ["makeGeodeticCoordinates"]}),
    # function templates: the instantiation at Scalar = double (explicitly instantiated in the translation unit)
    ("src_between0And2Pi", EA, "romea::core::between0And2Pi", "between0And2Pi",
     {"tu": "template double romea::core::between0And2Pi<double>(double);\n", "constexpr": [("M_2PI", "romea::core::M_2PI")]}),
    ("src_betweenMinusPiAndPi", EA, "romea::core::betweenMinusPiAndPi", "betweenMinusPiAndPi",
     {"tu": "template double romea::core::betweenMinusPiAndPi<double>(double);\n", "constexpr": [("M_2PI", "romea::core::M_2PI")]}),
    ("src_rotation2DToEulerAngle", EA, "romea::core::rotation2DToEulerAngle", "rotation2DToEulerAngle",
     {"tu": "template double romea::core::rotation2DToEulerAngle<double>(const Eigen::Matrix<double, 2, 2> &);\n"}),
    ("src_rotation3DToEulerAngles", EA, "romea::core::rotation3DToEulerAngles", "rotation3DToEulerAngles",
     {"tu": "template Eigen::Matrix<double, 3, 1> romea::core::rotation3DToEulerAngles<double>(const Eigen::Matrix<double, 3, 3> &);\n"}),
    # polar / spherical coordinate maps (static member templates of PolarTransform / SphericalTransform at double)
    ("src_polarRange", PC, "romea::core::PolarTransform::range", "range",
     {"tu": "template double romea::core::PolarTransform::range<double>(const double, const double &);\n"}),
    ("src_polarRangeCartesian", PC, "romea::core::PolarTransform::range", "range",
     {"tu": "template double romea::core::PolarTransform::range<double>(const romea::core::CartesianCoordinates2<double> &);\n"}),
    ("src_polarRangeHomogeneous", PC, "romea::core::PolarTransform::range", "range",
     {"tu": "template double romea::core::PolarTransform::range<double>(const romea::core::HomogeneousCoordinates2<double> &);\n"}),
    ("src_polarAzimut", PC, "romea::core::PolarTransform::azimut", "azimut",
     {"tu": "template double romea::core::PolarTransform::azimut<double>(const double, const double &);\n"}),
    ("src_polarAzimutCartesian", PC, "romea::core::PolarTransform::azimut", "azimut",
     {"tu": "template double romea::core::PolarTransform::azimut<double>(const romea::core::CartesianCoordinates2<double> &);\n"}),
    ("src_polarAzimutHomogeneous", PC, "romea::core::PolarTransform::azimut", "azimut",
     {"tu": "template double romea::core::PolarTransform::azimut<double>(const romea::core::HomogeneousCoordinates2<double> &);\n"}),
    ("src_polarX", PC, "romea::core::PolarTransform::x", "x",
     {"tu": "template double romea::core::PolarTransform::x<double>(const double &, const double &);\n"}),
    ("src_polarY", PC, "romea::core::PolarTransform::y", "y",
     {"tu": "template double romea::core::PolarTransform::y<double>(const double &, const double &);\n"}),
    ("src_sphRange", SC, "romea::core::SphericalTransform::range", "range",
     {"tu": "template double romea::core::SphericalTransform::range<double>(const double, const double &, const double &);\n"}),
    ("src_sphRangeCartesian", SC, "romea::core::SphericalTransform::range", "range",
     {"tu": "template double romea::core::SphericalTransform::range<double>(const romea::core::CartesianCoordinates3<double> &);\n"}),
    ("src_sphRangeHomogeneous", SC, "romea::core::SphericalTransform::range", "range",
     {"tu": "template double romea::core::SphericalTransform::range<double>(const romea::core::HomogeneousCoordinates3<double> &);\n"}),
    ("src_sphAzimut", SC, "romea::core::SphericalTransform::azimut", "azimut",
     {"tu": "template double romea::core::SphericalTransform::azimut<double>(const double, const double &);\n"}),
    ("src_sphElevation", SC, "romea::core::SphericalTransform::elevation", "elevation",
     {"tu": "template double romea::core::SphericalTransform::elevation<double>(const double, const double &);\n",
      "param_type": "double"}),
    ("src_sphElevationCartesian", SC, "romea::core::SphericalTransform::elevation", "elevation",
     {"tu": "template double romea::core::SphericalTransform::elevation<double>(const romea::core::CartesianCoordinates3<double> &);\n",
      "param_type": "CartesianCoordinates3"}),
    ("src_sphElevationHomogeneous", SC, "romea::core::SphericalTransform::elevation", "elevation",
     {"tu": "template double romea::core::SphericalTransform::elevation<double>(const romea::core::HomogeneousCoordinates3<double> &);\n",
      "param_type": "HomogeneousCoordinates3"}),
    ("src_sphX", SC, "romea::core::SphericalTransform::x", "x",
     {"tu": "template double romea::core::SphericalTransform::x<double>(const double &, const double &, const double &);\n"}),
    ("src_sphY", SC, "romea::core::SphericalTransform::y", "y",
     {"tu": "template double romea::core::SphericalTransform::y<double>(const double &, const double &, const double &);\n"}),
    ("src_sphZ", SC, "romea::core::SphericalTransform::z", "z",
     {"tu": "template double romea::core::SphericalTransform::z<double>(const double &, const double &);\n"}),
    ("src_enuFrame", "src/geodesy/ENUConverter.cpp", "romea::core::ENUConverter::setAnchor", "setAnchor", {"matrix": "linear"}),
]
# the property (= generated file gen/SrcFuns<unit>.v) each function belongs to: a function the translator cannot handle any more
# breaks the tie of its own property only
UNIT = {"src_makeEllipsoid": "C01", "src_toECEF": "C01", "src_ecefToWGS84": "C01", "src_enuFrame": "C02",
        "src_between0And2Pi": "C10", "src_betweenMinusPiAndPi": "C10", "src_rotation2DToEulerAngle": "C10",
        "src_rotation3DToEulerAngles": "C10"}          # everything else: C03


def unit_of(cname):
    if cname.startswith("src_polar") or cname.startswith("src_sph"):
        return "C10"
    return UNIT.get(cname, "C03")


UNARY = {"sin": "nsin", "cos": "ncos", "tan": "ntan", "atan": "natan", "sqrt": "nsqrt", "log": "nln", "exp": "nexp",
         "abs": "nabs", "fabs": "nabs", "asin": "nasin", "acos": "nacos"}
BINARY = {"atan2": "natan2", "pow": "npow", "fmod": "nfmod"}
BINOP = {"+": "nadd", "-": "nsub", "*": "nmul", "/": "ndiv"}
PI_LITS = {"3.1415926535897931": "(npi N)", "1.5707963267948966": "(ndiv N (npi N) (nofZ N 2))",
           "0.78539816339744828": "(ndiv N (npi N) (nofZ N 4))"}


class Unsupported(Exception):
    pass


def is_scalar(ty):
    return ty.replace("const", "").replace("&", "").strip() in ("double", "float")


_LOADED = {}


def preload(repo, funcs=None):
    """run all clang invocations of FUNCS concurrently (the results are looked up by load())"""
    from concurrent.futures import ThreadPoolExecutor
    reqs = set()
    for entry in (FUNCS if funcs is None else funcs):
        mode = entry[4] if len(entry) > 4 else {}
        reqs.add((repo, entry[1], entry[2], mode.get("tu", "")))
        for _, cflt in mode.get("constexpr", []):
            reqs.add((repo, entry[1], cflt, ""))

    def one(r):
        try:
            return r, load_uncached(*r)
        except Unsupported as e:
            return r, e
    with ThreadPoolExecutor(max_workers=12) as ex:
        for r, v in ex.map(one, sorted(reqs)):
            _LOADED[r] = v


def load(repo, src, flt, extra_tu=""):
    v = _LOADED.get((repo, src, flt, extra_tu))
    if v is None:
        v = load_uncached(repo, src, flt, extra_tu)
    if isinstance(v, Unsupported):
        raise v
    return v


def load_uncached(repo, src, flt, extra_tu=""):
    tu = "#include \"%s\"\n%s" % (src, extra_tu)
    # -DNDEBUG: as the library is built; assert(...) becomes ((void)0) and is skipped
    cmd = ["clang++", "-std=c++17", "-DNDEBUG", "-fsyntax-only", "-w", "-I" + os.path.join(repo, "include"), "-I" + repo,
           "-I/usr/include/eigen3", "-Xclang", "-ast-dump=json", "-Xclang", "-ast-dump-filter=" + flt, "-x", "c++", "-"]
    p = subprocess.run(cmd, input=tu, capture_output=True, text=True, timeout=300)
    if p.returncode != 0:
        raise Unsupported("clang failed: " + p.stderr[-500:])
    s, dec, i, objs = p.stdout, json.JSONDecoder(), 0, []
    while i < len(s):
        if s[i] != "{":
            j = s.find("\n", i)
            i = len(s) if j < 0 else j + 1
            continue
        o, i = dec.raw_decode(s, i)
        objs.append(o)
    return objs


def dec_pair(lit):
    d = Decimal(lit)
    sign, digits, exp = d.as_tuple()
    m = int("".join(map(str, digits)))
    if sign:
        m = -m
    while m != 0 and m % 10 == 0:
        m //= 10
        exp += 1
    return (m, exp) if m != 0 else (0, 0)


def zl(z):
    return "(%d)%%Z" % z


class Fn:
    def __init__(self, node, known=None, mode=None):
        self.node = node
        self.mode = mode or {}
        self.consts = self.mode.get("consts", {})   # namespace-scope constexpr name -> term (translated from its initialiser)
        self.ssa = 0
        self.pending = []     # (name, option-valued call) met inside the expression being translated
        self.partial = False  # the function has a loop or calls an iterative helper: fuel argument, option result
        self.result = None
        self.cols = {}        # matrix mode: column index -> [terms]
        self.skipped = []     # matrix mode: statements that touch neither the matrix nor a scalar local
        self.known = known or {}   # C++ function name -> (coq name, number of parameters) for pure helpers already translated
        # scalar parameters first, in declaration order; other free variables (members, fields of parameters) follow
        self.free = [c["name"] for c in node.get("inner", []) if c.get("kind") == "ParmVarDecl" and c.get("name")
                     and is_scalar(c.get("type", {}).get("qualType", ""))]
        self.nparams = len(self.free)
        self.locals = {}      # local scalar name -> coq name
        self.vec = {}         # local vector name -> {index: term}
        self.lets = []        # (coq name, term)
        self.members = {}     # constructor mode: member already initialised -> coq name

    def var(self, name):
        name = name.replace("__", "_").rstrip("_") or name
        if name not in self.free and name not in self.locals.values():
            self.free.append(name)
        return name

    def strip(self, n):
        while n.get("kind") in ("ImplicitCastExpr", "ParenExpr", "CXXFunctionalCastExpr", "CXXStaticCastExpr",
                                "MaterializeTemporaryExpr", "ExprWithCleanups", "CXXBindTemporaryExpr", "ConstantExpr") and n.get("inner"):
            n = n["inner"][-1]
        return n

    def path(self, n):
        """name of a member-access chain: this->a -> a ; p.q -> p_q ; this->m_.x -> m_x"""
        n = self.strip(n)
        k = n.get("kind")
        if k == "DeclRefExpr":
            return n["referencedDecl"]["name"]
        if k == "CXXThisExpr":
            return ""
        if k == "MemberExpr":
            base = self.path(n["inner"][0])
            nm = n.get("name", "?")
            return nm if base == "" else base + "_" + nm
        raise Unsupported("member path through %s" % k)

    def expr(self, n):
        n = self.strip(n)
        k = n.get("kind")
        if k == "IntegerLiteral":
            return "(nofZ N %s)" % zl(int(n["value"]))
        if k == "FloatingLiteral":
            v = n["value"]
            if v in PI_LITS:
                return PI_LITS[v]
            # clang prints the double's 17-digit value; the shortest decimal denoting the same double is the canonical
            # reading of the literal (1e-12 for 9.9999999999999998E-13); the real-number instance idealises it to that decimal
            m, e = dec_pair(repr(float(v)))
            return "(nofDec N %s %s)" % (zl(m), zl(e))
        if k == "DeclRefExpr":
            nm = n["referencedDecl"]["name"]
            if nm in self.locals:
                return self.locals[nm]
            if nm in self.consts:
                return self.consts[nm]
            if n["referencedDecl"].get("kind") == "VarDecl" and nm not in self.free:
                raise Unsupported("reference to non-local variable %s (declare it in CONSTS)" % nm)
            return self.var(nm)
        if k == "MemberExpr":
            nm = self.path(n)
            if nm in self.members:
                return self.members[nm]
            if self.mode.get("ctor"):
                raise Unsupported("constructor reads member %s before its initialiser" % nm)
            return self.var(nm)
        if k == "UnaryOperator" and n.get("opcode") == "-":
            return "(nneg N %s)" % self.expr(n["inner"][0])
        if k == "UnaryOperator" and n.get("opcode") == "+":
            return self.expr(n["inner"][0])
        if k == "BinaryOperator" and n.get("opcode") in ("<", ">", "<=", ">="):
            a, b = self.expr(n["inner"][0]), self.expr(n["inner"][1])
            op = n["opcode"]
            return {"<": "(nltb N %s %s)" % (a, b), ">": "(nltb N %s %s)" % (b, a),
                    "<=": "(nleb N %s %s)" % (a, b), ">=": "(nleb N %s %s)" % (b, a)}[op]
        if k == "BinaryOperator" and n.get("opcode") in ("&&", "||"):
            return "(%s %s %s)" % ("andb" if n["opcode"] == "&&" else "orb", self.expr(n["inner"][0]), self.expr(n["inner"][1]))
        if k == "UnaryOperator" and n.get("opcode") == "!":
            return "(negb %s)" % self.expr(n["inner"][0])
        if k == "ConditionalOperator":
            c, a, b = n["inner"]
            return "(if %s then %s else %s)" % (self.expr(c), self.expr(a), self.expr(b))
        if k == "CXXOperatorCallExpr" and len(n.get("inner", [])) >= 3 and \
                self.strip(n["inner"][0]).get("referencedDecl", {}).get("name") in ("operator()", "operator[]"):
            # element access  m(i, j) / v(i) / v[i]  on a parameter: a free variable named after the indexes
            obj = self.strip(n["inner"][1])
            idx = [self.strip(a) for a in n["inner"][2:]]
            if obj.get("kind") == "DeclRefExpr" and all(a.get("kind") == "IntegerLiteral" for a in idx):
                nm = obj["referencedDecl"]["name"]
                if nm in self.vec:
                    if len(idx) == 1 and int(idx[0]["value"]) in self.vec[nm]:
                        return self.vec[nm][int(idx[0]["value"])]
                    raise Unsupported("read of unset component of %s" % nm)
                return self.var(nm + "_" + "_".join(a["value"] for a in idx))
            raise Unsupported("element access")
        if k == "BinaryOperator" and n.get("opcode") in BINOP:
            return "(%s N %s %s)" % (BINOP[n["opcode"]], self.expr(n["inner"][0]), self.expr(n["inner"][1]))
        if k == "CallExpr":
            callee = self.strip(n["inner"][0])
            nm = callee.get("referencedDecl", {}).get("name")
            args = n["inner"][1:]
            if nm in UNARY and len(args) == 1:
                return "(%s N %s)" % (UNARY[nm], self.expr(args[0]))
            if nm == "pow" and len(args) == 2:
                ex = self.strip(args[1])
                if ex.get("kind") == "IntegerLiteral" and ex.get("value") == "2":
                    a = self.expr(args[0])
                    return "(nmul N %s %s)" % (a, a)
                return "(npow N %s %s)" % (self.expr(args[0]), self.expr(args[1]))
            if nm in BINARY and len(args) == 2:
                return "(%s N %s %s)" % (BINARY[nm], self.expr(args[0]), self.expr(args[1]))
            if nm in self.known and self.known[nm][1] == len(args):
                call = " ".join(self.expr(a) for a in args)
                if self.known[nm][2]:
                    # an iterative helper: option-valued, bound before the statement that uses it
                    self.ssa += 1
                    r = "r_%s_%d" % (nm, self.ssa)
                    self.pending.append((r, "(%s fuel %s)" % (self.known[nm][0], call)))
                    self.partial = True
                    return r
                return "(%s %s)" % (self.known[nm][0], call)
            if nm in self.mode.get("constructors", ()):
                raise Unsupported("aggregate constructor %s used as a scalar" % nm)
            raise Unsupported("call to %s" % nm)
        if k == "CXXMemberCallExpr":
            callee = self.strip(n["inner"][0])
            if callee.get("kind") == "MemberExpr" and callee.get("name") == "norm" and len(n["inner"]) == 1:
                # Euclidean norm of a small fixed-size vector parameter, or of its leading segment<k>(0): the square root of
                # the sum of the squared components (named like the accessors: p_x, p_y, p_z)
                return self.norm_of(callee["inner"][0])
            # accessor such as position.x(): treat as a variable named by the path
            if callee.get("kind") == "MemberExpr" and len(n["inner"]) == 1:
                return self.var(self.path(callee["inner"][0]) + "_" + callee.get("name", "?"))
            raise Unsupported("member call")
        raise Unsupported("expression %s" % k)

    def norm_of(self, obj):
        import re
        ty = obj.get("type", {}).get("qualType", "")
        base = self.strip(obj)
        k = None
        if base.get("kind") == "CXXMemberCallExpr":
            cal = self.strip(base["inner"][0])
            m = re.search(r"ConstFixedSegmentReturnType<(\d+)>|FixedSegmentReturnType<(\d+)>", base.get("type", {}).get("qualType", ""))
            start = self.strip(base["inner"][1]) if len(base.get("inner", [])) > 1 else {}
            if cal.get("kind") != "MemberExpr" or cal.get("name") != "segment" or not m or \
                    start.get("kind") != "IntegerLiteral" or start.get("value") != "0":
                raise Unsupported("norm of an expression other than a vector parameter or its segment<k>(0)")
            k = int(m.group(1) or m.group(2))
            base = self.strip(cal["inner"][0])
        else:
            m = re.search(r"Matrix<(?:double|float), (\d+), 1", ty)
            if not m:
                raise Unsupported("norm of a non-vector (%s)" % ty[:60])
            k = int(m.group(1))
        if base.get("kind") != "DeclRefExpr" or k not in (2, 3):
            raise Unsupported("norm of an expression other than a vector parameter")
        nm = base["referencedDecl"]["name"]
        comps = [self.var(nm + "_" + c) for c in "xyz"[:k]]
        acc = "(nmul N %s %s)" % (comps[0], comps[0])
        for c in comps[1:]:
            acc = "(nadd N %s (nmul N %s %s))" % (acc, c, c)
        return "(nsqrt N %s)" % acc

    def components(self, n):
        """a returned aggregate: constructor call / init list with scalar arguments, or a local vector"""
        n = self.strip(n)
        k = n.get("kind")
        if k in ("CXXConstructExpr", "CXXTemporaryObjectExpr", "InitListExpr"):
            inner = [c for c in n.get("inner", []) if isinstance(c, dict)]
            if len(inner) == 1 and self.strip(inner[0]).get("kind") in ("CXXConstructExpr", "CXXTemporaryObjectExpr", "DeclRefExpr"):
                return self.components(inner[0])
            return [self.expr(c) for c in inner]
        if k == "DeclRefExpr" and n["referencedDecl"]["name"] in self.vec:
            v = self.vec[n["referencedDecl"]["name"]]
            return [v[i] for i in sorted(v)]
        if k == "CallExpr" and self.strip(n["inner"][0]).get("referencedDecl", {}).get("name") in self.mode.get("constructors", ()):
            return [self.expr(a) for a in n["inner"][1:]]      # a function that only packs its arguments into a struct
        return [self.expr(n)]

    def emit(self, name, term):
        """a let; option-valued helper calls met while translating the term are bound first"""
        for nm, t in self.pending:
            self.lets.append(("bind", nm, t))
        self.pending = []
        if name is not None:
            self.lets.append(("let", name, term))

    def stmt(self, st, in_loop=False):
        k = st.get("kind")
        if k == "DeclStmt":
            for v in st.get("inner", []):
                if v.get("kind") != "VarDecl":
                    raise Unsupported("declaration %s" % v.get("kind"))
                ty = v.get("type", {}).get("qualType", "")
                init = [c for c in v.get("inner", []) if isinstance(c, dict)]
                if is_scalar(ty):
                    if not init:
                        raise Unsupported("uninitialised scalar %s" % v.get("name"))
                    t = self.expr(init[0])
                    cn = "l_" + v["name"]
                    self.emit(cn, t)
                    self.locals[v["name"]] = cn
                elif in_loop:
                    raise Unsupported("aggregate declared inside a loop")
                else:
                    self.vec[v["name"]] = {}          # an aggregate filled component by component
        elif k == "ReturnStmt":
            if in_loop:
                raise Unsupported("return inside a loop")
            self.result = self.components(st["inner"][0])
            self.emit(None, None)
        elif self.void_noop(st) or k == "NullStmt":
            pass                                      # (void)x;  ((void)0);  — no effect (NDEBUG assert, unused-variable silencer)
        elif k == "IfStmt" or self.scalar_assignment(st):
            env = dict(self.locals)
            self.effects(st, env)
            if self.pending:
                raise Unsupported("call of an iterative helper inside a conditional")
            for nm in env:
                if env[nm] != self.locals[nm]:
                    self.ssa += 1
                    cn = "l_%s_%d" % (nm, self.ssa)
                    self.emit(cn, env[nm])
                    self.locals[nm] = cn
        elif k in ("WhileStmt", "ForStmt") and not in_loop:
            self.loop(st)
        elif self.mode.get("matrix") and not in_loop and k in ("BinaryOperator", "CXXOperatorCallExpr", "ExprWithCleanups", "CXXMemberCallExpr"):
            col = self.comma_init(st)
            if col is not None:
                kcol, terms = col
                if kcol in self.cols:
                    raise Unsupported("column %d written twice" % kcol)
                self.cols[kcol] = terms
                return
            if self.mentions(st, self.mode["matrix"]):
                raise Unsupported("statement touches the matrix outside a comma initialiser")
            self.skipped.append(k)
        elif k in ("BinaryOperator", "CXXOperatorCallExpr", "ExprWithCleanups") and not in_loop:
            s = self.strip(st)
            if s.get("kind") == "BinaryOperator" and s.get("opcode") == "=":
                lhs, rhs = self.strip(s["inner"][0]), s["inner"][1]
            elif s.get("kind") == "CXXOperatorCallExpr" and len(s.get("inner", [])) == 3:
                lhs, rhs = self.strip(s["inner"][1]), s["inner"][2]   # operator=(lhs, rhs)
            else:
                raise Unsupported("statement %s" % s.get("kind"))
            # lhs must be  vec[i]
            if lhs.get("kind") == "CXXOperatorCallExpr" and len(lhs.get("inner", [])) == 3:
                obj, idx = self.strip(lhs["inner"][1]), self.strip(lhs["inner"][2])
                if obj.get("kind") == "DeclRefExpr" and obj["referencedDecl"]["name"] in self.vec and idx.get("kind") == "IntegerLiteral":
                    self.vec[obj["referencedDecl"]["name"]][int(idx["value"])] = self.expr(rhs)
                    self.emit(None, None)
                    return
            raise Unsupported("assignment target")
        else:
            raise Unsupported("statement %s%s" % (k, " inside a loop" if in_loop else ""))

    def ctor_body(self):
        """member initialisers (clang lists them in initialisation order) -> tuple of the members' values; the body
        must be empty"""
        comp = [c for c in self.node.get("inner", []) if c.get("kind") == "CompoundStmt"]
        if not comp or any(not (self.void_noop(st) or st.get("kind") == "NullStmt") for st in comp[0].get("inner", [])):
            raise Unsupported("constructor with a non-empty body")
        res = []
        for c in self.node.get("inner", []):
            if c.get("kind") != "CXXCtorInitializer":
                continue
            nm = (c.get("anyInit") or {}).get("name")
            if not nm or not is_scalar((c.get("anyInit") or {}).get("type", {}).get("qualType", "")):
                raise Unsupported("initialiser of a non-scalar member or base")
            t = self.expr(c["inner"][0])
            cn = "m_" + nm
            self.emit(cn, t)
            self.members[nm] = cn
            res.append(cn)
        if not res:
            raise Unsupported("constructor without member initialisers")
        return res

    def body(self):
        if self.mode.get("ctor"):
            return self.ctor_body()
        comp = [c for c in self.node.get("inner", []) if c.get("kind") == "CompoundStmt"]
        if not comp:
            raise Unsupported("no body")
        self.result = None
        for st in comp[0].get("inner", []):
            if self.result is not None:
                raise Unsupported("statement after return")
            self.stmt(st)
        if self.mode.get("matrix"):
            if sorted(self.cols) != [0, 1, 2] or any(len(self.cols[c]) != 3 for c in self.cols):
                raise Unsupported("matrix columns written: %s" % sorted(self.cols))
            return [self.cols[c][r] for r in range(3) for c in range(3)]       # row-major
        if self.result is None:
            raise Unsupported("no return")
        return self.result

    def assigned_locals(self, n, acc):
        if n.get("kind") in ("BinaryOperator", "CompoundAssignOperator") and n.get("opcode") in ("=", "+=", "-=", "*=", "/="):
            lhs = self.strip(n["inner"][0])
            if lhs.get("kind") == "DeclRefExpr" and lhs["referencedDecl"]["name"] in self.locals:
                acc.add(lhs["referencedDecl"]["name"])
        if n.get("kind") == "UnaryOperator" and n.get("opcode") in ("++", "--"):
            raise Unsupported("increment / decrement")
        for c in n.get("inner", []):
            if isinstance(c, dict):
                self.assigned_locals(c, acc)

    def is_break_if(self, st):
        if st.get("kind") != "IfStmt":
            return None
        parts = [c for c in st.get("inner", []) if isinstance(c, dict)]
        if len(parts) != 2:
            return None
        b = parts[1]
        if b.get("kind") == "CompoundStmt" and len(b.get("inner", [])) == 1:
            b = b["inner"][0]
        return parts[0] if b.get("kind") == "BreakStmt" else None

    def loop(self, st):
        """while (c) { body }   ->  fix loop fu v.. := if c then match fu with O => None | S f => body; loop f v'.. end else Some v..
           for (;;) { body; if (c) break; }  ->  fix loop fu v.. := match fu with O => None | S f => body; if c then Some v'.. else loop f v'.. end
           The loop-carried variables are the scalar locals declared before the loop and assigned in it.  The function gets a
           fuel argument and an option result: None = the C++ loop would still be running after `fuel` passes."""
        parts = st.get("inner", [])
        if st["kind"] == "WhileStmt":
            if len(parts) != 2:
                raise Unsupported("while with a condition variable")
            cond_node, body_node = parts
        else:
            if len(parts) != 5 or any(p for p in parts[:4]):
                raise Unsupported("for loop other than for(;;)")
            cond_node, body_node = None, parts[4]
        if body_node.get("kind") != "CompoundStmt":
            raise Unsupported("loop body is not a block")
        stmts = body_node.get("inner", [])
        acc = set()
        self.assigned_locals(body_node, acc)
        carried = [nm for nm in self.locals if nm in acc]          # declaration order
        if not carried:
            raise Unsupported("loop without loop-carried scalar")
        self.ssa += 1
        tag = self.ssa
        binders = ["b_%s_%d" % (nm, tag) for nm in carried]
        saved_locals, saved_lets = dict(self.locals), self.lets
        self.locals.update(dict(zip(carried, binders)))
        self.lets = []
        try:
            exit_cond = None
            cond_term = self.expr(cond_node) if cond_node is not None else None
            for i, b in enumerate(stmts):
                c = self.is_break_if(b)
                if c is not None and cond_node is None and i == len(stmts) - 1:
                    exit_cond = self.expr(c)
                    continue
                if self.has_kind(b, ("BreakStmt", "ContinueStmt", "ReturnStmt", "GotoStmt")):
                    raise Unsupported("break / continue / return other than a final `if (c) break;` of for(;;)")
                self.stmt(b, in_loop=True)
            if self.pending:
                raise Unsupported("call of an iterative helper inside a loop")
            if cond_node is None and exit_cond is None:
                raise Unsupported("for(;;) without a final `if (c) break;`")
            body_lets = self.lets
            new_vals = [self.locals[nm] for nm in carried]
        finally:
            self.locals, self.lets = saved_locals, saved_lets
        if any(kind != "let" for kind, _, _ in body_lets):
            raise Unsupported("binding inside a loop")
        lets_txt = "".join("let %s := %s in " % (nm, t) for _, nm, t in body_lets)

        def tup(xs):
            return xs[0] if len(xs) == 1 else "(" + ", ".join(xs) + ")"
        rec = "loop_%d f %s" % (tag, " ".join(new_vals))
        if cond_node is not None:
            inner = "if %s then match fu with O => None | S f => %s%s end else Some %s" % (cond_term, lets_txt, rec, tup(binders))
        else:
            inner = "match fu with O => None | S f => %sif %s then Some %s else %s end" % (lets_txt, exit_cond, tup(new_vals), rec)
        rty = "T" if len(carried) == 1 else "(" + " * ".join(["T"] * len(carried)) + ")"
        fix = "((fix loop_%d (fu : nat) %s {struct fu} : option %s := %s) fuel %s)" % (
            tag, " ".join("(%s : T)" % b for b in binders), rty, inner, " ".join(saved_locals[nm] for nm in carried))
        outs = ["l_%s_%d" % (nm, tag) for nm in carried]
        self.lets.append(("bind", tup(outs), fix))
        for nm, o in zip(carried, outs):
            self.locals[nm] = o
        self.partial = True

    def has_kind(self, n, kinds):
        if n.get("kind") in kinds:
            return True
        return any(isinstance(c, dict) and self.has_kind(c, kinds) for c in n.get("inner", []))

    def void_noop(self, st):
        if st.get("type", {}).get("qualType") != "void" or st.get("kind") not in ("ParenExpr", "CStyleCastExpr", "CXXStaticCastExpr", "CXXFunctionalCastExpr"):
            return False
        n = st
        while n.get("kind") in ("ParenExpr", "CStyleCastExpr", "CXXStaticCastExpr", "CXXFunctionalCastExpr", "ImplicitCastExpr") and n.get("inner"):
            n = n["inner"][-1]
        return n.get("kind") in ("IntegerLiteral", "DeclRefExpr")

    def scalar_assignment(self, st):
        s = self.strip(st)
        if s.get("kind") in ("BinaryOperator", "CompoundAssignOperator") and s.get("opcode") in ("=", "+=", "-=", "*=", "/="):
            lhs = self.strip(s["inner"][0])
            return lhs.get("kind") == "DeclRefExpr" and lhs["referencedDecl"]["name"] in self.locals
        return False

    def expr_in(self, n, env):
        saved = self.locals
        self.locals = env
        try:
            return self.expr(n)
        finally:
            self.locals = saved

    def effects(self, st, env):
        """effect of assignments / if-else on the scalar locals: env (local -> term) is updated in place"""
        k = st.get("kind")
        if k == "CompoundStmt":
            for c in st.get("inner", []):
                self.effects(c, env)
        elif k == "IfStmt":
            parts = [c for c in st.get("inner", []) if isinstance(c, dict)]
            if len(parts) not in (2, 3) or st.get("hasInit") or st.get("hasVar"):
                raise Unsupported("if statement shape")
            c = self.expr_in(parts[0], env)
            e1, e2 = dict(env), dict(env)
            self.effects(parts[1], e1)
            if len(parts) == 3:
                self.effects(parts[2], e2)
            for nm in env:
                if e1[nm] != e2[nm]:
                    env[nm] = "(if %s then %s else %s)" % (c, e1[nm], e2[nm])
        elif self.scalar_assignment(st):
            s = self.strip(st)
            nm = self.strip(s["inner"][0])["referencedDecl"]["name"]
            rhs = self.expr_in(s["inner"][1], env)
            op = s["opcode"]
            env[nm] = rhs if op == "=" else "(%s N %s %s)" % (BINOP[op[0]], env[nm], rhs)
        elif self.void_noop(st) or k == "NullStmt":
            pass
        else:
            raise Unsupported("statement %s inside if / assignment sequence" % k)

    def mentions(self, n, member):
        """does the statement name the matrix accessor, or any scalar local (which it could then modify)?"""
        if n.get("kind") == "MemberExpr" and n.get("name") == member:
            return True
        if n.get("kind") == "DeclRefExpr" and n.get("referencedDecl", {}).get("name") in self.locals:
            return True
        return any(isinstance(c, dict) and self.mentions(c, member) for c in n.get("inner", []))

    def comma_init(self, st):
        """X.<member>().col(k) << e1, e2, e3;   ->  (k, [e1, e2, e3])   or None when the statement is something else"""
        def opname(n):
            if n.get("kind") != "CXXOperatorCallExpr" or not n.get("inner"):
                return None
            return self.strip(n["inner"][0]).get("referencedDecl", {}).get("name")
        n = self.strip(st)
        rest = []
        while opname(n) == "operator,":
            rest.insert(0, n["inner"][2])
            n = self.strip(n["inner"][1])
        if opname(n) != "operator<<":
            return None
        target, first = self.strip(n["inner"][1]), n["inner"][2]
        if target.get("kind") != "CXXMemberCallExpr":
            return None
        callee = self.strip(target["inner"][0])
        if callee.get("kind") != "MemberExpr" or callee.get("name") != "col" or len(target["inner"]) != 2:
            return None
        base = self.strip(callee["inner"][0])
        if base.get("kind") != "CXXMemberCallExpr" or self.strip(base["inner"][0]).get("name") != self.mode["matrix"]:
            return None
        idx = self.strip(target["inner"][1])
        if idx.get("kind") != "IntegerLiteral":
            raise Unsupported("column index is not a literal")
        return int(idx["value"]), [self.expr(e) for e in [first] + rest]


def find_def(objs, mname, instantiation=False, param_type=None, ctor_params=None):
    found = []

    def first_param_ok(n):
        if param_type is None:
            return True
        ps = [c for c in n.get("inner", []) if c.get("kind") == "ParmVarDecl"]
        return bool(ps) and param_type in ps[0].get("type", {}).get("qualType", "")

    def walk(n):
        if ctor_params is not None:
            if n.get("kind") == "CXXConstructorDecl" and n.get("name") == mname and \
                    any(c.get("kind") == "CompoundStmt" for c in n.get("inner", [])) and \
                    sum(1 for c in n.get("inner", []) if c.get("kind") == "ParmVarDecl") == ctor_params:
                found.append(n)
        elif n.get("kind") in ("CXXMethodDecl", "FunctionDecl") and n.get("name") == mname and \
                any(c.get("kind") == "CompoundStmt" for c in n.get("inner", [])) and \
                any(c.get("kind") == "TemplateArgument" for c in n.get("inner", [])) == instantiation and first_param_ok(n):
            found.append(n)
        for c in n.get("inner", []):
            if isinstance(c, dict):
                walk(c)
    for o in objs:
        walk(o)
    return found


def generate(repo="/repo", only_units=None):
    """returns ({unit: text}, [(unit, error)], summary); only_units restricts the work to some units (properties).  A function that cannot be translated is left out of its unit's
    file (the tie lemma about it then fails to compile) and reported; the other units are unaffected."""
    head = ["(* GENERATED by translate/srcfuns.py from the clang AST of the current /repo sources. Do not edit. *)",
            "From Coq Require Import ZArith.", "From Romea Require Import Num.", "", "Section Src.", "Context {T : Type} (N : NumOps T).", ""]
    units = {}
    funcs = [e for e in FUNCS if only_units is None or unit_of(e[0]) in only_units]
    for entry in funcs:
        units.setdefault(unit_of(entry[0]), list(head))
    errors, summary = [], {}
    known_by_unit = {}
    _LOADED.clear()
    preload(repo, funcs)
    for entry in funcs:
        cname, src, flt, mname = entry[:4]
        unit = unit_of(cname)
        lines = units[unit]
        known = known_by_unit.setdefault(unit, {})
        mode = entry[4] if len(entry) > 4 else None
        try:
            mode = dict(mode) if mode else None
            tu = mode.get("tu", "") if mode else ""
            if mode and mode.get("constexpr"):
                # namespace-scope constexpr scalars the function reads: their initialisers are translated too
                mode["consts"] = {}
                for cn_, cflt in mode["constexpr"]:
                    vds = [o for o in load(repo, src, cflt) if o.get("kind") == "VarDecl" and o.get("name") == cn_]
                    if len(vds) != 1 or not vds[0].get("inner"):
                        raise Unsupported("constant %s: %d definitions" % (cn_, len(vds)))
                    mode["consts"][cn_] = Fn({"inner": []}).expr(vds[0]["inner"][-1])
            defs = find_def(load(repo, src, flt, tu), mname, bool(mode and mode.get("tu")), mode.get("param_type") if mode else None,
                            mode.get("ctor") if mode else None)
            if len(defs) != 1:
                raise Unsupported("%d definitions found" % len(defs))
            f = Fn(defs[0], known, mode)
            res = f.body()
            # stable signature: scalar parameters in declaration order, then the other free variables by name (their order
            # of appearance would change with a harmless re-ordering of an expression)
            f.free = f.free[:f.nparams] + sorted(f.free[f.nparams:])
            if len(f.free) == f.nparams and len(res) == 1:
                known[mname] = (cname, f.nparams, f.partial)          # a pure scalar helper other functions may call
            body, closing = "", ""
            for kind, nm, t in f.lets:
                if kind == "let":
                    body += "  let %s := %s in\n" % (nm, t)
                else:
                    body += "  match %s with None => None | Some %s =>\n" % (t, nm)
                    closing += " end"
            rtxt = res[0] if len(res) == 1 else "(" + ", ".join(res) + ")"
            body += "  " + ("Some " + rtxt if f.partial else rtxt) + closing
            rty = "T" if len(res) == 1 else "(" + " * ".join(["T"] * len(res)) + ")%type"
            if f.partial:
                rty = "option " + rty
            params = ("(fuel : nat) " if f.partial else "") + " ".join("(%s : T)" % v for v in f.free)
            lines.append("(* %s::%s   free variables (parameters, then the others by name): %s%s *)" % (
                src, mname, ", ".join(f.free),
                ("; 3x3 block row-major; %d statements not touching it skipped" % len(f.skipped)) if mode and mode.get("matrix") else ""))
            lines.append("Definition %s %s : %s :=\n%s.\n" % (cname, params, rty, body))
            summary[cname] = f.free
        except Unsupported as e:
            errors.append((unit, "%s (%s): %s" % (cname, src, e)))
            lines.append("(* %s: NOT TRANSLATED from %s — %s *)\n" % (cname, src, str(e).replace("*)", "* )").replace("(*", "( *")[:300]))
    texts = {}
    for u, lines in units.items():
        texts[u] = "\n".join(lines + ["End Src."]) + "\n"
    return texts, errors, summary


def generate_to(gen_dir, repo="/repo", only_units=None):
    """writes gen/SrcFuns<unit>.v for every unit (only when the content changed); returns [(unit, error)]"""
    texts, errors, _ = generate(repo, only_units)
    os.makedirs(gen_dir, exist_ok=True)
    for u, text in texts.items():
        path = os.path.join(gen_dir, "SrcFuns%s.v" % u)
        old = open(path).read() if os.path.exists(path) else None
        if old != text:
            with open(path, "w") as f:
                f.write(text)
    return errors


if __name__ == "__main__":
    t, e, s = generate(os.environ.get("VERIF_REPO", "/repo"))
    for u in sorted(t):
        print("(* ---- unit %s ---- *)" % u)
        print(t[u])
    if e:
        print("\n".join("%s: %s" % x for x in e), file=sys.stderr)
        sys.exit(2)
