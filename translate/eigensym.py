#!/usr/bin/env python3
"""eigensym.py — symbolic evaluator for small fixed-size Eigen code (library of the tr_C1x_eigensym.py plug-in translators).

Walking the clang JSON AST of a function / constructor / method of /repo, the evaluator executes its statements over a
store whose values are
  * scalars (`double`)            -> one Gallina term over the numeric dictionary `N : NumOps T`;
  * ints                          -> Python ints (loop counters, indices; `for (int k = a; k < b; ++k)` is unrolled);
  * fixed-size Eigen matrices     -> r x c tables of scalar terms (entry-wise symbolic values);
  * C arrays of those, class objects (a dictionary of fields), references (aliases).
Every stored scalar / matrix with a compound entry is let-bound in the emitted term (`let rotation := mkM3 ... in`), so
the store only holds atoms (names, projections of names, literals) and the generated definition is a chain of lets that
follows the statements of the source.  3x3 / 3-vector / 2x2 values are emitted with the record types of
coq/AnglesModel.v (mat3 / vec3 / mat2 — the types only); matrices with more than 9 entries are emitted as functions
nat -> nat -> T (`fun i j => match i, j with ...`), and an expression that multiplies / adds such big matrices is
*outlined*: it becomes an auxiliary definition abstracted over its big operands (src_<f>_big<k> X1 X2), applied in the
chain to snapshots of the operands — so a tie lemma can be proved about the 6x6 product once, without expanding the
entries of its operands.

Supported (anything else raises Unsupported — fail closed):
  element read/write M(i,j), v[i], v(i), .x() .y() .z() .w(); Zero() Identity() Constant(c) Ones() UnitX/Y/Z();
  comma initialisers  M << a, b, ...  with scalar / column / row / matrix blocks (Eigen's row-major block placement),
  also `(Matrix() << ...).finished()`;  * (matrix.matrix, matrix.vector, scalar.matrix, matrix.scalar), / scalar, + -,
  unary -, .transpose() .col(k) .row(k) .cross(v) .dot(v) .block<r,c>(i,j) .topLeftCorner<r,c>() .head<n>() .tail<n>()
  .segment<n>(i) .squaredNorm() .norm() .trace() (read; col/row/block/head/tail/segment also as assignment targets),
  += -= on matrices and scalars; std:: sin cos tan asin acos atan sqrt exp log abs atan2 pow (pow(x,2) = x*x);
  accessor calls on a parameter object (affine.rotation(), .translation(), .linear()) and its data members: free
  variables; C arrays of matrices; `for` with literal bounds; `if` on a statically known condition;
  calls of functions / methods / constructors whose body is in the loaded ASTs (inlined; reference parameters alias),
  calls of functions already translated elsewhere (`known`), constructors summarised by a generated definition
  (`summaries`)."""
import os
import re
from concurrent.futures import ThreadPoolExecutor

import srcfuns
from srcfuns import Unsupported, dec_pair, UNARY, BINARY, BINOP, PI_LITS

STRIP = ("ParenExpr", "MaterializeTemporaryExpr", "ExprWithCleanups", "CXXBindTemporaryExpr", "ConstantExpr",
         "CXXFunctionalCastExpr", "CXXStaticCastExpr", "SubstNonTypeTemplateParmExpr")
ROMEA_ALIAS_DIMS = {"CartesianCoordinates2<double>": (2, 1), "CartesianCoordinates3<double>": (3, 1),
                    "CartesianCoordinates2d": (2, 1), "CartesianCoordinates3d": (3, 1), "CartesianPoint2d": (2, 1), "CartesianPoint3d": (3, 1)}
ALIAS_DIMS = {"Vector3d": (3, 1), "Matrix3d": (3, 3), "Matrix6d": (6, 6), "Vector2d": (2, 1), "Matrix2d": (2, 2),
              "RowVector3d": (1, 3), "RowVector2d": (1, 2), "Vector6d": (6, 1), "Matrix4d": (4, 4), "Vector4d": (4, 1)}
ACCESSOR_DIMS = {"rotation": (3, 3), "linear": (3, 3), "translation": (3, 1)}     # of Eigen::Transform<double, 3, ...>
MAX_UNROLL = 64


class A(str):
    """an atomic term: a name, a projection of a name, a literal, or the negation of one of these"""


def zl(z):
    return "(%d)%%Z" % z


def nat(i):
    return "%d%%nat" % i


ZERO, ONE = A("(nzero N)"), A("(n_one N)")


def neg(t):
    return (A if isinstance(t, A) else str)("(nneg N %s)" % t)


def binop(op, a, b):
    return "(%s N %s %s)" % (BINOP[op], a, b)


def sum_terms(ts):
    acc = ts[0]
    for t in ts[1:]:
        acc = binop("+", acc, t)
    return acc


class Mat:
    """storage of an r x c matrix; entries are terms or None (uninitialised)"""

    def __init__(self, r, c, e=None):
        self.r, self.c = r, c
        self.e = e if e is not None else [[None] * c for _ in range(r)]
        self.base, self.i0, self.j0 = self, 0, 0
        self.frozen = False
        self.tr_of = None
        self.outlined = False

    def get(self, i, j):
        if not (0 <= i < self.r and 0 <= j < self.c):
            raise Unsupported("index (%d,%d) outside a %dx%d matrix" % (i, j, self.r, self.c))
        v = self.base.e[self.i0 + i][self.j0 + j]
        if v is None:
            raise Unsupported("read of an uninitialised matrix entry")
        return v

    def set(self, i, j, v):
        if not (0 <= i < self.r and 0 <= j < self.c):
            raise Unsupported("index (%d,%d) outside a %dx%d matrix" % (i, j, self.r, self.c))
        if self.base.frozen:
            raise Unsupported("write to an object a reference is bound to")
        self.base.e[self.i0 + i][self.j0 + j] = v

    def entries(self):
        return [[self.get(i, j) for j in range(self.c)] for i in range(self.r)]

    def view(self, i0, j0, r, c):
        if not (0 <= i0 and 0 <= j0 and i0 + r <= self.r and j0 + c <= self.c):
            raise Unsupported("block (%d,%d,%d,%d) outside a %dx%d matrix" % (i0, j0, r, c, self.r, self.c))
        v = Mat.__new__(Mat)
        v.r, v.c, v.e, v.base, v.i0, v.j0, v.frozen, v.tr_of = r, c, None, self.base, self.i0 + i0, self.j0 + j0, False, None
        return v

    def is_vector(self):
        return self.r == 1 or self.c == 1

    def vget(self, i):
        if self.c == 1:
            return self.get(i, 0)
        if self.r == 1:
            return self.get(0, i)
        raise Unsupported("single index on a %dx%d matrix" % (self.r, self.c))


def fresh_mat(e):
    return Mat(len(e), len(e[0]), e)


class Obj:
    """a class object: fields by name.  free = (parameter index, path): unset fields are free variables"""

    def __init__(self, cls, free=None):
        self.cls, self.fields, self.free, self.frozen = cls, {}, free, False


class Quat:
    """Eigen::Quaternion<double>: the four coefficient terms (w, x, y, z)"""

    def __init__(self, w, x, y, z):
        self.q = [w, x, y, z]


class AngleAxis:
    """Eigen::AngleAxis<double>: angle term, axis (three terms)"""

    def __init__(self, angle, axis):
        self.angle, self.axis = angle, axis


class Ref:
    """a scalar lvalue"""

    def __init__(self, get, set_):
        self.get, self.set = get, set_


def type_strings(ty):
    if isinstance(ty, str):
        return [ty]
    return [s for s in (ty.get("desugaredQualType"), ty.get("qualType")) if s]


def clean_type(s):
    s = s.strip()
    s = re.sub(r"^const\s+", "", s)
    s = re.sub(r"\s*&+$", "", s)
    s = re.sub(r"\s+const$", "", s)
    return s.strip()


def mat_dims(ty):
    """(r, c) of a fixed-size double matrix type, or None"""
    for s in type_strings(ty):
        s = clean_type(s)
        m = re.match(r"^(?:Eigen::)?Matrix<double, (\d+), (\d+)(?:, \d+)*>$", s)
        if m:
            return int(m.group(1)), int(m.group(2))
        m = re.match(r"^Eigen::(\w+)$", s)
        if m and m.group(1) in ALIAS_DIMS:
            return ALIAS_DIMS[m.group(1)]
        m = re.match(r"^(?:romea::core::)?(\w+(?:<double>)?)$", s)
        if m and m.group(1) in ROMEA_ALIAS_DIMS:
            return ROMEA_ALIAS_DIMS[m.group(1)]
    return None


def rotation_type(ty):
    for s in type_strings(ty):
        m = re.match(r"^(?:Eigen::)?(AngleAxis|Quaternion)<double(?:, \d+)?>$", clean_type(s))
        if m:
            return m.group(1)
        if clean_type(s) in ("Eigen::Quaterniond", "Eigen::AngleAxisd"):
            return "Quaternion" if "Quat" in s else "AngleAxis"
    return None


def first_matrix_dims(s):
    m = re.search(r"Matrix<double, (\d+), (\d+)", s)
    return (int(m.group(1)), int(m.group(2))) if m else None


def is_scalar_type(ty):
    return any(clean_type(s) in ("double", "float") or clean_type(s).endswith("::Scalar") or clean_type(s).endswith("::CoeffReturnType")
               for s in type_strings(ty))


def is_int_type(ty):
    return any(clean_type(s) in ("int", "unsigned int", "long", "unsigned long", "size_t", "std::size_t", "Eigen::Index", "bool")
               for s in type_strings(ty))


def class_name(ty):
    for s in type_strings(ty):
        s = clean_type(s)
        if re.match(r"^[A-Za-z_][\w:]*(<.*>)?$", s) and not s.startswith("Eigen::Matrix<") and mat_dims(s) is None:
            return s
    return None


class Index:
    """the function / method / constructor definitions of a list of clang AST dumps, by id and by (name, type)"""

    def __init__(self):
        self.by_id, self.defs, self.records, self.cls_of, self.record_ids = {}, [], {}, {}, {}

    def add(self, objs):
        def walk(n, parents):
            k = n.get("kind")
            if k in ("FunctionDecl", "CXXMethodDecl", "CXXConstructorDecl"):
                has_body = any(c.get("kind") == "CompoundStmt" for c in n.get("inner", []) if isinstance(c, dict))
                if has_body:
                    self.by_id[n.get("id")] = n
                    self.defs.append(n)
                    par = [p for p in parents if p.get("kind") == "CXXRecordDecl"]
                    self.cls_of[id(n)] = par[-1].get("name") if par else self.record_ids.get(n.get("parentDeclContextId"))
                elif n.get("id") not in self.by_id:
                    self.by_id.setdefault("decl:" + str(n.get("id")), n)
            if k == "CXXRecordDecl" and n.get("name"):
                self.record_ids[n.get("id")] = n["name"]
            if k == "CXXRecordDecl" and n.get("name") and any(c.get("kind") == "FieldDecl" for c in n.get("inner", []) if isinstance(c, dict)):
                self.records[n["name"]] = [c for c in n["inner"] if isinstance(c, dict) and c.get("kind") == "FieldDecl"]
            for c in n.get("inner", []):
                if isinstance(c, dict):
                    walk(c, parents + [n])
        for o in objs:
            walk(o, [])

    def find(self, name, ty=None, kinds=("FunctionDecl", "CXXMethodDecl"), nparams=None):
        res = []

        def unq(t):          # the same type is printed with or without namespace qualifiers depending on the context
            return re.sub(r"\b\w+::", "", t or "")
        for d in self.defs:
            if d.get("kind") in kinds and d.get("name") == name:
                if ty is not None and unq(d.get("type", {}).get("qualType")) != unq(ty):
                    continue
                if nparams is not None and len(params_of(d)) != nparams:
                    continue
                if any(c.get("kind") == "TemplateArgument" for c in d.get("inner", []) if isinstance(c, dict)) or not template_pattern(d):
                    res.append(d)
        return res


def template_pattern(d):
    """an uninstantiated template pattern has dependent types: we only evaluate instantiations"""
    return "Scalar" in d.get("type", {}).get("qualType", "") or "type-parameter" in d.get("type", {}).get("qualType", "")


def params_of(d):
    return [c for c in d.get("inner", []) if isinstance(c, dict) and c.get("kind") == "ParmVarDecl"]


def body_of(d):
    b = [c for c in d.get("inner", []) if isinstance(c, dict) and c.get("kind") == "CompoundStmt"]
    if not b:
        raise Unsupported("no body for %s" % d.get("name"))
    return b[0]


class ReturnSignal(Exception):
    def __init__(self, value):
        self.value = value


class Ev:
    def __init__(self, index, prefix, known=None, summaries=None, consts=None):
        self.index = index                # Index of definitions that may be inlined
        self.prefix = prefix              # coq name of the definition being generated (for auxiliary definitions)
        self.known = known or {}          # C++ function name -> dict(coq=..., params=[(arg index, i, j)], result=n)
        self.summaries = summaries or {}  # (class, ctor type) -> dict(members=[(field, coq accessor)], scalars=n)
        self.consts = consts or {}
        self.lets = []                    # (name, term)
        self.used = set()
        self.free = {}                    # coq name -> (sort key, coq type, signature string)
        self.frames = []                  # stack of [scopes]; a scope is a dict name -> value
        self.this = []                    # stack of objects
        self.aux = []                     # auxiliary definitions (text)
        self.calls = {}                   # known function name -> [argument values] of the last call
        self.depth = 0

    # ------------------------------------------------------------------ names, lets
    def fresh(self, hint):
        h = re.sub(r"\W", "_", hint).strip("_") or "t"
        if h[0].isdigit():
            h = "t_" + h
        if h in ("fun", "let", "in", "if", "then", "else", "match", "with", "end", "fix", "forall", "at", "N", "T", "as", "return"):
            h += "_v"
        name, k = h, 0
        while name in self.used:
            k += 1
            name = "%s_%d" % (h, k)
        self.used.add(name)
        return name

    def bind_scalar(self, hint, t):
        if isinstance(t, A):
            return t
        if not isinstance(t, str):
            raise Unsupported("scalar expected for %s" % hint)
        name = self.fresh(hint)
        self.lets.append((name, t))
        return A(name)

    def big_fun(self, e):
        r, c = len(e), len(e[0])
        cases = " ".join("| %s, %s => %s" % (nat(i), nat(j), e[i][j]) for i in range(r) for j in range(c))
        return "(fun i j : nat => match i, j with %s | _, _ => (nzero N) end)" % cases

    def bind_entries(self, hint, e, force=False):
        """let-bind an r x c table of terms unless all entries are atoms; returns the table of atoms"""
        r, c = len(e), len(e[0])
        if not force and all(isinstance(t, A) for row in e for t in row):
            return e
        flat = [t for row in e for t in row]
        if (r, c) == (3, 3):
            name = self.fresh(hint)
            self.lets.append((name, "(mkM3 %s)" % " ".join(flat)))
            return [[A("(m%d%d %s)" % (i, j, name)) for j in range(3)] for i in range(3)]
        if (r, c) in ((3, 1), (1, 3)):
            name = self.fresh(hint)
            self.lets.append((name, "(mkV3 %s)" % " ".join(flat)))
            vs = [A("(v%d %s)" % (i, name)) for i in range(3)]
            return [[v] for v in vs] if c == 1 else [vs]
        if (r, c) == (2, 2):
            name = self.fresh(hint)
            self.lets.append((name, "(mkM2 %s)" % " ".join(flat)))
            return [[A("(a%d%d %s)" % (i, j, name)) for j in range(2)] for i in range(2)]
        if (r, c) in ((2, 1), (1, 2)):
            name = self.fresh(hint)
            self.lets.append((name, "(%s, %s)" % (flat[0], flat[1])))
            vs = [A("(fst %s)" % name), A("(snd %s)" % name)]
            return [[v] for v in vs] if c == 1 else [vs]
        if r * c > 9:
            name = self.fresh(hint)
            self.lets.append((name, self.big_fun(e)))
            return [[A("(%s %s %s)" % (name, nat(i), nat(j))) for j in range(c)] for i in range(r)]
        return [[self.bind_scalar("%s_%d_%d" % (hint, i, j), e[i][j]) for j in range(c)] for i in range(r)]

    def store_mat(self, hint, target, value):
        """target (a Mat or a view) := value (Mat / view of the same shape), after let-binding the value"""
        if not isinstance(value, Mat):
            raise Unsupported("matrix value expected for %s" % hint)
        if getattr(value, "tr_of", None) is target.base:
            raise Unsupported("assignment of a transposed view of %s to itself (aliasing)" % hint)
        if (target.r, target.c) != (value.r, value.c):
            if target.r * target.c == value.r * value.c and target.is_vector() and value.is_vector():
                value = fresh_mat([[value.vget(i * target.c + j) for j in range(target.c)] for i in range(target.r)])
            else:
                raise Unsupported("assignment of a %dx%d value to a %dx%d target" % (value.r, value.c, target.r, target.c))
        e = self.bind_entries(hint, value.entries())
        for i in range(target.r):
            for j in range(target.c):
                target.set(i, j, e[i][j])
        if target.base is target:
            target.outlined = bool(getattr(value, "outlined", False))     # the whole matrix is the value of an outlined expression

    # ------------------------------------------------------------------ environment
    def scopes(self):
        return self.frames[-1]

    def declare(self, name, value):
        self.scopes()[-1][name] = value

    def lookup(self, name):
        for sc in reversed(self.scopes()):
            if name in sc:
                return sc, sc[name]
        return None, None

    def free_scalar(self, key, name, sig):
        cn = self.fresh(name)
        self.free[cn] = (key, "T", sig)
        return A(cn)

    def free_matrix(self, key, name, dims, sig):
        cn = self.fresh(name)
        r, c = dims
        if dims == (3, 3):
            self.free[cn] = (key, "mat3 T", sig)
            e = [[A("(m%d%d %s)" % (i, j, cn)) for j in range(3)] for i in range(3)]
        elif dims in ((3, 1), (1, 3)):
            self.free[cn] = (key, "vec3 T", sig)
            vs = [A("(v%d %s)" % (i, cn)) for i in range(3)]
            e = [[v] for v in vs] if c == 1 else [vs]
        elif dims == (2, 2):
            self.free[cn] = (key, "mat2 T", sig)
            e = [[A("(a%d%d %s)" % (i, j, cn)) for j in range(2)] for i in range(2)]
        elif dims in ((2, 1), (1, 2)):
            self.free[cn] = (key, "(T * T)%type", sig)
            vs = [A("(fst %s)" % cn), A("(snd %s)" % cn)]
            e = [[v] for v in vs] if c == 1 else [vs]
        elif r * c <= 9:
            raise Unsupported("free %dx%d matrix %s" % (r, c, name))
        else:
            self.free[cn] = (key, "(nat -> nat -> T)", sig)
            e = [[A("(%s %s %s)" % (cn, nat(i), nat(j))) for j in range(c)] for i in range(r)]
        return fresh_mat(e)

    def free_value(self, key, name, ty, sig):
        if is_scalar_type(ty):
            return self.free_scalar(key, name, sig)
        d = mat_dims(ty)
        if d:
            return self.free_matrix(key, name, d, sig)
        if rotation_type(ty) == "Quaternion":
            cnq = self.fresh(name)
            self.free[cnq] = (key, "quat T", sig)
            return Quat(*[A("(q%s %s)" % (c, cnq)) for c in "wxyz"])
        cn = class_name(ty)
        if cn:
            o = Obj(cn, free=(key, name, sig))
            return o
        raise Unsupported("free variable %s of type %s" % (name, type_strings(ty)))

    # ------------------------------------------------------------------ expressions
    def strip(self, n):
        while n.get("kind") in STRIP or (n.get("kind") == "ImplicitCastExpr" and n.get("castKind") not in ("IntegralToFloating", "FloatingToIntegral")):
            n = n["inner"][-1]
        return n

    def callee_name(self, n):
        c = self.strip(n["inner"][0])
        return c.get("referencedDecl", {}).get("name"), c

    def as_int(self, n):
        v = self.ev(n)
        if isinstance(v, bool) or not isinstance(v, int):
            raise Unsupported("index / bound is not a compile-time integer")
        return v

    def scalar(self, v, what="operand"):
        if isinstance(v, Ref):
            v = v.get()
        if isinstance(v, Mat) and (v.r, v.c) == (1, 1):
            v = v.get(0, 0)
        if isinstance(v, bool) or isinstance(v, int):
            return A("(nofZ N %s)" % zl(int(v)))
        if isinstance(v, str):
            return v
        raise Unsupported("scalar %s expected" % what)

    def ev(self, n):
        k = n.get("kind")
        if k in STRIP:
            return self.ev(n["inner"][-1])
        if k == "ImplicitCastExpr":
            v = self.ev(n["inner"][0])
            ck = n.get("castKind")
            if ck == "IntegralToFloating":
                if isinstance(v, int):
                    return A("(nofZ N %s)" % zl(int(v)))
                raise Unsupported("conversion of a run-time integer to double")
            if ck == "FloatingToIntegral":
                raise Unsupported("conversion of a double to an integer")
            if ck == "FloatingCast" and not (is_scalar_type(n.get("type", {})) and clean_type(n.get("type", {}).get("qualType", "")) != "float"
                                             and clean_type(n["inner"][0].get("type", {}).get("qualType", "")) != "float"):
                raise Unsupported("conversion between floating-point types")
            if isinstance(v, Ref):
                v = v.get()
            return v
        if k == "IntegerLiteral":
            return int(n["value"])
        if k == "CXXBoolLiteralExpr":
            return bool(n["value"])
        if k == "FloatingLiteral":
            v = n["value"]
            if v in PI_LITS:
                return PI_LITS[v]
            m, e = dec_pair(repr(float(v)))
            return A("(nofDec N %s %s)" % (zl(m), zl(e)))
        if k == "DeclRefExpr":
            return self.declref(n)
        if k == "CXXThisExpr":
            if not self.this:
                raise Unsupported("this outside a method")
            return self.this[-1]
        if k == "MemberExpr":
            return self.member(n)
        if k == "ArraySubscriptExpr":
            base = self.ev(n["inner"][0])
            i = self.as_int(n["inner"][1])
            if not isinstance(base, list) or not 0 <= i < len(base):
                raise Unsupported("array subscript")
            return base[i]
        if k == "UnaryOperator":
            op = n.get("opcode")
            if op in ("++", "--"):
                return self.incdec(n)
            v = self.ev(n["inner"][0])
            if isinstance(v, Ref):
                v = v.get()
            if op == "-":
                if isinstance(v, int):
                    return -v
                return neg(self.scalar(v))
            if op == "+":
                return v
            if op == "!" and isinstance(v, bool):
                return not v
            raise Unsupported("unary operator %s" % op)
        if k == "BinaryOperator":
            return self.binary(n)
        if k == "CompoundAssignOperator":
            op = n["opcode"][0]
            ref = self.lv_scalar(n["inner"][0])
            rhs = self.ev(n["inner"][1])
            cur = ref.get()
            if isinstance(cur, int) and isinstance(rhs, int) and op in "+-*":
                val = {"+": cur + rhs, "-": cur - rhs, "*": cur * rhs}[op]
            elif op in BINOP:
                val = self.bind_scalar(self.hint(n["inner"][0]), binop(op, self.scalar(cur), self.scalar(rhs)))
            else:
                raise Unsupported("compound assignment %s" % n["opcode"])
            ref.set(val)
            return val
        if k == "ConditionalOperator":
            c = self.ev(n["inner"][0])
            if isinstance(c, bool):
                return self.ev(n["inner"][1] if c else n["inner"][2])
            a, b = self.ev(n["inner"][1]), self.ev(n["inner"][2])
            return "(if %s then %s else %s)" % (c, self.scalar(a), self.scalar(b))
        if k == "CallExpr":
            return self.call(n)
        if k == "CXXOperatorCallExpr":
            return self.opcall(n)
        if k == "CXXMemberCallExpr":
            return self.membercall(n)
        if k in ("CXXConstructExpr", "CXXTemporaryObjectExpr"):
            return self.construct(n, None)
        raise Unsupported("expression %s" % k)

    def hint(self, n):
        n = self.strip(n)
        k = n.get("kind")
        if k == "DeclRefExpr":
            return n["referencedDecl"]["name"]
        if k == "MemberExpr":
            b = self.hint(n["inner"][0])
            return (b + "_" if b else "") + n.get("name", "f")
        if k == "CXXThisExpr":
            return ""
        if k == "ArraySubscriptExpr":
            try:
                return "%s_%d" % (self.hint(n["inner"][0]), self.as_int(n["inner"][1]))
            except Unsupported:
                return self.hint(n["inner"][0])
        if k in ("CXXOperatorCallExpr", "CXXMemberCallExpr") and len(n.get("inner", [])) >= 2:
            nm, callee = self.callee_name(n) if k == "CXXOperatorCallExpr" else (None, None)
            try:
                if nm in ("operator()", "operator[]"):
                    return "%s_%s" % (self.hint(n["inner"][1]), "_".join(str(self.as_int(a)) for a in n["inner"][2:]))
                if k == "CXXMemberCallExpr":
                    c = self.strip(n["inner"][0])
                    return "%s_%s" % (self.hint(c["inner"][0]), c.get("name", "m"))
            except Unsupported:
                pass
        return "t"

    def declref(self, n):
        rd = n["referencedDecl"]
        nm = rd["name"]
        sc, v = self.lookup(nm)
        if sc is not None:
            if v is None:
                raise Unsupported("read of uninitialised variable %s" % nm)
            return v
        if nm in self.consts:
            return self.consts[nm]
        raise Unsupported("reference to %s %s" % (rd.get("kind"), nm))

    def member(self, n):
        base = self.ev(n["inner"][0])
        nm = n.get("name")
        if not isinstance(base, Obj):
            raise Unsupported("member %s of a non-object" % nm)
        if nm not in base.fields:
            if base.free is not None:
                key, path, sig = base.free
                base.fields[nm] = self.free_value(key + (nm,), path + "_" + nm, n.get("type", {}), sig + "." + nm)
            else:
                d = mat_dims(n.get("type", {}))
                if d:
                    base.fields[nm] = Mat(*d)            # uninitialised member of a default-constructed aggregate
                elif is_scalar_type(n.get("type", {})):
                    return Ref(lambda: self.uninit(nm), lambda v: base.fields.__setitem__(nm, v))
                else:
                    raise Unsupported("unset member %s" % nm)
        v = base.fields[nm]
        if isinstance(v, (str, int)):
            def setter(val, base=base, nm=nm):
                if base.frozen:
                    raise Unsupported("write to an object a reference is bound to")
                base.fields[nm] = val
            return Ref(lambda base=base, nm=nm: base.fields[nm], setter)
        return v

    def uninit(self, nm):
        raise Unsupported("read of uninitialised member %s" % nm)

    def incdec(self, n):
        ref = self.lv_scalar(n["inner"][0])
        cur = ref.get()
        if not isinstance(cur, int):
            raise Unsupported("++ / -- on a non-integer")
        new = cur + (1 if n["opcode"] == "++" else -1)
        ref.set(new)
        return cur if n.get("isPostfix") else new

    def binary(self, n):
        op = n.get("opcode")
        if op == "=":
            lhs_ty = n["inner"][0].get("type", {})
            ref = self.lv_scalar(n["inner"][0])
            v = self.ev(n["inner"][1])
            if isinstance(v, Ref):
                v = v.get()
            if isinstance(v, int) and not isinstance(v, bool) and is_int_type(lhs_ty):
                ref.set(v)
                return v
            t = self.bind_scalar(self.hint(n["inner"][0]), self.scalar(v))
            ref.set(t)
            return t
        a, b = self.ev(n["inner"][0]), self.ev(n["inner"][1])
        if isinstance(a, Ref):
            a = a.get()
        if isinstance(b, Ref):
            b = b.get()
        if isinstance(a, int) and isinstance(b, int):
            if op in ("+", "-", "*"):
                return {"+": a + b, "-": a - b, "*": a * b}[op]
            if op in ("<", ">", "<=", ">=", "==", "!="):
                return {"<": a < b, ">": a > b, "<=": a <= b, ">=": a >= b, "==": a == b, "!=": a != b}[op]
            if op in ("&&", "||"):
                return bool(a and b) if op == "&&" else bool(a or b)
            raise Unsupported("integer operator %s" % op)
        if op in BINOP:
            return binop(op, self.scalar(a), self.scalar(b))
        if op in ("<", ">", "<=", ">="):
            x, y = self.scalar(a), self.scalar(b)
            return {"<": "(nltb N %s %s)" % (x, y), ">": "(nltb N %s %s)" % (y, x),
                    "<=": "(nleb N %s %s)" % (x, y), ">=": "(nleb N %s %s)" % (y, x)}[op]
        raise Unsupported("binary operator %s" % op)

    # scalar lvalues
    def lv_scalar(self, n):
        n = self.strip(n)
        k = n.get("kind")
        if k == "DeclRefExpr":
            nm = n["referencedDecl"]["name"]
            sc, v = self.lookup(nm)
            if sc is None:
                raise Unsupported("assignment to non-local %s" % nm)
            if isinstance(v, (Mat, Obj, list)):
                raise Unsupported("scalar assignment to aggregate %s" % nm)
            return Ref(lambda sc=sc, nm=nm: sc[nm], lambda val, sc=sc, nm=nm: sc.__setitem__(nm, val))
        if k == "MemberExpr":
            v = self.member(n)
            if isinstance(v, Ref):
                return v
            raise Unsupported("scalar assignment to aggregate member %s" % n.get("name"))
        if k == "CXXOperatorCallExpr":
            nm, _ = self.callee_name(n)
            if nm in ("operator()", "operator[]"):
                m = self.ev(n["inner"][1])
                idx = [self.as_int(a) for a in n["inner"][2:]]
                if not isinstance(m, Mat):
                    raise Unsupported("element access on a non-matrix")
                return self.elem_ref(m, idx)
        if k == "CXXMemberCallExpr":
            c = self.strip(n["inner"][0])
            nm = c.get("name")
            if nm in ("x", "y", "z", "w") and len(n["inner"]) == 1:
                m = self.ev(c["inner"][0])
                if isinstance(m, Mat):
                    return self.elem_ref(m, ["xyzw".index(nm)])
            if nm in ("coeffRef", "coeff"):
                m = self.ev(c["inner"][0])
                if isinstance(m, Mat):
                    return self.elem_ref(m, [self.as_int(a) for a in n["inner"][1:]])
        raise Unsupported("assignment target %s" % k)

    def elem_ref(self, m, idx):
        if len(idx) == 2:
            i, j = idx
        elif len(idx) == 1 and m.c == 1:
            i, j = idx[0], 0
        elif len(idx) == 1 and m.r == 1:
            i, j = 0, idx[0]
        else:
            raise Unsupported("element access with %d indices on a %dx%d matrix" % (len(idx), m.r, m.c))
        return Ref(lambda: m.get(i, j), lambda v: m.set(i, j, v))

    # ------------------------------------------------------------------ calls
    def call(self, n):
        nm, callee = self.callee_name(n)
        args = n["inner"][1:]
        rd = callee.get("referencedDecl", {})
        if rd.get("kind") == "CXXMethodDecl" and nm in ("Zero", "Identity", "Constant", "Ones", "UnitX", "UnitY", "UnitZ"):
            d = first_matrix_dims(n.get("type", {}).get("qualType", "")) or first_matrix_dims(callee.get("type", {}).get("qualType", ""))
            if d is None:
                raise Unsupported("dimensions of %s()" % nm)
            r, c = d
            if nm == "Zero" and not args:
                return fresh_mat([[ZERO] * c for _ in range(r)])
            if nm == "Ones" and not args:
                return fresh_mat([[ONE] * c for _ in range(r)])
            if nm == "Identity" and not args:
                return fresh_mat([[ONE if i == j else ZERO for j in range(c)] for i in range(r)])
            if nm == "Constant" and len(args) == 1:
                t = self.bind_scalar("c", self.scalar(self.ev(args[0])))
                return fresh_mat([[t] * c for _ in range(r)])
            if nm in ("UnitX", "UnitY", "UnitZ") and not args and (c == 1 or r == 1):
                kx = "XYZ".index(nm[-1])
                vs = [ONE if i == kx else ZERO for i in range(max(r, c))]
                return fresh_mat([[v] for v in vs] if c == 1 else [vs])
            raise Unsupported("static %s with %d arguments" % (nm, len(args)))
        if nm in UNARY and len(args) == 1 and rd.get("kind") == "FunctionDecl":
            return "(%s N %s)" % (UNARY[nm], self.scalar(self.ev(args[0])))
        if nm == "pow" and len(args) == 2:
            ex = self.strip(args[1])
            if ex.get("kind") == "ImplicitCastExpr":
                ex = self.strip(ex["inner"][0])
            a = self.scalar(self.ev(args[0]))
            if ex.get("kind") == "IntegerLiteral" and ex.get("value") == "2":
                return "(nmul N %s %s)" % (a, a)
            return "(npow N %s %s)" % (a, self.scalar(self.ev(args[1])))
        if nm in BINARY and len(args) == 2 and rd.get("kind") == "FunctionDecl":
            return "(%s N %s %s)" % (BINARY[nm], self.scalar(self.ev(args[0])), self.scalar(self.ev(args[1])))
        if nm in self.known:
            return self.known_call(nm, args)
        d = self.index.by_id.get(rd.get("id"))
        if d is not None and d.get("name") != nm:
            d = None
        if d is None:
            c = self.index.find(nm, ty=rd.get("type", {}).get("qualType"))
            if len(c) > 1:
                raise Unsupported("%d definitions of %s" % (len(c), nm))
            d = c[0] if c else None
        if d is not None:
            return self.inline(d, args, None)
        raise Unsupported("call to %s" % nm)

    def known_call(self, nm, args):
        spec = self.known[nm]
        vals = [self.ev(a) for a in args]
        self.calls[nm] = vals
        actual = []
        for (ai, i, j) in spec["params"]:
            if ai >= len(vals):
                raise Unsupported("call of %s with %d arguments" % (nm, len(vals)))
            v = vals[ai]
            if i is None:
                actual.append(self.bind_scalar("arg", self.scalar(v)))
            else:
                if not isinstance(v, Mat):
                    raise Unsupported("matrix argument expected by %s" % nm)
                actual.append(self.bind_scalar("arg", v.get(i, j)))
        name = self.fresh(nm + "_result")
        self.lets.append((name, "(%s N %s)" % (spec["coq"], " ".join(actual))))
        k = spec["result"]
        if k == 1:
            return A(name)
        projs = []
        for i in range(k):
            t = name
            for _ in range(k - 1 - i):
                t = "(fst %s)" % t
            if i > 0:
                t = "(snd %s)" % t
            projs.append(A(t if t != name else name))
        return fresh_mat([[p] for p in projs])

    def inline(self, d, args, this):
        ps = params_of(d)
        if len(ps) != len(args):
            raise Unsupported("call of %s with %d arguments for %d parameters (default arguments)" % (d.get("name"), len(args), len(ps)))
        if self.depth > 12:
            raise Unsupported("call depth")
        scope = {}
        for p, a in zip(ps, args):
            v = self.ev(a)
            pt = p.get("type", {}).get("qualType", "")
            byref = pt.rstrip().endswith("&")
            if isinstance(v, Ref):
                if byref and not pt.startswith("const"):
                    raise Unsupported("scalar passed by non-const reference")
                v = v.get()
            if isinstance(v, Mat):
                if not byref:
                    v = fresh_mat(v.entries())
                elif v.base is not v and not pt.startswith("const"):
                    raise Unsupported("block passed by non-const reference")
                elif v.base is not v:
                    v = fresh_mat(v.entries())
            elif isinstance(v, AngleAxis):
                raise Unsupported("AngleAxis argument")
            elif isinstance(v, (Obj, list)) and not byref:
                raise Unsupported("object passed by value")
            elif isinstance(v, str):
                v = self.bind_scalar(p.get("name", "arg"), v)
            if p.get("name"):
                scope[p["name"]] = v
        self.frames.append([scope])
        self.this.append(this)
        self.depth += 1
        try:
            ret = None
            try:
                if d.get("kind") == "CXXConstructorDecl":
                    self.ctor_inits(d, this)
                self.block(body_of(d), new_scope=False)
            except ReturnSignal as r:
                ret = r.value
            return ret
        finally:
            self.depth -= 1
            self.this.pop()
            self.frames.pop()

    def opcall(self, n):
        nm, _ = self.callee_name(n)
        args = n["inner"][1:]
        if nm in ("operator()", "operator[]"):
            m = self.ev(args[0])
            if not isinstance(m, Mat):
                raise Unsupported("element access on a non-matrix")
            return self.elem_ref(m, [self.as_int(a) for a in args[1:]]).get()
        if nm == "operator=":
            return self.assign(args[0], args[1])
        if nm in ("operator+=", "operator-=", "operator*=", "operator/="):
            t = self.ev(args[0])
            if not isinstance(t, Mat):
                raise Unsupported("%s on a non-matrix" % nm)
            v = self.arith(nm[8], fresh_mat(t.entries()), self.ev(args[1]))
            self.store_mat(self.hint(args[0]), t, v)
            return t
        if nm in ("operator<<", "operator,"):
            return self.comma(n)
        if nm in ("operator*", "operator+", "operator-", "operator/"):
            if len(args) == 1:
                v = self.ev(args[0])
                if nm == "operator-" and isinstance(v, Mat):
                    return fresh_mat([[neg(t) for t in row] for row in v.entries()])
                raise Unsupported("unary %s" % nm)
            return self.arith(nm[8], self.ev(args[0]), self.ev(args[1]))
        raise Unsupported("operator %s" % nm)

    def arith(self, op, a, b):
        if isinstance(a, Ref):
            a = a.get()
        if isinstance(b, Ref):
            b = b.get()
        if isinstance(a, (Quat, AngleAxis)) and isinstance(b, (Quat, AngleAxis)) and op == "*":
            return self.quat_mul(a, b)
        am, bm = isinstance(a, Mat), isinstance(b, Mat)
        if am and bm:
            if op == "*":
                if a.c != b.r:
                    if (a.r, a.c) == (1, 1) or (b.r, b.c) == (1, 1):
                        raise Unsupported("1x1 matrix used as a scalar")
                    raise Unsupported("product of %dx%d by %dx%d" % (a.r, a.c, b.r, b.c))
                ea, eb = self.bind_entries("tmp", a.entries()), self.bind_entries("tmp", b.entries())
                return fresh_mat([[sum_terms([binop("*", ea[i][k], eb[k][j]) for k in range(a.c)]) for j in range(b.c)] for i in range(a.r)])
            if op in "+-":
                if (a.r, a.c) != (b.r, b.c):
                    raise Unsupported("sum of %dx%d and %dx%d" % (a.r, a.c, b.r, b.c))
                ea, eb = a.entries(), b.entries()
                t = fresh_mat([[binop(op, ea[i][j], eb[i][j]) for j in range(a.c)] for i in range(a.r)])
                t.tr_of = getattr(a, "tr_of", None) or getattr(b, "tr_of", None)
                return t
            raise Unsupported("matrix %s matrix" % op)
        if am and not bm and op in "*/":
            s = self.bind_scalar("s", self.scalar(b))
            return fresh_mat([[binop(op, t, s) for t in row] for row in a.entries()])
        if bm and not am and op == "*":
            s = self.bind_scalar("s", self.scalar(a))
            return fresh_mat([[binop("*", s, t) for t in row] for row in b.entries()])
        raise Unsupported("operands of %s" % op)

    def assign(self, lhs, rhs):
        target = self.ev(lhs)
        if isinstance(target, Mat):
            if target.r * target.c > 9:
                v = self.big_rhs(self.hint(lhs), rhs)
            else:
                v = self.ev(rhs)
            if isinstance(v, Mat) and v.base is target.base:
                v = fresh_mat(v.entries())
            self.store_mat(self.hint(lhs), target, v)
            return target
        if isinstance(target, Obj):
            v = self.ev(rhs)
            if not isinstance(v, Obj) or v.cls != target.cls:
                raise Unsupported("object assignment")
            if target.frozen or any(getattr(x, "frozen", False) for x in target.fields.values()):
                raise Unsupported("write to an object a reference is bound to")
            target.fields = self.copy_value(v).fields
            return target
        raise Unsupported("operator= target")

    def copy_value(self, v):
        if isinstance(v, Mat):
            return fresh_mat([[v.base.e[v.i0 + i][v.j0 + j] for j in range(v.c)] for i in range(v.r)])
        if isinstance(v, Obj):
            o = Obj(v.cls, v.free)
            o.fields = {k: self.copy_value(x) for k, x in v.fields.items()}
            return o
        if isinstance(v, list):
            return [self.copy_value(x) for x in v]
        return v

    # ---- big matrices: outline the expression
    def big_leaves(self, n, acc):
        """sub-expressions that denote a stored big matrix (variables, members, array elements)"""
        s = self.strip(n)
        if s.get("kind") in ("DeclRefExpr", "MemberExpr", "ArraySubscriptExpr"):
            try:
                v = self.ev(s)
            except Unsupported:
                v = None
            if isinstance(v, Mat) and v.r * v.c > 9 and v.base is v:
                acc.append((s, v))
                return
        if s.get("kind") == "ImplicitCastExpr":
            return self.big_leaves(s["inner"][0], acc)
        for c in s.get("inner", []):
            if isinstance(c, dict):
                self.big_leaves(c, acc)

    def snapshot(self, hint, m):
        """make the stored big matrix a single named function (entries (name i j)); returns the name"""
        e = m.entries()
        m0 = re.match(r"^\((\w+) 0%nat 0%nat\)$", e[0][0])
        if m0 and all(e[i][j] == "(%s %s %s)" % (m0.group(1), nat(i), nat(j)) for i in range(m.r) for j in range(m.c)):
            return m0.group(1)
        b = self.bind_entries(hint, e, force=True)
        for i in range(m.r):
            for j in range(m.c):
                m.base.e[m.i0 + i][m.j0 + j] = b[i][j]
        return re.match(r"^\((\w+) ", b[0][0]).group(1)

    def big_rhs(self, hint, rhs):
        leaves = []
        self.big_leaves(rhs, leaves)
        s = self.strip(rhs)
        if not leaves or (len(leaves) == 1 and leaves[0][0] is s):
            return self.ev(rhs)
        distinct, formal, subst = [], {}, {}
        for node, m in leaves:
            if id(m) not in formal:
                x = "X%d" % (len(distinct) + 1)
                formal[id(m)] = fresh_mat([[A("(%s %s %s)" % (x, nat(i), nat(j))) for j in range(m.c)] for i in range(m.r)])
                distinct.append((node, m, x))
            subst[node.get("id")] = formal[id(m)]
        names = [self.snapshot(self.hint(node), m) for node, m, _ in distinct]
        saved_lets, self.lets = self.lets, []
        saved_ev = self.ev

        def ev_subst(n, saved_ev=saved_ev):
            if n.get("id") in subst and n.get("kind") in ("DeclRefExpr", "MemberExpr", "ArraySubscriptExpr"):
                return subst[n["id"]]
            return saved_ev(n)
        self.ev = ev_subst
        try:
            v = self.ev(rhs)
            inner_lets = self.lets
        finally:
            self.ev = saved_ev
            self.lets = saved_lets
        if not isinstance(v, Mat):
            raise Unsupported("big matrix expression")
        aux = "%s_big%d" % (self.prefix, len(self.aux) + 1)
        body = "".join("let %s := %s in\n  " % (nm, t) for nm, t in inner_lets) + self.big_fun(v.entries())
        self.aux.append("(* %d x %d expression over the big matrices %s *)\nDefinition %s {T : Type} (N : NumOps T) %s : nat -> nat -> T :=\n  %s.\n" % (
            v.r, v.c, ", ".join(self.hint(node) for node, _, _ in distinct), aux,
            " ".join("(%s : nat -> nat -> T)" % x for _, _, x in distinct), body))
        name = self.fresh(hint)
        self.lets.append((name, "(%s N %s)" % (aux, " ".join(names))))
        res = fresh_mat([[A("(%s %s %s)" % (name, nat(i), nat(j))) for j in range(v.c)] for i in range(v.r)])
        res.outlined = True
        return res

    # ---- quaternions: the formulas of Eigen/src/Geometry/Quaternion.h (3.4)
    def to_quat(self, v):
        if isinstance(v, Quat):
            return v
        if isinstance(v, AngleAxis):
            # Quaternion::operator=(AngleAxis):  ha = Scalar(0.5) * angle;  w = cos(ha);  vec = sin(ha) * axis
            ha = self.bind_scalar("ha", binop("*", A("(nofDec N (5)%Z (-1)%Z)"), v.angle))
            s = self.bind_scalar("sin_ha", "(nsin N %s)" % ha)
            return self.bind_quat("q", Quat("(ncos N %s)" % ha, *[binop("*", s, a) for a in v.axis]))
        raise Unsupported("quaternion expected")

    def bind_quat(self, hint, q):
        if all(isinstance(t, A) for t in q.q):
            return q
        name = self.fresh(hint)
        self.lets.append((name, "(mkQ %s)" % " ".join(q.q)))
        return Quat(*[A("(q%s %s)" % (c, name)) for c in "wxyz"])

    def quat_mul(self, a, b):
        a, b = self.to_quat(a), self.to_quat(b)
        (aw, ax, ay, az), (bw, bx, by, bz) = a.q, b.q

        def m(x, y):
            return binop("*", x, y)
        return self.bind_quat("q", Quat(
            binop("-", binop("-", binop("-", m(aw, bw), m(ax, bx)), m(ay, by)), m(az, bz)),
            binop("-", binop("+", binop("+", m(aw, bx), m(ax, bw)), m(ay, bz)), m(az, by)),
            binop("-", binop("+", binop("+", m(aw, by), m(ay, bw)), m(az, bx)), m(ax, bz)),
            binop("-", binop("+", binop("+", m(aw, bz), m(az, bw)), m(ax, by)), m(ay, bx))))

    def quat_matrix(self, q):
        """QuaternionBase::toRotationMatrix"""
        w, x, y, z = self.to_quat(q).q
        two = A("(nofZ N (2)%Z)")
        b = self.bind_scalar
        tx, ty, tz = b("tx", binop("*", two, x)), b("ty", binop("*", two, y)), b("tz", binop("*", two, z))
        twx, twy, twz = b("twx", binop("*", tx, w)), b("twy", binop("*", ty, w)), b("twz", binop("*", tz, w))
        txx, txy, txz = b("txx", binop("*", tx, x)), b("txy", binop("*", ty, x)), b("txz", binop("*", tz, x))
        tyy, tyz, tzz = b("tyy", binop("*", ty, y)), b("tyz", binop("*", tz, y)), b("tzz", binop("*", tz, z))
        one = A("(nofZ N (1)%Z)")
        return fresh_mat([[binop("-", one, binop("+", tyy, tzz)), binop("-", txy, twz), binop("+", txz, twy)],
                          [binop("+", txy, twz), binop("-", one, binop("+", txx, tzz)), binop("-", tyz, twx)],
                          [binop("-", txz, twy), binop("+", tyz, twx), binop("-", one, binop("+", txx, tyy))]])

    def quat_method(self, q, nm, args):
        if nm in ("w", "x", "y", "z") and not args:
            return q.q["wxyz".index(nm)]
        if nm == "toRotationMatrix" and not args:
            return self.quat_matrix(q)
        if nm == "normalized" and not args:
            # MatrixBase::normalized on the coefficients (x, y, z, w):  z = squaredNorm;  z > 0 ? coeffs / sqrt(z) : coeffs
            w, x, y, z = q.q
            zz = self.bind_scalar("z", sum_terms([binop("*", t, t) for t in (x, y, z, w)]))
            n = self.bind_scalar("n", "(nsqrt N %s)" % zz)
            c = "(nltb N (nofZ N (0)%%Z) %s)" % zz
            return self.bind_quat("q", Quat(*["(if %s then %s else %s)" % (c, binop("/", t, n), t) for t in (w, x, y, z)]))
        if nm == "conjugate" and not args:
            w, x, y, z = q.q
            return Quat(w, neg(x), neg(y), neg(z))
        raise Unsupported("Quaternion method %s" % nm)

    # ---- comma initialiser
    def comma(self, n):
        items = []
        cur = self.strip(n)
        while cur.get("kind") == "CXXOperatorCallExpr" and self.callee_name(cur)[0] == "operator,":
            items.insert(0, cur["inner"][2])
            cur = self.strip(cur["inner"][1])
        if cur.get("kind") != "CXXOperatorCallExpr" or self.callee_name(cur)[0] != "operator<<":
            raise Unsupported("comma operator outside a comma initialiser")
        items.insert(0, cur["inner"][2])
        target = self.ev(cur["inner"][1])
        if not isinstance(target, Mat):
            raise Unsupported("operator<< on a non-matrix")
        vals = []
        for it in items:
            v = self.ev(it)
            if isinstance(v, Ref):
                v = v.get()
            if isinstance(v, Mat):
                vals.append(v.entries())
            else:
                vals.append([[self.scalar(v)]])
        tmp = [[None] * target.c for _ in range(target.r)]
        row, col, brows = 0, 0, 0
        for e in vals:
            r, c = len(e), len(e[0])
            if col == target.c:
                row, col, brows = row + brows, 0, r
            elif col == 0 and brows == 0:
                brows = r
            elif r != brows:
                raise Unsupported("comma initialiser: block of %d rows in a band of %d" % (r, brows))
            if row + r > target.r or col + c > target.c:
                raise Unsupported("comma initialiser: too many coefficients")
            for i in range(r):
                for j in range(c):
                    tmp[row + i][col + j] = e[i][j]
            col += c
        if any(t is None for rw in tmp for t in rw):
            raise Unsupported("comma initialiser: too few coefficients")
        self.store_mat(self.hint(cur["inner"][1]), target, fresh_mat(tmp))
        return target

    # ---- member calls
    def membercall(self, n):
        c = self.strip(n["inner"][0])
        if c.get("kind") != "MemberExpr":
            raise Unsupported("member call through %s" % c.get("kind"))
        nm = c.get("name")
        args = [a for a in n["inner"][1:] if a.get("kind") != "CXXDefaultArgExpr"]     # head<n>(Index n = N), block<r,c>(i, j, r = R, c = C)
        base = self.ev(c["inner"][0])
        if isinstance(base, Ref):
            base = base.get()
        if isinstance(base, Mat):
            return self.mat_method(base, nm, args, n)
        if isinstance(base, Quat):
            return self.quat_method(base, nm, args)
        if isinstance(base, Obj):
            d = self.index.by_id.get(c.get("referencedMemberDecl"))
            if d is not None and (d.get("name") != nm or len(params_of(d)) != len(args)):
                d = None          # an id of another clang run
            if d is None:
                cands = [x for x in self.index.defs if x.get("kind") == "CXXMethodDecl" and x.get("name") == nm
                         and len(params_of(x)) == len(args) and self.method_of(x, base.cls)]
                if len(cands) == 1:
                    d = cands[0]
                elif len(cands) > 1:
                    # overloads: the argument types decide
                    want = [clean_type(a.get("type", {}).get("qualType", "")) for a in args]
                    cands = [x for x in cands if [clean_type(p.get("type", {}).get("qualType", "")) for p in params_of(x)] == want]
                    d = cands[0] if len(cands) == 1 else None
            if d is not None:
                return self.inline(d, args, base)
            if base.free is not None and not args and nm in ACCESSOR_DIMS and re.search(r"Transform<double, 3|Affine3d|Isometry3d", base.cls):
                # accessors of an Eigen::Transform parameter: free variables (rotation() of a rigid transform is its linear part)
                key, path, sig = base.free
                fname = "()" + nm
                if fname not in base.fields:
                    base.fields[fname] = self.free_matrix(key + (fname,), path + "_" + nm, ACCESSOR_DIMS[nm], sig + "." + nm + "()")
                return base.fields[fname]
            raise Unsupported("method %s of %s" % (nm, base.cls))
        raise Unsupported("member call %s on %s" % (nm, type(base).__name__))

    def method_of(self, d, cls):
        c = self.index.cls_of.get(id(d))
        return c is None or c == cls.split("::")[-1]

    def mat_method(self, m, nm, args, n):
        ty = n.get("type", {}).get("qualType", "")
        if nm == "transpose" and not args:
            e = m.entries()
            t = fresh_mat([[e[i][j] for i in range(m.r)] for j in range(m.c)])
            t.tr_of = m.base          # a lazily evaluated view of m in Eigen: assigning it (or a sum with it) to m aliases
            return t
        if nm == "col" and len(args) == 1:
            return m.view(0, self.as_int(args[0]), m.r, 1)
        if nm == "row" and len(args) == 1:
            return m.view(self.as_int(args[0]), 0, 1, m.c)
        if nm in ("x", "y", "z", "w") and not args:
            return self.elem_ref(m, ["xyzw".index(nm)]).get()
        if nm in ("coeff", "coeffRef"):
            return self.elem_ref(m, [self.as_int(a) for a in args]).get()
        if nm in ("block", "topLeftCorner", "topRightCorner", "bottomLeftCorner", "bottomRightCorner"):
            mm = re.search(r"FixedBlockXpr<(\d+), (\d+)>", ty) or re.search(r"Block<.*, (\d+), (\d+), (?:true|false)>", ty)
            if mm:
                r, c = int(mm.group(1)), int(mm.group(2))
                idx = [self.as_int(a) for a in args]
            else:
                idx = [self.as_int(a) for a in args]
                if nm == "block" and len(idx) == 4:
                    r, c = idx[2], idx[3]
                    idx = idx[:2]
                elif nm != "block" and len(idx) == 2:
                    r, c = idx
                    idx = []
                else:
                    raise Unsupported("block dimensions")
            if nm == "block":
                if len(idx) != 2:
                    raise Unsupported("block<r,c>(i,j) expected")
                i0, j0 = idx
            else:
                i0 = 0 if nm.startswith("top") else m.r - r
                j0 = 0 if "Left" in nm else m.c - c
            return m.view(i0, j0, r, c)
        if nm in ("head", "tail", "segment") and m.is_vector():
            mm = re.search(r"FixedSegmentReturnType<(\d+)>|VectorBlock<.*, (\d+)>", ty)
            idx = [self.as_int(a) for a in args]
            if mm:
                cnt = int(mm.group(1) or mm.group(2))
            elif nm == "segment" and len(idx) == 2:
                cnt, idx = idx[1], idx[:1]
            elif nm != "segment" and len(idx) == 1:
                cnt, idx = idx[0], []
            else:
                raise Unsupported("segment size")
            ln = max(m.r, m.c)
            st = idx[0] if nm == "segment" else (0 if nm == "head" else ln - cnt)
            return m.view(st, 0, cnt, 1) if m.c == 1 else m.view(0, st, 1, cnt)
        if nm == "cross" and len(args) == 1:
            o = self.ev(args[0])
            if not (isinstance(o, Mat) and m.is_vector() and o.is_vector() and m.r * m.c == 3 and o.r * o.c == 3):
                raise Unsupported("cross product of non 3-vectors")
            a, b = [m.vget(i) for i in range(3)], [o.vget(i) for i in range(3)]
            # Eigen: (a1*b2 - a2*b1, a2*b0 - a0*b2, a0*b1 - a1*b0)
            vs = [binop("-", binop("*", a[1], b[2]), binop("*", a[2], b[1])),
                  binop("-", binop("*", a[2], b[0]), binop("*", a[0], b[2])),
                  binop("-", binop("*", a[0], b[1]), binop("*", a[1], b[0]))]
            return fresh_mat([[v] for v in vs] if m.c == 1 else [vs])
        if nm == "dot" and len(args) == 1:
            o = self.ev(args[0])
            if not (isinstance(o, Mat) and m.is_vector() and o.is_vector() and m.r * m.c == o.r * o.c):
                raise Unsupported("dot product")
            return sum_terms([binop("*", m.vget(i), o.vget(i)) for i in range(m.r * m.c)])
        if nm in ("squaredNorm", "norm") and not args:
            s = sum_terms([binop("*", t, t) for row in m.entries() for t in row])
            return s if nm == "squaredNorm" else "(nsqrt N %s)" % s
        if nm == "trace" and not args and m.r == m.c:
            return sum_terms([m.get(i, i) for i in range(m.r)])
        if nm == "sum" and not args:
            return sum_terms([t for row in m.entries() for t in row])
        if nm in ("setZero", "setIdentity") and not args:
            for i in range(m.r):
                for j in range(m.c):
                    m.set(i, j, ZERO if nm == "setZero" or i != j else ONE)
            return m
        if nm in ("finished", "eval") and not args:
            return m
        raise Unsupported("Eigen method %s" % nm)

    # ------------------------------------------------------------------ constructors
    def construct(self, n, hint):
        ty = n.get("type", {})
        args = [a for a in n.get("inner", []) if isinstance(a, dict)]
        aty = re.match(r"^(.*)\[(\d+)\]$", clean_type(ty.get("qualType", "")))
        if aty:
            if args:
                raise Unsupported("array initialiser")
            d = mat_dims(aty.group(1))
            if not d:
                raise Unsupported("array of %s" % aty.group(1))
            return [Mat(*d) for _ in range(int(aty.group(2)))]
        rot = rotation_type(ty)
        if rot:
            vals = [self.ev(a) for a in args]
            vals = [v.get() if isinstance(v, Ref) else v for v in vals]
            if rot == "AngleAxis" and len(vals) == 2 and isinstance(vals[1], Mat) and vals[1].is_vector() and vals[1].r * vals[1].c == 3:
                return AngleAxis(self.bind_scalar("angle", self.scalar(vals[0])), [vals[1].vget(i) for i in range(3)])
            if rot == "AngleAxis" and len(vals) == 1 and isinstance(vals[0], AngleAxis):
                return vals[0]
            if rot == "Quaternion" and len(vals) == 1 and isinstance(vals[0], (Quat, AngleAxis)):
                return self.to_quat(vals[0])
            if rot == "Quaternion" and len(vals) == 4 and all(not isinstance(v, (Mat, Obj, list, Quat, AngleAxis)) for v in vals):
                return self.bind_quat("q", Quat(*[self.scalar(v) for v in vals]))
            raise Unsupported("%s constructor with %d arguments" % (rot, len(vals)))
        d = mat_dims(ty)
        if d:
            r, c = d
            if not args:
                return Mat(r, c)
            vals = [self.ev(a) for a in args]
            vals = [v.get() if isinstance(v, Ref) else v for v in vals]
            if len(vals) == 1 and isinstance(vals[0], (Quat, AngleAxis)) and (r, c) == (3, 3):
                return self.quat_matrix(vals[0])          # Matrix(const RotationBase &) = toRotationMatrix()
            if len(vals) == 1 and isinstance(vals[0], Mat):
                v = vals[0]
                if (v.r, v.c) != (r, c):
                    raise Unsupported("construction of a %dx%d matrix from a %dx%d value" % (r, c, v.r, v.c))
                return fresh_mat(v.entries())
            if (c == 1 or r == 1) and len(vals) == r * c and len(vals) > 1 and all(not isinstance(v, (Mat, Obj, list)) for v in vals):
                vs = [self.scalar(v) for v in vals]
                return fresh_mat([[v] for v in vs] if c == 1 else [vs])
            raise Unsupported("matrix constructor with %d arguments" % len(vals))
        cls = class_name(ty)
        if cls is None:
            raise Unsupported("construction of %s" % ty.get("qualType"))
        if len(args) == 1 and re.match(r"^void \((const )?%s &&?\)( noexcept)?$" % re.escape(cls), n.get("ctorType", {}).get("qualType", "")):
            v = self.ev(args[0])                                  # copy / move construction
            if isinstance(v, Obj):
                return self.copy_value(v)
            raise Unsupported("copy construction of %s" % cls)
        obj = Obj(cls)
        self.run_ctor(obj, cls, n.get("ctorType", {}).get("qualType"), args, hint)
        return obj

    def run_ctor(self, obj, cls, ctor_type, args, hint):
        short = re.sub(r"<.*>$", "", cls).split("::")[-1]
        summ = self.summaries.get((short, ctor_type))
        if summ is not None:
            vals = [self.bind_scalar("arg", self.scalar(self.ev(a))) for a in args]
            for field, acc in summ["members"]:
                name = self.fresh("%s_%s" % (hint or short, field))
                self.lets.append((name, "(%s N %s)" % (acc, " ".join(vals))))
                obj.fields[field] = fresh_mat([[A("(m%d%d %s)" % (i, j, name)) for j in range(3)] for i in range(3)])
            return
        cands = [d for d in self.index.defs if d.get("kind") == "CXXConstructorDecl" and d.get("name") == short
                 and d.get("type", {}).get("qualType") == ctor_type]
        if len(cands) != 1:
            raise Unsupported("constructor %s %s: %d definitions loaded" % (short, ctor_type, len(cands)))
        self.inline(cands[0], args, obj)

    def ctor_inits(self, d, obj):
        for ci in d.get("inner", []):
            if not isinstance(ci, dict) or ci.get("kind") != "CXXCtorInitializer":
                continue
            init = [c for c in ci.get("inner", []) if isinstance(c, dict)]
            if "delegatingInit" in ci:
                e = self.strip(init[0])
                if e.get("kind") != "CXXConstructExpr":
                    raise Unsupported("delegating initialiser")
                self.run_ctor(obj, obj.cls, e.get("ctorType", {}).get("qualType"), [a for a in e.get("inner", []) if isinstance(a, dict)], None)
            elif "anyInit" in ci:
                f = ci["anyInit"]
                v = self.ev(init[0])
                if isinstance(v, Ref):
                    v = v.get()
                if isinstance(v, Mat):
                    m = Mat(v.r, v.c)
                    self.store_mat(f["name"], m, v)
                    v = m
                elif isinstance(v, str):
                    v = self.bind_scalar(f["name"], v)
                if f["name"] in getattr(self, "base_fields", ()):
                    raise Unsupported("member %s hides a base-class member" % f["name"])
                obj.fields[f["name"]] = v
            elif "baseInit" in ci:
                # the base-class sub-object shares the object's field table (a derived class hiding a base member is refused)
                e = self.strip(init[0]) if init else {}
                if e.get("kind") != "CXXConstructExpr":
                    raise Unsupported("base-class initialiser")
                before = set(obj.fields)
                self.run_ctor(obj, clean_type(ci["baseInit"].get("qualType", "")), e.get("ctorType", {}).get("qualType"),
                              [a for a in e.get("inner", []) if isinstance(a, dict)], None)
                self.base_fields = getattr(self, "base_fields", set()) | (set(obj.fields) - before)
            else:
                raise Unsupported("constructor initialiser")

    # ------------------------------------------------------------------ statements
    def block(self, n, new_scope=True):
        if new_scope:
            self.scopes().append({})
        try:
            for st in n.get("inner", []):
                if isinstance(st, dict):
                    self.stmt(st)
        finally:
            if new_scope:
                self.scopes().pop()

    def stmt(self, st):
        k = st.get("kind")
        if k == "CompoundStmt":
            return self.block(st)
        if k == "NullStmt":
            return
        if k == "DeclStmt":
            for v in st.get("inner", []):
                if v.get("kind") != "VarDecl":
                    if v.get("kind") in ("StaticAssertDecl", "TypedefDecl", "TypeAliasDecl", "UsingDecl"):
                        continue
                    raise Unsupported("declaration %s" % v.get("kind"))
                self.vardecl(v)
            return
        if k == "ReturnStmt":
            inner = [c for c in st.get("inner", []) if isinstance(c, dict)]
            v = self.ev(inner[0]) if inner else None
            if isinstance(v, Ref):
                v = v.get()
            raise ReturnSignal(v)
        if k == "ForStmt":
            return self.forloop(st)
        if k == "IfStmt":
            parts = [c for c in st.get("inner", []) if isinstance(c, dict)]
            if st.get("hasInit") or st.get("hasVar") or len(parts) not in (2, 3):
                raise Unsupported("if statement shape")
            c = self.ev(parts[0])
            if not isinstance(c, bool):
                raise Unsupported("if on a run-time condition")
            if c:
                self.stmt(parts[1])
            elif len(parts) == 3:
                self.stmt(parts[2])
            return
        if st.get("type", {}).get("qualType") == "void" and k in ("ParenExpr", "CStyleCastExpr", "CXXStaticCastExpr", "CXXFunctionalCastExpr"):
            return       # (void)x;  ((void)0);
        if k in ("BinaryOperator", "CompoundAssignOperator", "UnaryOperator", "CXXOperatorCallExpr", "CXXMemberCallExpr", "CallExpr",
                 "ExprWithCleanups"):
            self.ev(st)
            return
        raise Unsupported("statement %s" % k)

    def vardecl(self, v):
        ty = v.get("type", {})
        q = ty.get("qualType", "")
        name = v.get("name")
        init = [c for c in v.get("inner", []) if isinstance(c, dict)]
        isref = q.rstrip().endswith("&")
        if is_int_type(ty) and not isref:
            val = self.ev(init[0]) if init else None
            if isinstance(val, Ref):
                val = val.get()
            if val is not None and not isinstance(val, int):
                raise Unsupported("integer variable %s with a run-time value" % name)
            self.declare(name, val)
            return
        if is_scalar_type(ty):
            if not init:
                self.declare(name, None)
                return
            val = self.ev(init[0])
            if isinstance(val, Ref):
                val = val.get()
            self.declare(name, self.bind_scalar(name, self.scalar(val)))
            return
        if not init:
            raise Unsupported("declaration of %s without initialiser" % name)
        e = self.strip(init[0])
        d = mat_dims(ty)
        if isref:
            val = self.ev(e)
            if isinstance(val, Mat) and val.base is val or isinstance(val, Obj):
                if not q.startswith("const"):
                    raise Unsupported("non-const reference %s" % name)
                val.frozen = True            # the referenced object must not change while the alias lives
                self.declare(name, val)
                return
            if isinstance(val, Mat):
                self.declare(name, fresh_mat(val.entries()))     # reference to a temporary / block: a copy (blocks of const objects only)
                if not q.startswith("const"):
                    raise Unsupported("non-const reference %s" % name)
                return
            raise Unsupported("reference %s" % name)
        if d and d[0] * d[1] > 9 and e.get("kind") in ("CXXConstructExpr", "CXXTemporaryObjectExpr"):
            args = [a for a in e.get("inner", []) if isinstance(a, dict)]
            if len(args) == 1:
                m = Mat(*d)
                self.store_mat(name, m, self.big_rhs(name, args[0]))
                self.declare(name, m)
                return
        if e.get("kind") in ("CXXConstructExpr", "CXXTemporaryObjectExpr"):
            val = self.construct(e, name)
        else:
            val = self.ev(e)
        if isinstance(val, Mat):
            m = Mat(val.r, val.c)
            if d and (val.r, val.c) != d:
                raise Unsupported("initialisation of %s with a %dx%d value" % (name, val.r, val.c))
            if all(val.base.e[val.i0 + i][val.j0 + j] is None for i in range(val.r) for j in range(val.c)):
                self.declare(name, m)              # default-constructed: uninitialised
                return
            self.store_mat(name, m, val)
            self.declare(name, m)
            return
        if isinstance(val, (Obj, list, AngleAxis)):
            self.declare(name, val)
            return
        if isinstance(val, Quat):
            self.declare(name, self.bind_quat(name, val))
            return
        raise Unsupported("declaration of %s : %s" % (name, q))

    def forloop(self, st):
        parts = st.get("inner", [])
        if len(parts) != 5:
            raise Unsupported("for statement shape")
        init, condvar, cond, inc, body = parts
        if condvar:
            raise Unsupported("for with a condition variable")
        self.scopes().append({})
        try:
            if init:
                self.stmt(init)
            count = 0
            while True:
                c = self.ev(cond) if cond else True
                if not isinstance(c, bool):
                    raise Unsupported("loop condition is not known at translation time (literal bounds only)")
                if not c:
                    break
                count += 1
                if count > MAX_UNROLL:
                    raise Unsupported("loop unrolled more than %d times" % MAX_UNROLL)
                if self.has_kind(body, ("BreakStmt", "ContinueStmt", "GotoStmt")):
                    raise Unsupported("break / continue in a loop")
                self.stmt(body) if body.get("kind") != "CompoundStmt" else self.block(body)
                if inc:
                    self.ev(inc)
        finally:
            self.scopes().pop()

    def has_kind(self, n, kinds):
        if n.get("kind") in kinds:
            return True
        return any(isinstance(c, dict) and self.has_kind(c, kinds) for c in n.get("inner", []))

    # ------------------------------------------------------------------ top level
    def run(self, d, this=None):
        """evaluate the definition d with free parameters (and a free `this` for a method); returns (return value, this)"""
        scope = {}
        for i, p in enumerate(params_of(d)):
            if p.get("name"):
                scope[p["name"]] = self.free_value((i,), p["name"], p.get("type", {}), "arg%d" % i)
        self.frames.append([scope])
        self.this.append(this)
        try:
            ret = None
            try:
                if d.get("kind") == "CXXConstructorDecl":
                    self.ctor_inits(d, this)
                self.block(body_of(d), new_scope=False)
            except ReturnSignal as r:
                ret = r.value
            return ret
        finally:
            self.final_scope = self.frames[-1][0]
            self.this.pop()
            self.frames.pop()


# ---------------------------------------------------------------------------------------------------- emission
def coq_value(v):
    """(term, type) of an output value"""
    if isinstance(v, Ref):
        v = v.get()
    if isinstance(v, str):
        return v, "T"
    if isinstance(v, Quat):
        return "(mkQ %s)" % " ".join(v.q), "quat T"
    if isinstance(v, Mat):
        e = v.entries()
        flat = [t for row in e for t in row]
        if (v.r, v.c) == (3, 3):
            return "(mkM3 %s)" % " ".join(flat), "mat3 T"
        if (v.r, v.c) in ((3, 1), (1, 3)):
            return "(mkV3 %s)" % " ".join(flat), "vec3 T"
        if (v.r, v.c) == (2, 2):
            return "(mkM2 %s)" % " ".join(flat), "mat2 T"
        if (v.r, v.c) in ((2, 1), (1, 2)):
            return "(%s, %s)" % (flat[0], flat[1]), "(T * T)%type"
        if v.r * v.c > 9:
            m0 = re.match(r"^\((\w+) 0%nat 0%nat\)$", e[0][0])
            if m0 and all(e[i][j] == "(%s %s %s)" % (m0.group(1), nat(i), nat(j)) for i in range(v.r) for j in range(v.c)):
                return m0.group(1), "(nat -> nat -> T)"
            cases = " ".join("| %s, %s => %s" % (nat(i), nat(j), e[i][j]) for i in range(v.r) for j in range(v.c))
            return "(fun i j : nat => match i, j with %s | _, _ => (nzero N) end)" % cases, "(nat -> nat -> T)"
        return "(%s)" % ", ".join(flat), "(%s)%%type" % " * ".join(["T"] * len(flat))
    raise Unsupported("output value of kind %s" % type(v).__name__)


def emit(ev, cname, outputs, comment):
    """text of  Definition cname (free ...) : tuple type := lets; tuple.   outputs = [(label, value)]"""
    frees = sorted(ev.free.items(), key=lambda kv: (tuple(str(x) for x in kv[1][0]), kv[0]))
    # scalars that are direct parameters keep their declaration order (key = (index,)); everything is ordered by (index, path)
    frees = sorted(ev.free.items(), key=lambda kv: ([(0, x) if isinstance(x, int) else (1, x) for x in kv[1][0]], kv[0]))
    params = " ".join("(%s : %s)" % (nm, info[1]) for nm, info in frees)
    terms, types = [], []
    for _, v in outputs:
        t, ty = coq_value(v)
        terms.append(t)
        types.append(ty)
    rty = types[0] if len(types) == 1 else "(%s)%%type" % " * ".join(types)
    res = terms[0] if len(terms) == 1 else "(%s)" % ", ".join(terms)
    body = "".join("  let %s := %s in\n" % (nm, t) for nm, t in ev.lets)
    sig = "[%s]" % "; ".join('"%s"' % info[2] for _, info in frees)
    text = "".join(a + "\n" for a in ev.aux)
    text += "(* %s\n   inputs: %s\n   outputs: %s *)\n" % (comment, ", ".join("%s = %s" % (nm, info[2]) for nm, info in frees),
                                                           ", ".join(lbl for lbl, _ in outputs))
    text += "Definition %s {T : Type} (N : NumOps T) %s : %s :=\n%s  %s.\n" % (cname, params, rty, body, res)
    text += "Definition %s_inputs : list string := %s%%string.\n" % (cname, sig)
    text += "Definition %s_outputs : list string := [%s]%%string.\n" % (cname, "; ".join('"%s"' % lbl for lbl, _ in outputs))
    # projections
    if len(outputs) > 1:
        pat = "(%s)" % ", ".join("o_%d" % i for i in range(len(outputs)))
        args = " ".join(nm for nm, _ in frees)
        for i, (lbl, _) in enumerate(outputs):
            text += "Definition %s_%s {T : Type} (N : NumOps T) %s : %s :=\n  let '%s := %s N %s in o_%d.\n" % (
                cname, re.sub(r"\W", "_", lbl).strip("_"), params, types[i], pat, cname, args, i)
    return text, [nm for nm, _ in frees]


HEAD = """(* GENERATED by translate/%s from the clang AST of the current /repo sources. Do not edit. *)
From Coq Require Import ZArith List String.
From Romea Require Import Num AnglesModel.
%s
Import ListNotations.

"""


def load_many(repo, reqs):
    """[(src, filter, extra_tu)] -> {req: objs | Unsupported}; the clang runs go in parallel"""
    def one(r):
        try:
            return r, srcfuns.load_uncached(repo, *r)
        except Unsupported as e:
            return r, e
        except Exception as e:  # noqa
            return r, Unsupported("clang: %r" % (e,))
    with ThreadPoolExecutor(max_workers=8) as ex:
        return dict(ex.map(one, reqs))


def cached_generate(unit, repo, gen_dir, deps, fn):
    """fn() -> (text, errors), memoised on the CONTENT of everything the result depends on: the translator sources, every
    file under <repo>/include, the listed source files of <repo> and generated files in gen_dir.  (A clang run per
    translation unit costs seconds; the check of every property runs every translator.)  The key is recomputed on every
    run, so any edit of the sources is seen; system headers (Eigen) are fixed by the environment."""
    import hashlib
    import json
    h = hashlib.sha256()
    here = os.path.dirname(os.path.abspath(__file__))
    files = [os.path.join(here, f) for f in sorted(os.listdir(here)) if f.endswith(".py")]
    for root, _, fs in sorted(os.walk(os.path.join(repo, "include"))):
        files += [os.path.join(root, f) for f in sorted(fs)]
    files += [os.path.join(repo, f) for f in deps.get("src", [])] + [os.path.join(gen_dir, f) for f in deps.get("gen", [])]
    for f in files:
        h.update(f.encode() + b"\0")
        try:
            with open(f, "rb") as fh:
                h.update(fh.read())
        except OSError:
            h.update(b"<missing>")
        h.update(b"\0")
    key = h.hexdigest()
    cdir = os.path.join(here, "..", "build", "eigensym")
    cfile = os.path.join(cdir, unit + ".json")
    try:
        with open(cfile) as fh:
            c = json.load(fh)
        if c.get("key") == key:
            return c["text"], [tuple(e) for e in c["errors"]]
    except (OSError, ValueError, KeyError):
        pass
    text, errors = fn()
    try:
        os.makedirs(cdir, exist_ok=True)
        with open(cfile + ".tmp", "w") as fh:
            json.dump({"key": key, "text": text, "errors": errors}, fh)
        os.replace(cfile + ".tmp", cfile)
    except OSError:
        pass
    return text, errors


def write_if_changed(path, text):
    old = open(path).read() if os.path.exists(path) else None
    if old != text:
        with open(path, "w") as f:
            f.write(text)


def known_from_gen(gen_dir, unit_file, coq_name):
    """parameter list of a definition srcfuns.py generated: names X_i_j (entry (i,j) of matrix argument X) or plain scalars"""
    path = os.path.join(gen_dir, unit_file)
    if not os.path.exists(path):
        raise Unsupported("%s is missing" % unit_file)
    txt = open(path).read()
    m = re.search(r"Definition %s ((?:\(\w+ : T\) ?)+): (.*?) :=" % re.escape(coq_name), txt)
    if not m:
        raise Unsupported("%s is not defined in %s" % (coq_name, unit_file))
    names = re.findall(r"\((\w+) : T\)", m.group(1))
    mats, params = [], []
    for nm in names:
        mm = re.match(r"^(\w+?)_(\d+)_(\d+)$", nm)
        if mm:
            if mm.group(1) not in mats:
                mats.append(mm.group(1))
            params.append((mats.index(mm.group(1)), int(mm.group(2)), int(mm.group(3))))
        else:
            raise Unsupported("scalar parameter %s of %s" % (nm, coq_name))
    nres = m.group(2).count("*") + 1
    return {"coq": coq_name, "params": params, "result": nres}
