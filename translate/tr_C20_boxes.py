#!/usr/bin/env python3
"""tr_C20_boxes.py — plug-in translator for C20: the class templates AxisAlignedBoundingBox<Scalar,DIM>, OrientedBoundingBox<Scalar,DIM>,
Interval<Scalar,DIM> and PointSetPreconditioner<PointType>  ->  Gallina terms over the numeric dictionary (coq/gen/SrcBoxes.v).

The translation unit includes the three .cpp files (which explicitly instantiate the classes) and explicitly instantiates
Interval<double,2|3>; the clang JSON AST of the INSTANTIATED members at Scalar = double, DIM = 2 and DIM = 3 is translated.

Semantics (per-axis scalar reading of Eigen fixed-size expressions; everything else is refused — fail closed):
  * a fixed-size Eigen vector / matrix denotes its tuple of scalar components; members and parameters become one scalar
    variable per component (`centerPosition_0`, `rotation_1_0` = rotation_(1,0));
  * `.array()` / `.matrix()` only switch `*` between coefficient-wise and matrix product; + - unary- / scalar, abs / cwiseAbs,
    min / max / cwiseMin / cwiseMax (std::min / std::max = nmin2 / nmax2), <= >= < > are coefficient-wise;
    a matrix product component is the left-to-right sum of products starting from zero; transpose(), col(k), row(k), head(k),
    v(k), m(i,j) with compile-time k select components;
  * reductions become folds over the axes of the concrete DIM: .all() / .prod() of comparisons = conjunction ... && true,
    .maxCoeff() = left fold of nmax2 from component 0 (Eigen's visitor: `if (v(i) > res) res = v(i)`), .minCoeff(), .sum();
  * Zero() = nzero, Constant(x) / setConstant(x) = x on every axis; numeric_limits<Scalar>::max() = nmaxval,
    lowest() = nneg nmaxval, min() = nminpos, epsilon() = nepsilon; integer literal k used as a scalar = nofZ k,
    floating literal m*10^e = nofDec m e, int(points.size()) = nofZ (Z.of_nat (length points));
  * `for (int n = 0; n < K; n++)` with compile-time K is unrolled; the loop over the point set
    (`for (size_t n = 0, N = points.size(); n < N; ++n) { const P & point = points[n]; ... }` or a range-for) becomes ONE
    fold_left over the list of points whose state is the tuple of components of the members / locals assigned in the body;
  * getters, Interval::center() / width() / lower() / upper(), and constructors (member-initialiser lists) of the romea classes are
    translated from their own instantiated bodies and inlined at the call site.
Signature of a generated definition: the parameters flattened in declaration order, then ALL data members of the class flattened
in declaration order (matrices row-major); result: the returned value flattened (objects: members in declaration order), or for
a void (mutating) method the tuple of all members after the call."""
import json
import os
import re
import subprocess
import sys
from collections import OrderedDict

HERE = os.path.dirname(os.path.abspath(__file__))
sys.path.insert(0, HERE)
from srcfuns import Unsupported, dec_pair  # noqa: E402

PROP = "C20"
TU = """#include "src/containers/boundingbox/AxisAlignedBoundingBox.cpp"
#include "src/containers/boundingbox/OrientedBoundingBox.cpp"
#include "src/pointset/algorithms/PointSetPreconditioner.cpp"
template class romea::core::Interval<double, 2>;
template class romea::core::Interval<double, 3>;
namespace s20tie {
template<unsigned long K> struct Val {};
Val<romea::core::PointSetPreconditioner<Eigen::Vector2d>::CARTESIAN_DIM> PointSetPreconditioner_Matrix2_CARTESIAN_DIM;
Val<romea::core::PointSetPreconditioner<Eigen::Vector3d>::CARTESIAN_DIM> PointSetPreconditioner_Matrix3_CARTESIAN_DIM;
Val<romea::core::PointSetPreconditioner<Eigen::Vector2d>::POINT_SIZE> PointSetPreconditioner_Matrix2_POINT_SIZE;
Val<romea::core::PointSetPreconditioner<Eigen::Vector3d>::POINT_SIZE> PointSetPreconditioner_Matrix3_POINT_SIZE;
}
"""
FILTERS = ["romea::core::AxisAlignedBoundingBox", "romea::core::OrientedBoundingBox", "romea::core::Interval",
           "romea::core::PointSetPreconditioner", "s20tie"]

# (coq name stem, class, method | "ctor/<nparams>", description)
TARGETS = [
    ("aabb_ctor", "AxisAlignedBoundingBox", "ctor/2"), ("aabb_of_interval", "AxisAlignedBoundingBox", "ctor/1"),
    ("aabb_isInside", "AxisAlignedBoundingBox", "isInside"), ("aabb_toInterval", "AxisAlignedBoundingBox", "toInterval"),
    ("aabb_getCenterPosition", "AxisAlignedBoundingBox", "getCenterPosition"),
    ("aabb_getHalfWidthExtents", "AxisAlignedBoundingBox", "getHalfWidthExtents"),
    ("interval_ctor", "Interval", "ctor/2"), ("interval_lower", "Interval", "lower"), ("interval_upper", "Interval", "upper"),
    ("interval_width", "Interval", "width"), ("interval_center", "Interval", "center"),
    ("interval_include", "Interval", "include"), ("interval_inside", "Interval", "inside"),
    ("obb_ctor", "OrientedBoundingBox", "ctor/3"), ("obb_isInside", "OrientedBoundingBox", "isInside"),
    ("obb_toAABB", "OrientedBoundingBox", "toAxisAlignedBoundingBox"),
    ("obb_getCenterPosition", "OrientedBoundingBox", "getCenterPosition"),
    ("obb_getHalfWidthExtents", "OrientedBoundingBox", "getHalfWidthExtents"),
    ("obb_getRotationMatrix", "OrientedBoundingBox", "getRotationMatrix"),
    ("precond_compute", "PointSetPreconditioner", "compute"),
]
SKIP = ("ImplicitCastExpr", "ParenExpr", "CXXFunctionalCastExpr", "CXXStaticCastExpr", "MaterializeTemporaryExpr", "ExprWithCleanups",
        "CXXBindTemporaryExpr", "ConstantExpr", "SubstNonTypeTemplateParmExpr", "CStyleCastExpr")
RE_MAT = re.compile(r"Eigen::Matrix<double, (\d+)(?:UL)?, (\d+)(?:UL)?")
RE_CLS = re.compile(r"(?:romea::core::)?(AxisAlignedBoundingBox|OrientedBoundingBox|Interval|PointSetPreconditioner)<(.*)>$")


# ------------------------------------------------------------------------------------------------ clang
def run_clang(repo, flt):
    cmd = ["clang++", "-std=c++17", "-DNDEBUG", "-fsyntax-only", "-w", "-I" + os.path.join(repo, "include"), "-I" + repo,
           "-I/usr/include/eigen3", "-Xclang", "-ast-dump=json", "-Xclang", "-ast-dump-filter=" + flt, "-x", "c++", "-"]
    p = subprocess.run(cmd, input=TU, capture_output=True, text=True, timeout=300)
    if p.returncode != 0:
        raise Unsupported("clang failed: " + p.stderr[-400:])
    s, dec, i, objs = p.stdout, json.JSONDecoder(), 0, []
    while i < len(s):
        if s[i] != "{":
            j = s.find("\n", i)
            i = len(s) if j < 0 else j + 1
            continue
        o, i = dec.raw_decode(s, i)
        objs.append(o)
    return objs


def targs(c):
    r = []
    for a in c.get("inner", []):
        if a.get("kind") == "TemplateArgument":
            if "value" in a:
                r.append(str(a["value"]))
            elif "type" in a:
                r.append(a["type"].get("qualType", "?"))
            else:
                r.append("?")
    return r


def norm_args(args):
    """template arguments as one canonical string: 'double,2' ; 'Matrix2' for Eigen::Matrix<double, 2, 1, ...>"""
    out = []
    for a in args:
        m = RE_MAT.match(a.replace("romea::core::", ""))
        if m and m.group(2) == "1":
            out.append("Matrix" + m.group(1))
        else:
            out.append(a.replace("UL", "").strip())
    return ",".join(out)


class Registry:
    def __init__(self, dumps):
        self.cls = {}       # (name, args) -> ClassTemplateSpecializationDecl
        self.vals = {}      # s20tie variable name -> int
        for objs in dumps:
            for o in objs:
                if o.get("kind") == "ClassTemplateSpecializationDecl" and o.get("name"):
                    key = (o["name"], norm_args(targs(o)))
                    old = self.cls.get(key)
                    if old is None or self.nbodies(o) > self.nbodies(old):
                        self.cls[key] = o
                for v in ([o] + [c for c in o.get("inner", []) if isinstance(c, dict)] if o.get("kind") in ("NamespaceDecl", "VarDecl") else []):
                    if v.get("kind") == "VarDecl" and v.get("name", "").startswith("PointSetPreconditioner_"):
                        m = re.search(r"Val<(\d+)>", v.get("type", {}).get("desugaredQualType", ""))
                        if m:
                            self.vals[v["name"]] = int(m.group(1))

    @staticmethod
    def nbodies(o):
        return sum(1 for m in o.get("inner", []) if any(c.get("kind") == "CompoundStmt" for c in m.get("inner", []) if isinstance(c, dict)))

    def get(self, name, args):
        c = self.cls.get((name, args))
        if c is None:
            raise Unsupported("class %s<%s> is not instantiated in the translation unit" % (name, args))
        return c


# ------------------------------------------------------------------------------------------------ values
class V:
    """s: scalar term; b: bool term; z: integer (const = python int when compile-time known, t = Coq Z term);
       m: r x c matrix of scalar terms (vector: c = 1), arr = array (coefficient-wise) view; bm: matrix of bool terms;
       obj: object of a romea class (cls = (name,args), f = OrderedDict member -> V); pts: the point list; idx: the loop index"""
    def __init__(self, k, **kw):
        self.k = k
        self.__dict__.update(kw)


def S(t):
    return V("s", t=t)


def M(r, c, e, arr=False):
    return V("m", r=r, c=c, e=e, arr=arr)


def flat(v):
    if v.k in ("s", "b"):
        return [v.t]
    if v.k in ("m", "bm"):
        return [x for row in v.e for x in row]
    if v.k == "obj":
        return [x for f in v.f.values() for x in flat(f)]
    if v.k == "z":
        raise Unsupported("an integer value is returned / stored where a scalar is expected")
    raise Unsupported("value of kind %s cannot be flattened" % v.k)


def same(a, b):
    return a.k == b.k and flat(a) == flat(b)


def zl(z):
    return "(%d)%%Z" % z


class Ctx:
    """translation of one member function body, with `this` an object value"""
    def __init__(self, reg, cls, this, depth=0):
        self.reg, self.cls, self.this, self.depth = reg, cls, this, depth
        self.alias = {c["name"]: c["type"] for c in cls.get("inner", []) if c.get("kind") in ("TypeAliasDecl", "TypedefDecl")}
        self.locals = {}
        self.lets = []           # lines "let x := t in"
        self.ssa = [0]
        self.ret = None
        if depth > 6:
            raise Unsupported("call depth")

    # ---------- types
    def shape(self, ty, what=""):
        t = ty.get("desugaredQualType") or ty.get("qualType", "")
        t = re.sub(r"\bconst\b", "", t).replace("&", "").strip()
        if t in ("double", "float"):
            return ("s",)
        m = RE_MAT.match(t)
        if m:
            return ("m", int(m.group(1)), int(m.group(2)))
        m = RE_CLS.match(t)
        if m:
            return ("obj", m.group(1), norm_args(split_args(m.group(2))))
        if "::" in t:
            nm = t.split("::")[-1]
            if nm in self.alias:
                return self.shape(self.alias[nm], what)
            owner = RE_CLS.match(t[:t.rfind("::")])
            if owner:          # an alias of another instantiated class, e.g. Interval<double, 2>::T
                c = self.reg.get(owner.group(1), norm_args(split_args(owner.group(2))))
                al = {x["name"]: x["type"] for x in c.get("inner", []) if x.get("kind") in ("TypeAliasDecl", "TypedefDecl")}
                if nm in al:
                    return Ctx(self.reg, c, None).shape(al[nm], what)
        if t in ("int", "unsigned long", "size_t", "long", "unsigned int", "std::size_t", "Eigen::Index"):
            return ("z",)
        m = re.search(r"PointSet<Eigen::Matrix<double, (\d+), (\d+)", t) or re.search(r"std::vector<Eigen::Matrix<double, (\d+), (\d+)", t)
        if m:
            return ("pts", int(m.group(1)), int(m.group(2)))
        raise Unsupported("type %s%s" % (t[:80], " of " + what if what else ""))

    def symbolic(self, shape, name):
        """a value of the given shape made of fresh scalar variables named after `name`"""
        sep = "" if (name.endswith("_") or name == "") else "_"
        if shape[0] == "s":
            return S(name)
        if shape[0] == "m":
            _, r, c = shape
            if c == 1:
                return M(r, 1, [["%s%s%d" % (name, sep, i)] for i in range(r)])
            return M(r, c, [["%s%s%d_%d" % (name, sep, i, j) for j in range(c)] for i in range(r)])
        if shape[0] == "obj":
            c = self.reg.get(shape[1], shape[2])
            sub = Ctx(self.reg, c, None)
            f = OrderedDict()
            for fd in c.get("inner", []):
                if fd.get("kind") == "FieldDecl":
                    f[fd["name"]] = sub.symbolic(sub.shape(fd["type"], fd["name"]), name + sep + fd["name"])
            return V("obj", cls=(shape[1], shape[2]), f=f)
        if shape[0] == "pts":
            return V("pts", name=name, r=shape[1], c=shape[2])
        raise Unsupported("parameter / member of kind %s" % shape[0])

    # ---------- helpers
    def strip(self, n):
        while n.get("kind") in SKIP and n.get("inner"):
            n = n["inner"][-1]
        return n

    def fresh(self, base):
        self.ssa[0] += 1
        return "%s_%d" % (base.rstrip("_"), self.ssa[0])

    def scal(self, v):
        if v.k == "s":
            return v.t
        if v.k == "z":
            return "(nofZ N %s)" % v.t
        if v.k == "m" and v.r == 1 and v.c == 1:
            return v.e[0][0]
        raise Unsupported("a scalar is expected, got %s" % v.k)

    def zip2(self, a, b, f, what):
        if a.r != b.r or a.c != b.c:
            raise Unsupported("shape mismatch in %s" % what)
        return [[f(a.e[i][j], b.e[i][j]) for j in range(a.c)] for i in range(a.r)]

    # ---------- expressions
    def binop(self, op, a, b):
        fn = {"+": "nadd", "-": "nsub", "*": "nmul", "/": "ndiv"}.get(op)
        cmpf = {"<": lambda x, y: "(nltb N %s %s)" % (x, y), ">": lambda x, y: "(nltb N %s %s)" % (y, x),
                "<=": lambda x, y: "(nleb N %s %s)" % (x, y), ">=": lambda x, y: "(nleb N %s %s)" % (y, x)}.get(op)
        if a.k == "z" and b.k == "z" and a.const is not None and b.const is not None and op in ("+", "-", "*", "<", "<=", ">", ">="):
            r = {"+": a.const + b.const, "-": a.const - b.const, "*": a.const * b.const, "<": a.const < b.const,
                 "<=": a.const <= b.const, ">": a.const > b.const, ">=": a.const >= b.const}[op]
            return V("cb", v=r) if isinstance(r, bool) else V("z", const=r, t=zl(r))
        if a.k == "z" and b.k == "z":
            raise Unsupported("integer arithmetic on run-time values")
        if a.k == "b" and b.k == "b" and op in ("&&", "||"):
            return V("b", t="(%s %s %s)" % ("andb" if op == "&&" else "orb", a.t, b.t))
        if a.k == "m" and b.k == "m":
            if fn and op in ("+", "-"):
                return M(a.r, a.c, self.zip2(a, b, lambda x, y: "(%s N %s %s)" % (fn, x, y), op), a.arr and b.arr)
            if cmpf:
                if not (a.arr and b.arr):
                    raise Unsupported("comparison of matrix (not array) expressions")
                return V("bm", r=a.r, c=a.c, e=self.zip2(a, b, cmpf, op))
            if op in ("*", "/") and a.arr and b.arr:
                return M(a.r, a.c, self.zip2(a, b, lambda x, y: "(%s N %s %s)" % (fn, x, y), op), True)
            if op == "*" and not a.arr and not b.arr:
                if a.c != b.r:
                    raise Unsupported("matrix product shapes")
                e = []
                for i in range(a.r):
                    row = []
                    for j in range(b.c):
                        acc = "(nzero N)"
                        for k in range(a.c):
                            acc = "(nadd N %s (nmul N %s %s))" % (acc, a.e[i][k], b.e[k][j])
                        row.append(acc)
                    e.append(row)
                return M(a.r, b.c, e)
            raise Unsupported("operator %s between %s expressions" % (op, "array and matrix" if a.arr != b.arr else "these"))
        if a.k == "m" and b.k in ("s", "z") and fn and op in ("*", "/") or a.k == "m" and a.arr and b.k in ("s", "z") and fn:
            y = self.scal(b)
            return M(a.r, a.c, [["(%s N %s %s)" % (fn, x, y) for x in row] for row in a.e], a.arr)
        if b.k == "m" and a.k in ("s", "z") and (op == "*" or (b.arr and fn)):
            x = self.scal(a)
            return M(b.r, b.c, [["(%s N %s %s)" % (fn, x, y) for y in row] for row in b.e], b.arr)
        if a.k == "m" and a.arr and b.k in ("s", "z") and cmpf:
            y = self.scal(b)
            return V("bm", r=a.r, c=a.c, e=[[cmpf(x, y) for x in row] for row in a.e])
        if a.k in ("s", "z") and b.k in ("s", "z"):
            if fn:
                return S("(%s N %s %s)" % (fn, self.scal(a), self.scal(b)))
            if cmpf:
                return V("b", t=cmpf(self.scal(a), self.scal(b)))
        raise Unsupported("operator %s on %s, %s" % (op, a.k, b.k))

    def callee_name(self, n):
        c = self.strip(n["inner"][0])
        return c.get("referencedDecl", {}).get("name") or c.get("name")

    def expr(self, n):
        n = self.strip(n)
        k = n.get("kind")
        if k == "IntegerLiteral":
            return V("z", const=int(n["value"]), t=zl(int(n["value"])))
        if k == "FloatingLiteral":
            m, e = dec_pair(repr(float(n["value"])))
            return S("(nofDec N %s %s)" % (zl(m), zl(e)))
        if k == "CXXBoolLiteralExpr":
            return V("b", t="true" if n.get("value") else "false")
        if k == "CXXThisExpr":
            return self.this
        if k == "DeclRefExpr":
            nm = n["referencedDecl"]["name"]
            if nm in self.locals:
                return self.locals[nm]
            key = "%s_%s_%s" % (self.cls.get("name"), norm_args(targs(self.cls)), nm)
            if key in self.reg.vals:
                return V("z", const=self.reg.vals[key], t=zl(self.reg.vals[key]))
            raise Unsupported("reference to %s" % nm)
        if k == "MemberExpr":
            base = self.expr(n["inner"][0])
            if base is None or base.k != "obj" or n.get("name") not in base.f:
                raise Unsupported("member access .%s" % n.get("name"))
            return base.f[n["name"]]
        if k == "UnaryOperator" and n.get("opcode") in ("-", "+", "!"):
            a = self.expr(n["inner"][0])
            if n["opcode"] == "+":
                return a
            if n["opcode"] == "!":
                if a.k != "b":
                    raise Unsupported("! on %s" % a.k)
                return V("b", t="(negb %s)" % a.t)
            return S("(nneg N %s)" % self.scal(a))
        if k == "BinaryOperator" and n.get("opcode") in ("+", "-", "*", "/", "<", ">", "<=", ">=", "&&", "||"):
            return self.binop(n["opcode"], self.expr(n["inner"][0]), self.expr(n["inner"][1]))
        if k == "ConditionalOperator":
            c, a, b = (self.expr(x) for x in n["inner"])
            if c.k == "b" and a.k in ("s", "z") and b.k in ("s", "z"):
                return S("(if %s then %s else %s)" % (c.t, self.scal(a), self.scal(b)))
            raise Unsupported("conditional expression")
        if k == "CXXOperatorCallExpr":
            return self.opcall(n)
        if k == "CXXMemberCallExpr":
            return self.membercall(n)
        if k == "CallExpr":
            return self.staticcall(n)
        if k in ("CXXConstructExpr", "CXXTemporaryObjectExpr", "InitListExpr"):
            return self.construct(n)
        raise Unsupported("expression %s" % k)

    def opcall(self, n):
        op = self.callee_name(n)
        args = n["inner"][1:]
        if not op or not op.startswith("operator"):
            raise Unsupported("operator call")
        op = op[len("operator"):]
        if op in ("()", "[]"):
            obj = self.expr(args[0])
            idx = [self.expr(a) for a in args[1:]]
            if obj.k == "pts" and len(idx) == 1 and idx[0].k == "idx" and idx[0].of == obj.name:
                return idx[0].elem
            if obj.k == "m" and all(i.k == "z" and i.const is not None for i in idx):
                ii = [i.const for i in idx]
                if len(ii) == 1 and obj.c == 1 and 0 <= ii[0] < obj.r:
                    return S(obj.e[ii[0]][0])
                if len(ii) == 1 and obj.r == 1 and 0 <= ii[0] < obj.c:
                    return S(obj.e[0][ii[0]])
                if len(ii) == 2 and 0 <= ii[0] < obj.r and 0 <= ii[1] < obj.c:
                    return S(obj.e[ii[0]][ii[1]])
            raise Unsupported("element access")
        if len(args) == 1 and op == "-":
            a = self.expr(args[0])
            if a.k == "m":
                return M(a.r, a.c, [["(nneg N %s)" % x for x in row] for row in a.e], a.arr)
            raise Unsupported("unary - on %s" % a.k)
        if len(args) == 2 and op in ("+", "-", "*", "/", "<", ">", "<=", ">=", "&&", "||"):
            return self.binop(op, self.expr(args[0]), self.expr(args[1]))
        raise Unsupported("operator%s in an expression" % op)

    def fold(self, items, f):
        acc = items[0]
        for x in items[1:]:
            acc = f(acc, x)
        return acc

    def membercall(self, n):
        callee = self.strip(n["inner"][0])
        if callee.get("kind") != "MemberExpr":
            raise Unsupported("member call shape")
        nm = callee.get("name")
        obj = self.expr(callee["inner"][0])
        args = n["inner"][1:]
        if obj is None:
            raise Unsupported("call on an unknown object")
        if obj.k == "obj":
            return self.call_method(obj, nm, [self.expr(a) for a in args])
        if obj.k == "pts":
            if nm == "size" and not args:
                return V("z", const=None, t="(Z.of_nat (length %s))" % obj.name, size_of=obj.name)
            raise Unsupported("call of %s on the point set" % nm)
        if obj.k == "bm":
            if nm in ("all", "prod") and not args:
                t = "true"
                for x in reversed(flat(obj)):
                    t = "(andb %s %s)" % (x, t)
                return V("b", t=t)
            if nm == "any" and not args:
                t = "false"
                for x in reversed(flat(obj)):
                    t = "(orb %s %s)" % (x, t)
                return V("b", t=t)
            raise Unsupported("%s on a boolean array" % nm)
        if obj.k != "m":
            raise Unsupported("call of %s on %s" % (nm, obj.k))
        if nm == "array" and not args:
            return M(obj.r, obj.c, obj.e, True)
        if nm == "matrix" and not args:
            return M(obj.r, obj.c, obj.e, False)
        if nm == "eval" and not args:
            return obj
        if nm in ("abs", "cwiseAbs") and not args:
            if nm == "abs" and not obj.arr:
                raise Unsupported("abs() on a matrix expression")
            return M(obj.r, obj.c, [["(nabs N %s)" % x for x in row] for row in obj.e], obj.arr)
        if nm in ("min", "max", "cwiseMin", "cwiseMax") and len(args) == 1:
            o = self.expr(args[0])
            f = "nmin2" if nm in ("min", "cwiseMin") else "nmax2"
            if o.k == "m":
                return M(obj.r, obj.c, self.zip2(obj, o, lambda x, y: "(%s N %s %s)" % (f, x, y), nm), obj.arr)
            y = self.scal(o)
            return M(obj.r, obj.c, [["(%s N %s %s)" % (f, x, y) for x in row] for row in obj.e], obj.arr)
        if nm == "transpose" and not args:
            return M(obj.c, obj.r, [[obj.e[i][j] for i in range(obj.r)] for j in range(obj.c)], obj.arr)
        if nm in ("col", "row") and len(args) == 1:
            i = self.expr(args[0])
            if i.k != "z" or i.const is None:
                raise Unsupported("%s() with a run-time index" % nm)
            if nm == "col" and 0 <= i.const < obj.c:
                return M(obj.r, 1, [[obj.e[r][i.const]] for r in range(obj.r)], obj.arr)
            if nm == "row" and 0 <= i.const < obj.r:
                return M(1, obj.c, [list(obj.e[i.const])], obj.arr)
            raise Unsupported("%s index out of range" % nm)
        if nm == "head" and len(args) == 1:
            i = self.expr(args[0])
            if i.k != "z" or i.const is None or obj.c != 1 or not 0 <= i.const <= obj.r:
                raise Unsupported("head() argument")
            return M(i.const, 1, [list(obj.e[r]) for r in range(i.const)], obj.arr)
        if nm in ("maxCoeff", "minCoeff") and not args:
            f = "nmax2" if nm == "maxCoeff" else "nmin2"
            if obj.c != 1 and obj.r != 1:
                raise Unsupported("%s of a matrix" % nm)
            return S(self.fold(flat(obj), lambda a, b: "(%s N %s %s)" % (f, a, b)))
        if nm == "sum" and not args:
            return S(self.fold(flat(obj), lambda a, b: "(nadd N %s %s)" % (a, b)))
        raise Unsupported("Eigen member function %s" % nm)

    def staticcall(self, n):
        nm = self.callee_name(n)
        args = n["inner"][1:]
        ty = n.get("type", {})
        tq = ty.get("desugaredQualType") or ty.get("qualType", "")
        ckind = self.strip(n["inner"][0]).get("referencedDecl", {}).get("kind")
        if nm in ("max", "lowest", "min", "epsilon") and not args and tq.replace("const", "").strip() == "double" and ckind == "CXXMethodDecl":
            # a static member function without arguments returning double: std::numeric_limits<double>::max() etc.
            return S({"max": "(nmaxval N)", "lowest": "(nneg N (nmaxval N))", "min": "(nminpos N)", "epsilon": "(nepsilon N)"}[nm])
        if nm in ("Zero", "Constant", "Ones") and len(args) == (1 if nm == "Constant" else 0):
            m = RE_MAT.search(tq)
            if not m:
                raise Unsupported("shape of %s()" % nm)
            r, c = int(m.group(1)), int(m.group(2))
            x = "(nzero N)" if nm == "Zero" else "(n_one N)" if nm == "Ones" else self.scal(self.expr(args[0]))
            return M(r, c, [[x] * c for _ in range(r)])
        if nm in ("abs", "fabs") and len(args) == 1:
            return S("(nabs N %s)" % self.scal(self.expr(args[0])))
        if nm in ("min", "max") and len(args) == 2:
            a, b = (self.scal(self.expr(x)) for x in args)
            return S("(%s N %s %s)" % ("nmin2" if nm == "min" else "nmax2", a, b))
        raise Unsupported("call to %s" % nm)

    def construct(self, n):
        args = [c for c in n.get("inner", []) if isinstance(c, dict)]
        try:
            sh = self.shape(n.get("type", {}))
        except Unsupported:
            sh = None
        if sh and sh[0] == "obj":
            vals = [self.expr(a) for a in args]
            if len(vals) == 1 and vals[0].k == "obj" and vals[0].cls == (sh[1], sh[2]):
                return vals[0]                                    # copy / move construction
            return self.call_ctor((sh[1], sh[2]), vals)
        if len(args) == 1:
            v = self.expr(args[0])
            if sh and sh[0] == "m" and v.k == "m":
                if (v.r, v.c) != (sh[1], sh[2]):
                    raise Unsupported("construction of a %dx%d matrix from a %dx%d expression" % (sh[1], sh[2], v.r, v.c))
                return M(v.r, v.c, v.e, False)
            if sh and sh[0] == "s":
                return S(self.scal(v))
            if sh is None:
                return v
        raise Unsupported("construction of %s" % (n.get("type", {}).get("qualType", "?")[:60]))

    # ---------- calls into romea classes
    def find_members(self, cls, pred):
        return [m for m in cls.get("inner", []) if pred(m) and not m.get("isImplicit")]

    def bind_params(self, sub, decl, vals):
        ps = [c for c in decl.get("inner", []) if c.get("kind") == "ParmVarDecl"]
        if len(ps) != len(vals):
            raise Unsupported("argument count")
        for p, v in zip(ps, vals):
            if p.get("name"):
                sub.locals[p["name"]] = v

    def call_method(self, obj, name, vals):
        cls = self.reg.get(*obj.cls)
        ms = self.find_members(cls, lambda m: m.get("kind") == "CXXMethodDecl" and m.get("name") == name and
                               len([c for c in m.get("inner", []) if c.get("kind") == "ParmVarDecl"]) == len(vals))
        if len(ms) != 1:
            raise Unsupported("%d candidates for %s::%s" % (len(ms), obj.cls[0], name))
        sub = Ctx(self.reg, cls, obj, self.depth + 1)
        sub.ssa = self.ssa
        self.bind_params(sub, ms[0], vals)
        r = sub.run_body(ms[0])
        self.lets += sub.lets
        return r if r is not None else V("void")

    def call_ctor(self, clskey, vals):
        cls = self.reg.get(*clskey)
        cs = self.find_members(cls, lambda m: m.get("kind") == "CXXConstructorDecl" and
                               len([c for c in m.get("inner", []) if c.get("kind") == "ParmVarDecl"]) == len(vals))
        cs = [c for c in cs if not self.is_copy_ctor(c, clskey)]
        if len(cs) != 1:
            raise Unsupported("%d constructors of %s with %d parameters" % (len(cs), clskey[0], len(vals)))
        return self.run_ctor(cls, clskey, cs[0], vals)

    def is_copy_ctor(self, c, clskey):
        ps = [p for p in c.get("inner", []) if p.get("kind") == "ParmVarDecl"]
        if len(ps) != 1:
            return False
        try:
            sh = Ctx(self.reg, self.reg.get(*clskey), None).shape(ps[0].get("type", {}))
        except Unsupported:
            return False
        return sh[0] == "obj" and (sh[1], sh[2]) == clskey

    def run_ctor(self, cls, clskey, decl, vals):
        sub = Ctx(self.reg, cls, None, self.depth + 1)
        sub.ssa = self.ssa
        self.bind_params(sub, decl, vals)
        fields = OrderedDict((fd["name"], None) for fd in cls.get("inner", []) if fd.get("kind") == "FieldDecl")
        obj = V("obj", cls=clskey, f=fields)
        sub.this = obj
        for ini in decl.get("inner", []):
            if ini.get("kind") != "CXXCtorInitializer":
                continue
            if "anyInit" not in ini:
                raise Unsupported("delegating / base initialiser in the constructor of %s" % clskey[0])
            fname = ini["anyInit"]["name"]
            want = sub.shape(ini["anyInit"]["type"], fname)
            v = sub.expr(ini["inner"][0])
            fields[fname] = sub.coerce(v, want, fname)
        if any(v is None for v in fields.values()):
            raise Unsupported("constructor of %s leaves a member uninitialised" % clskey[0])
        sub.run_body(decl)
        self.lets += sub.lets
        return obj

    def coerce(self, v, want, what):
        if want[0] == "s":
            return S(self.scal(v))
        if want[0] == "m":
            if v.k != "m" or (v.r, v.c) != (want[1], want[2]):
                raise Unsupported("%s: shape" % what)
            return M(v.r, v.c, v.e, False)
        if want[0] == "obj":
            if v.k != "obj" or v.cls != (want[1], want[2]):
                raise Unsupported("%s: class" % what)
            return v
        raise Unsupported("%s: kind %s" % (what, want[0]))

    # ---------- statements
    def lvalue(self, n):
        """-> (container dict, key, current value).  x ; this->x ; x.array() ; obj.member"""
        n = self.strip(n)
        if n.get("kind") == "CXXMemberCallExpr":
            callee = self.strip(n["inner"][0])
            if callee.get("name") in ("array", "matrix", "noalias") and len(n["inner"]) == 1:
                return self.lvalue(callee["inner"][0])
        if n.get("kind") == "DeclRefExpr":
            nm = n["referencedDecl"]["name"]
            if nm in self.locals and nm not in getattr(self, "readonly", ()):
                return self.locals, nm, self.locals[nm]
        if n.get("kind") == "MemberExpr":
            base = self.expr(n["inner"][0])
            if base is not None and base.k == "obj" and n.get("name") in base.f:
                return base.f, n["name"], base.f[n["name"]]
        raise Unsupported("assignment target")

    def assign(self, target, op, val):
        d, key, cur = self.lvalue(target)
        if cur.k == "m":
            if op != "=":
                a = M(cur.r, cur.c, cur.e, val.k == "m" and val.arr)
                val = self.binop(op[0], a, val)
            if val.k != "m" or (val.r, val.c) != (cur.r, cur.c):
                raise Unsupported("assignment of a value of another shape")
            d[key] = M(cur.r, cur.c, val.e, False)
        elif cur.k == "s":
            t = self.scal(val) if op == "=" else self.scal(self.binop(op[0], cur, val))
            nm = self.fresh("x_" + key)
            self.lets.append("let %s := %s in" % (nm, t))
            d[key] = S(nm)
        elif cur.k == "obj" and op == "=" and val.k == "obj" and val.cls == cur.cls:
            d[key] = val
        else:
            raise Unsupported("assignment to a value of kind %s" % cur.k)

    def const_int(self, n):
        v = self.expr(n)
        if v.k == "z" and v.const is not None:
            return v.const
        return None

    def stmt(self, st):
        k = st.get("kind")
        if self.ret is not None:
            raise Unsupported("statement after return")
        if k == "NullStmt" or self.void_noop(st):
            return
        if k == "CompoundStmt":
            for c in st.get("inner", []):
                self.stmt(c)
            return
        if k == "ReturnStmt":
            self.ret = self.expr(st["inner"][0]) if st.get("inner") else V("void")
            return
        if k == "DeclStmt":
            for v in st.get("inner", []):
                if v.get("kind") != "VarDecl":
                    raise Unsupported("declaration %s" % v.get("kind"))
                init = [c for c in v.get("inner", []) if isinstance(c, dict)]
                if not init:
                    raise Unsupported("uninitialised local %s" % v.get("name"))
                val = self.expr(init[0])
                try:
                    want = self.shape(v.get("type", {}), v.get("name"))
                except Unsupported:
                    want = None
                if want and want[0] in ("s", "m", "obj"):
                    val = self.coerce(val, want, v["name"])
                    if val.k == "s":
                        nm = self.fresh("l_" + v["name"])
                        self.lets.append("let %s := %s in" % (nm, val.t))
                        val = S(nm)
                elif not (want and want[0] == "z" and val.k == "z"):
                    raise Unsupported("local %s of type %s" % (v.get("name"), v.get("type", {}).get("qualType", "?")[:50]))
                self.locals[v["name"]] = val
            return
        if k == "ForStmt":
            return self.for_stmt(st)
        if k == "CXXForRangeStmt":
            return self.range_for(st)
        s = self.strip(st)
        sk = s.get("kind")
        if sk in ("BinaryOperator", "CompoundAssignOperator") and s.get("opcode") in ("=", "+=", "-=", "*=", "/="):
            return self.assign(s["inner"][0], s["opcode"], self.expr(s["inner"][1]))
        if sk == "CXXOperatorCallExpr":
            op = (self.callee_name(s) or "")[len("operator"):]
            if op in ("=", "+=", "-=", "*=", "/=") and len(s["inner"]) == 3:
                return self.assign(s["inner"][1], op, self.expr(s["inner"][2]))
        if sk == "CXXMemberCallExpr":
            callee = self.strip(s["inner"][0])
            nm = callee.get("name")
            if nm in ("setConstant", "setZero", "setOnes", "fill") and callee.get("kind") == "MemberExpr":
                d, key, cur = self.lvalue(callee["inner"][0])
                if cur.k != "m":
                    raise Unsupported("%s on %s" % (nm, cur.k))
                args = s["inner"][1:]
                if nm in ("setConstant", "fill") and len(args) == 1:
                    x = self.scal(self.expr(args[0]))
                elif nm == "setZero" and not args:
                    x = "(nzero N)"
                elif nm == "setOnes" and not args:
                    x = "(n_one N)"
                else:
                    raise Unsupported("%s arguments" % nm)
                d[key] = M(cur.r, cur.c, [[x] * cur.c for _ in range(cur.r)])
                return
            obj = self.expr(callee["inner"][0]) if callee.get("kind") == "MemberExpr" else None
            if obj is not None and obj.k == "obj":
                self.call_method(obj, nm, [self.expr(a) for a in s["inner"][1:]])
                return
        raise Unsupported("statement %s" % sk)

    def void_noop(self, st):
        if st.get("type", {}).get("qualType") != "void" or st.get("kind") not in ("ParenExpr", "CStyleCastExpr", "CXXStaticCastExpr", "CXXFunctionalCastExpr"):
            return False
        n = st
        while n.get("kind") in ("ParenExpr", "CStyleCastExpr", "CXXStaticCastExpr", "CXXFunctionalCastExpr", "ImplicitCastExpr") and n.get("inner"):
            n = n["inner"][-1]
        return n.get("kind") in ("IntegerLiteral", "DeclRefExpr")

    def is_incr(self, n, var):
        n = self.strip(n) if n else {}
        if n.get("kind") == "UnaryOperator" and n.get("opcode") in ("++",):
            t = self.strip(n["inner"][0])
            return t.get("kind") == "DeclRefExpr" and t["referencedDecl"]["name"] == var
        if n.get("kind") == "CompoundAssignOperator" and n.get("opcode") == "+=":
            t, one = self.strip(n["inner"][0]), self.strip(n["inner"][1])
            return t.get("kind") == "DeclRefExpr" and t["referencedDecl"]["name"] == var and one.get("kind") == "IntegerLiteral" and one.get("value") == "1"
        return False

    def for_stmt(self, st):
        init, _, cond, inc, body = (st["inner"] + [None] * 5)[:5]
        if not init or init.get("kind") != "DeclStmt" or not cond or not inc or not body:
            raise Unsupported("for statement shape")
        decls = [v for v in init.get("inner", [])]
        if any(v.get("kind") != "VarDecl" for v in decls) or not 1 <= len(decls) <= 2:
            raise Unsupported("for-init declaration")
        var = decls[0]["name"]
        start = self.const_int(decls[0]["inner"][-1]) if decls[0].get("inner") else None
        if start != 0 or not self.is_incr(inc, var):
            raise Unsupported("for loop other than `for (i = 0; i < bound; ++i)`")
        saved = dict(self.locals)
        if len(decls) == 2:
            self.locals[decls[1]["name"]] = self.expr(decls[1]["inner"][-1])
        c = self.strip(cond)
        if c.get("kind") != "BinaryOperator" or c.get("opcode") not in ("<", "!="):
            raise Unsupported("for condition")
        lhs = self.strip(c["inner"][0])
        if lhs.get("kind") != "DeclRefExpr" or lhs["referencedDecl"]["name"] != var:
            raise Unsupported("for condition does not test the loop variable")
        bound = self.expr(c["inner"][1])
        if bound.k != "z":
            raise Unsupported("for bound")
        if bound.const is not None:
            for i in range(bound.const):                       # compile-time bound: unrolled
                self.locals[var] = V("z", const=i, t=zl(i))
                self.stmt(body)
            self.locals = {k2: self.locals[k2] for k2 in self.locals if k2 in saved}
            return
        if getattr(bound, "size_of", None) is None:
            raise Unsupported("for bound is neither a compile-time constant nor the size of the point set")
        pts = [v for v in saved.values() if v.k == "pts" and v.name == bound.size_of]
        if len(pts) != 1:
            raise Unsupported("point set of the loop")
        self.points_fold(pts[0], body, index_var=var, saved=saved)

    def range_for(self, st):
        parts = [c for c in st.get("inner", []) if isinstance(c, dict)]
        # [range decl, begin decl, end decl, cond, inc, loop variable decl, body]
        rng = [p for p in parts if p.get("kind") == "DeclStmt"]
        if len(rng) < 4:
            raise Unsupported("range-for shape")
        rv = rng[0]["inner"][0]
        src = self.expr(rv["inner"][-1])
        if src.k != "pts":
            raise Unsupported("range-for over something else than the point set")
        if parts[-1].get("kind") != "CompoundStmt" or rng[-1] is parts[-1]:
            raise Unsupported("range-for body is not a block")
        loopvar = rng[-1]["inner"][0]
        self.points_fold(src, parts[-1], elem_var=loopvar["name"], saved=dict(self.locals))

    def candidates(self):
        """(container, key) of every scalar / matrix storage the loop body may modify: members of this, locals"""
        out = []

        def walk(d, prefix):
            for key, v in d.items():
                if v is None:
                    continue
                if v.k in ("s", "m"):
                    out.append((d, key, prefix + key))
                elif v.k == "obj":
                    walk(v.f, prefix + key + "_")
        if self.this is not None:
            walk(self.this.f, "")
        walk({k2: v for k2, v in self.locals.items()}, "")   # locals: copies are written back below
        return out

    def points_fold(self, pts, body, index_var=None, elem_var=None, saved=None):
        if pts.c != 1:
            raise Unsupported("points that are not column vectors")
        tag = self.fresh("f")
        elem = M(pts.r, 1, [["pt_%s_%d" % (tag, i)] for i in range(pts.r)])
        cands = []
        if self.this is not None:
            def walk(d, prefix):
                for key, v in d.items():
                    if v.k in ("s", "m"):
                        cands.append((d, key, prefix + key))
                    elif v.k == "obj":
                        walk(v.f, prefix + key + "_")
            walk(self.this.f, "")
        for key, v in self.locals.items():
            if v.k in ("s", "m"):
                cands.append((self.locals, key, key))
        before = [(d, key, nm, d[key]) for d, key, nm in cands]
        binders = []
        for d, key, nm, v in before:
            b = S("b_%s_%s" % (nm.rstrip("_"), tag)) if v.k == "s" else \
                M(v.r, v.c, [["b_%s_%s_%d" % (nm.rstrip("_"), tag, i * v.c + j) for j in range(v.c)] for i in range(v.r)])
            d[key] = b
            binders.append(b)
        if index_var is not None:
            self.locals[index_var] = V("idx", of=pts.name, elem=elem)
        if elem_var is not None:
            self.locals[elem_var] = elem
        outer_lets, self.lets = self.lets, []
        self.stmt(body)
        if self.ret is not None:
            raise Unsupported("return inside the loop over the points")
        inner_lets, self.lets = self.lets, outer_lets
        changed = []
        for (d, key, nm, old), b in zip(before, binders):
            if key not in d:
                raise Unsupported("loop body removes %s" % nm)
            new = d[key]
            if same(new, b):
                d[key] = old
            else:
                changed.append((d, key, nm, old, b, new))
        self.locals = {k2: self.locals[k2] for k2 in self.locals if k2 in saved}
        if not changed:
            raise Unsupported("loop over the points modifies nothing")
        bnames = [x for c in changed for x in flat(c[4])]
        inits = [x for c in changed for x in flat(c[3])]
        news = [x for c in changed for x in flat(c[5])]
        outs = ["o_%s" % b[2:] for b in bnames]
        n = len(bnames)

        def pat(xs):
            return xs[0] if len(xs) == 1 else "'(" + ", ".join(xs) + ")"

        def tup(xs):
            return xs[0] if len(xs) == 1 else "(" + ", ".join(xs) + ")"
        sty = "T" if n == 1 else "(" + " * ".join(["T"] * n) + ")%type"
        pty = "T" if pts.r == 1 else "(" + " * ".join(["T"] * pts.r) + ")%type"
        lam = "(fun (st : %s) (pt : %s) => let %s := st in let %s := pt in %s %s)" % (
            sty, pty, pat(bnames), pat(flat(elem)), " ".join(inner_lets), tup(news))
        self.lets.append("let %s := fold_left %s %s %s in" % (pat(outs), lam, pts.name, tup(inits)))
        i = 0
        for d, key, nm, old, b, new in changed:
            if old.k == "s":
                d[key] = S(outs[i])
                i += 1
            else:
                d[key] = M(old.r, old.c, [[outs[i + r * old.c + c] for c in range(old.c)] for r in range(old.r)])
                i += old.r * old.c

    def run_body(self, decl):
        comp = [c for c in decl.get("inner", []) if c.get("kind") == "CompoundStmt"]
        if not comp:
            raise Unsupported("%s has no instantiated body" % decl.get("name"))
        self.ret = None
        self.stmt(comp[0])
        return self.ret


def split_args(s):
    out, depth, cur = [], 0, ""
    for ch in s:
        if ch == "<":
            depth += 1
        if ch == ">":
            depth -= 1
        if ch == "," and depth == 0:
            out.append(cur.strip())
            cur = ""
        else:
            cur += ch
    if cur.strip():
        out.append(cur.strip())
    return out


# ------------------------------------------------------------------------------------------------ driver
def translate_one(reg, stem, cname, mname, args, suffix):
    cls = reg.get(cname, args)
    ctx = Ctx(reg, cls, None)
    this = ctx.symbolic(("obj", cname, args), "")
    ctx.this = this
    if mname.startswith("ctor/"):
        np_ = int(mname.split("/")[1])
        cs = ctx.find_members(cls, lambda m: m.get("kind") == "CXXConstructorDecl" and
                              len([c for c in m.get("inner", []) if c.get("kind") == "ParmVarDecl"]) == np_)
        cs = [c for c in cs if not ctx.is_copy_ctor(c, (cname, args))]
        if len(cs) != 1:
            raise Unsupported("%d constructors with %d parameters" % (len(cs), np_))
        decl = cs[0]
    else:
        ms = ctx.find_members(cls, lambda m: m.get("kind") == "CXXMethodDecl" and m.get("name") == mname)
        if len(ms) != 1:
            raise Unsupported("%d definitions" % len(ms))
        decl = ms[0]
    params, pvals = [], []
    for p in decl.get("inner", []):
        if p.get("kind") != "ParmVarDecl":
            continue
        if not p.get("name"):
            raise Unsupported("unnamed parameter")
        v = ctx.symbolic(ctx.shape(p["type"], p["name"]), p["name"])
        pvals.append(v)
        if v.k == "pts":
            params.append("(%s : list %s)" % (v.name, "T" if v.r == 1 else "(" + " * ".join(["T"] * v.r) + ")%type"))
        else:
            params += ["(%s : T)" % x for x in flat(v)]
    if mname.startswith("ctor/"):
        res = ctx.run_ctor(cls, (cname, args), decl, pvals)
        lets = ctx.lets
        fields = []
    else:
        fields = ["(%s : T)" % x for x in flat(this)]
        ctx.bind_params(ctx, decl, pvals)
        ctx.readonly = set()
        r = ctx.run_body(decl)
        lets = ctx.lets
        rt = decl.get("type", {}).get("qualType", "")
        if r is None or r.k == "void":
            if not rt.startswith("void"):
                raise Unsupported("no return value")
            res = this
        else:
            res = r
    if res.k == "b":
        out, rty = res.t, "bool"
    else:
        comps = flat(res)
        out = comps[0] if len(comps) == 1 else "(" + ", ".join(comps) + ")"
        rty = "T" if len(comps) == 1 else "(" + " * ".join(["T"] * len(comps)) + ")%type"
    sig = " ".join(params + fields)
    body = "".join("  %s\n" % l for l in lets) + "  " + out
    return "Definition src_%s_%s %s : %s :=\n%s.\n" % (stem, suffix, sig, rty, body)


def generate(repo):
    from concurrent.futures import ThreadPoolExecutor
    head = ["(* GENERATED by translate/tr_C20_boxes.py from the clang AST of the current sources (instantiations at double, DIM = 2, 3). Do not edit. *)",
            "From Coq Require Import ZArith List.", "From Romea Require Import Num.", "", "Section SrcBoxes.",
            "Context {T : Type} (N : NumOps T).", ""]
    lines, errors = list(head), []
    try:
        with ThreadPoolExecutor(max_workers=len(FILTERS)) as ex:
            dumps = list(ex.map(lambda f: run_clang(repo, f), FILTERS))
        reg = Registry(dumps)
    except Exception as e:  # noqa
        errors.append((PROP, "clang AST unavailable: %s" % str(e)[:300]))
        lines.append("(* NOTHING TRANSLATED: %s *)" % str(e).replace("*)", "* )").replace("(*", "( *")[:300])
        return "\n".join(lines + ["End SrcBoxes."]) + "\n", errors
    for stem, cname, mname in TARGETS:
        for dim in (2, 3):
            args = "Matrix%d" % dim if cname == "PointSetPreconditioner" else "double,%d" % dim
            try:
                text = translate_one(reg, stem, cname, mname, args, str(dim))
                lines.append("(* %s<%s>::%s *)" % (cname, args, mname))
                lines.append(text)
            except Unsupported as e:
                errors.append((PROP, "src_%s_%d (%s<%s>::%s): %s" % (stem, dim, cname, args, mname, e)))
                lines.append("(* src_%s_%d: NOT TRANSLATED — %s *)\n" % (stem, dim, str(e).replace("*)", "* )").replace("(*", "( *")[:300]))
            except Exception as e:  # noqa  (fail closed, never raise)
                errors.append((PROP, "src_%s_%d (%s<%s>::%s): internal error %r" % (stem, dim, cname, args, mname, e)))
                lines.append("(* src_%s_%d: NOT TRANSLATED — internal error *)\n" % (stem, dim))
    return "\n".join(lines + ["End SrcBoxes."]) + "\n", errors


def generate_to(gen_dir, repo="/repo"):
    try:
        text, errors = generate(repo)
    except Exception as e:  # noqa
        return [(PROP, "translator failed: %r" % (e,))]
    os.makedirs(gen_dir, exist_ok=True)
    path = os.path.join(gen_dir, "SrcBoxes.v")
    old = open(path).read() if os.path.exists(path) else None
    if old != text:
        with open(path, "w") as f:
            f.write(text)
    return errors


if __name__ == "__main__":
    t, e = generate(os.environ.get("VERIF_REPO", "/repo"))
    print(t)
    if e:
        print("\n".join("%s: %s" % x for x in e), file=sys.stderr)
        sys.exit(2)
