#!/usr/bin/env python3
"""tr_C17_rate.py — plug-in translator of C17: the rate monitor and the rate check-up, regenerated from the clang AST of
  include/romea_core_common/time/Time.hpp      durationToNanoSecond, durationToSecond
  src/monitoring/RateMonitoring.cpp            RateMonitoring::initialize / update / timeout / getRate  (+ the two window constants)
  src/diagnostics/CheckupRate.cpp              CheckupRate<CheckupEqualTo<double>>:: and CheckupRate<CheckupGreaterThan<double>>::
                                               evaluate / heartBeatCallback / getReport  (explicit instantiations of the file)
into coq/gen/SrcRate.v (state transformers over the fields; see imptrans.py for the vocabulary).  In CheckupRate the member
objects rateMonitoring_ and checkup_ are abstract states and their methods abstract transformers (arguments F_<member><method>):
coq/SrcTieC17.v instantiates them with the model's rm_update / rm_timeout / eval_* / checkup_timeout.
Fails closed for C17 only: a function that cannot be translated is left out (its tie lemma stops compiling) and reported."""
import os
import sys

HERE = os.path.dirname(os.path.abspath(__file__))
if HERE not in sys.path:
    sys.path.insert(0, HERE)
import imptrans as I   # noqa: E402

PROP = "C17"
TIME = "include/romea_core_common/time/Time.hpp"
RM = "src/monitoring/RateMonitoring.cpp"
CR = "src/diagnostics/CheckupRate.cpp"
OBJECTS = {"rateMonitoring_": "Mon", "checkup_": "Chk"}
OVR = {"DiagnosticReport": "creport"}


def generate(repo):
    errors, out = [], [I.HEAD % "tr_C17_rate.py"]
    loaded = I.load_all(repo, {"time": (TIME, "romea::core::durationTo", ""), "rm": (RM, "romea::core::RateMonitoring::", ""),
                               "consts": (RM, "_WINDOW_SIZE", ""), "cr": (CR, "romea::core::CheckupRate", "")})
    known, consts = {}, {}

    def objs(key):
        v = loaded[key]
        if isinstance(v, I.Unsupported):
            raise v
        return v

    def one(cname, key, src, meth, cls=None, spec=None, kn=None, objects=None, register=None):
        try:
            defs = I.find_method(objs(key), meth, cls, spec)
            if len(defs) != 1:
                raise I.Unsupported("%d definitions of %s found" % (len(defs), meth))
            f = I.Imp(defs[0], known if kn is None else kn, OVR, objects, consts)
            text, k = f.translate(cname, "%s  %s%s" % (src, (cls + "<" + spec + "<double>>::") if cls else "", meth))
            out.append(text)
            if register:
                known[register] = k
        except I.Unsupported as e:
            errors.append((PROP, "%s (%s): %s" % (cname, src, e)))
            out.append(I.not_translated(cname, src, e))
        except Exception as e:  # noqa — an AST shape the library did not expect: same treatment, never raise
            errors.append((PROP, "%s (%s): internal error %r" % (cname, src, e)))
            out.append(I.not_translated(cname, src, "internal error %r" % (e,)))

    one("src_durationToNanoSecond", "time", TIME, "durationToNanoSecond", register="durationToNanoSecond")
    one("src_durationToSecond", "time", TIME, "durationToSecond", register="durationToSecond")
    for nm in ("MINIMAL_WINDOW_SIZE", "MAXIMAL_WINDOW_SIZE"):
        try:
            consts[nm] = I.Val(I.zl(I.const_init(objs("consts"), nm)), "Z")
        except I.Unsupported as e:
            errors.append((PROP, "constant %s (%s): %s" % (nm, RM, e)))
    one("src_rm_initialize", "rm", RM, "initialize")
    one("src_rm_update", "rm", RM, "update")
    one("src_rm_timeout", "rm", RM, "timeout")
    one("src_rm_getRate", "rm", RM, "getRate")
    for tag, spec in (("equal", "CheckupEqualTo"), ("greater", "CheckupGreaterThan")):
        for meth, cn in (("evaluate", "evaluate"), ("heartBeatCallback", "heartbeat"), ("getReport", "getReport")):
            one("src_cr_%s_%s" % (cn, tag), "cr", CR, meth, cls="CheckupRate", spec=spec, kn={}, objects=OBJECTS)
    out.append("End Src.\n")
    return "\n".join(out), errors


def generate_to(gen_dir, repo="/repo"):
    try:
        text, errors = generate(repo)
    except Exception as e:  # noqa — nothing could be generated: leave no stale file behind
        os.makedirs(gen_dir, exist_ok=True)
        I.emit_file(os.path.join(gen_dir, "SrcRate.v"), "(* NOT GENERATED: translator failed: %s *)\n" % repr(e).replace("*)", "* )").replace("(*", "( *"))
        return [(PROP, "translator failed: %r" % (e,))]
    os.makedirs(gen_dir, exist_ok=True)
    I.emit_file(os.path.join(gen_dir, "SrcRate.v"), text)
    return errors


if __name__ == "__main__":
    t, e = generate(os.environ.get("VERIF_REPO", "/repo"))
    print(t)
    for x in e:
        print("%s: %s" % x, file=sys.stderr)
    sys.exit(2 if e else 0)
