#!/usr/bin/env python3
"""eigsym.py — library of the plug-in translators tr_C13_gridmap.py / tr_C14_raycast.py (not a plug-in itself).

A small SYMBOLIC EXECUTOR for member functions of class-template instantiations whose data are fixed-size Eigen vectors
(Eigen::Matrix<Scalar|size_t|int, DIM, 1>), scalars, integers and tables (std::vector<Scalar>): the clang JSON AST of
the *instantiated* (or explicitly specialised) method for one (Scalar, DIM) is executed on symbolic inputs and yields a
Gallina term over the numeric dictionary `N : NumOps T` (floating point) and `I : IntConv` (integer conversions,
coq/SrcEigen.v):

  * a vector is a Python list of DIM component terms; `v[i]`, `v(i)` need a compile-time index (literal, or the
    variable of a `for` loop with literal bounds — such loops are unrolled);
  * an Eigen array/matrix expression denotes the same scalar expression on every axis: `a - b`, `a / s`, `s * a`,
    `a + 1`, `floor(a)`, `ceil(a)`, `.array()`, `.matrix()`, `.cast<U>()`, `.abs()`, `Matrix::Constant(s)` are applied
    component by component; a scalar or literal operand is broadcast (a literal is converted to the vector's scalar
    type, as Eigen's promote_scalar_arg does); the reductions `.norm()` and `.sum()` become the primitives
    `eig_norm`, `eig_sumZ` of coq/SrcEigen.v applied to the list of components;
  * integers (int, long, size_t) are terms of type Z: + - * comparisons are those of Z; a conversion to an unsigned
    64-bit type is `cu64 I`, to int `ci32 I` (identity at IdealInt, wrap-around at MachInt); signed overflow and
    float-to-integer conversion out of range are undefined behaviour in C++ and are not modelled (the latter is
    `ntruncZ N`);
  * every statement-level assignment is let-bound (SSA names); `if/else` merges the two stores variable by variable
    (`if c then v1 else v2`); calls of other member functions (also through a pointer member such as
    gridIndexMapping_->f(..)) are inlined by executing the callee's instantiated body;
  * `for (size_t n = 0; n < K; ++n) tab[n] = e(n);` with a symbolic bound is a table fill: the table becomes the pair
    (K, fun n => e(n)); reading `tab[k]` with a symbolic k applies the function (out-of-range reads are UB in C++);
  * `while (++n != K) { body }` becomes a local fix on a fuel argument (result in option).

Everything else raises Unsupported (fail closed).  Free variables: the parameters in declaration order (components of a
vector parameter in order), then every other location read before written (members, members of pointees), by name.
Outputs: the returned value, then the reference parameters written, then the members written, by name."""
import os
import re
import threading

import srcfuns
from srcfuns import Unsupported, dec_pair

INT_TYPES = {"int": ("s", 32), "long": ("s", 64), "long long": ("s", 64), "unsigned long": ("u", 64),
             "unsigned long long": ("u", 64), "unsigned int": ("u", 32), "short": ("s", 16), "unsigned short": ("u", 16)}
FUNCTOR = {"+": "scalar_sum_op", "-": "scalar_difference_op", "*": "scalar_product_op", "/": "scalar_quotient_op"}
TOP = {"+": "nadd", "-": "nsub", "*": "nmul", "/": "ndiv"}
ZOP = {"+": "+", "-": "-", "*": "*"}
TRANSPARENT = ("ParenExpr", "MaterializeTemporaryExpr", "ExprWithCleanups", "CXXBindTemporaryExpr", "ConstantExpr")
NOOP_CASTS = ("LValueToRValue", "NoOp", "DerivedToBase", "UncheckedDerivedToBase", "ConstructorConversion",
              "FunctionToPointerDecay")


# ------------------------------------------------------------------------------------------------ loading
_CACHE = {}
_LOCK = threading.Lock()


def _stamp(repo, files):
    out = []
    for f in files:
        p = os.path.join(repo, f)
        try:
            st = os.stat(p)
            out.append((f, st.st_mtime_ns, st.st_size))
        except OSError:
            out.append((f, 0, 0))
    return tuple(out)


def load_tu(repo, src, flt, deps=()):
    """clang JSON AST of `src` restricted to declarations named `flt` (cached while the listed files are unchanged)"""
    key = (repo, src, flt, _stamp(repo, (src,) + tuple(deps)))
    with _LOCK:
        if key in _CACHE:
            v = _CACHE[key]
            if isinstance(v, Unsupported):
                raise v
            return v
    try:
        v = srcfuns.load_uncached(repo, src, flt)
    except Unsupported as e:
        v = e
    except Exception as e:  # noqa  (timeout, clang missing, ...)
        v = Unsupported("clang: %r" % (e,))
    with _LOCK:
        _CACHE[key] = v
    if isinstance(v, Unsupported):
        raise v
    return v


class TU:
    """the instantiations of one class template found in a translation unit"""

    def __init__(self, objs, cls, repo, src):
        self.cls, self.repo, self.src = cls, repo, src
        self.specs = {}          # (scalar, dim) -> ClassTemplateSpecializationDecl
        self.out_of_line = {}    # (scalar, dim) -> [method definitions written as explicit specialisations]
        ids = {}
        for o in objs:
            if o.get("kind") == "ClassTemplateSpecializationDecl" and o.get("name") == cls:
                key = self.spec_key(o)
                if key is not None:
                    self.specs[key] = o
                    ids[o.get("id")] = key
        for o in objs:
            if o.get("kind") in ("CXXMethodDecl", "CXXConstructorDecl") and o.get("parentDeclContextId") in ids and has_body(o):
                self.out_of_line.setdefault(ids[o["parentDeclContextId"]], []).append(o)
        self._text = {}
        for key, sp in self.specs.items():
            for c in sp.get("inner", []):
                if c.get("kind") == "TypeAliasDecl" and c.get("name"):
                    t = c.get("type", {})
                    ALIASES[(cls, key[0], key[1], c["name"])] = t.get("desugaredQualType", t.get("qualType", ""))

    @staticmethod
    def spec_key(o):
        targs = [c for c in o.get("inner", []) if c.get("kind") == "TemplateArgument"]
        if len(targs) != 2:
            return None
        sc = targs[0].get("type", {}).get("qualType")
        dim = targs[1].get("value")
        if sc not in ("float", "double") or not isinstance(dim, int):
            return None
        return (sc, dim)

    def methods(self, key, name):
        """definitions (with a body) of the method `name` of the instantiation `key`"""
        res = []
        sp = self.specs.get(key)
        if sp is not None:
            res += [c for c in sp.get("inner", []) if c.get("kind") in ("CXXMethodDecl", "CXXConstructorDecl")
                    and c.get("name") == name and has_body(c) and not c.get("isImplicit")]
        res += [c for c in self.out_of_line.get(key, []) if c.get("name") == name]
        return res

    def text(self, path):
        if path not in self._text:
            try:
                with open(path, "rb") as f:
                    self._text[path] = f.read()
            except OSError:
                self._text[path] = None
        return self._text[path]


def has_body(n):
    return any(c.get("kind") == "CompoundStmt" for c in n.get("inner", []))


def nparams(decl):
    return len([c for c in decl.get("inner", []) if c.get("kind") == "ParmVarDecl"])


# ------------------------------------------------------------------------------------------------ values
class Val:
    """kind: 'T' scalar, 'Z' integer (ct = C type, conc = python int when known), 'B' bool, 'VT'/'VZ' vector (comps = list
    of terms or None), 'TAB' table (size term, fun term), 'TABS' (comps = list of TAB Val or None), 'OBJ' (prefix or
    fields), 'VOID'"""

    def __init__(self, kind, term=None, ct=None, comps=None, conc=None, fields=None, prefix=None, size=None):
        self.kind, self.term, self.ct, self.comps, self.conc = kind, term, ct, comps, conc
        self.fields, self.prefix, self.size = fields, prefix, size

    def key(self):
        if self.kind in ("VT", "VZ"):
            return (self.kind, tuple(self.comps))
        if self.kind == "TABS":
            return (self.kind, tuple(None if c is None else c.key() for c in self.comps))
        if self.kind in ("TAB", "ARR"):
            return (self.kind, self.size, self.term)
        return (self.kind, self.term)


ALIASES = {}     # (class, scalar, dim, alias name) -> type, from the TypeAliasDecls of the instantiations


def norm_type(ty):
    ty = re.sub(r"\bconst\b", "", ty).replace("&", "").strip()
    ty = re.sub(r"\s+", " ", ty)
    m = re.match(r"^(?:typename )?(?:romea::core::)?(\w+)<(float|double), (\d+)(?:UL)?>::(\w+)$", ty)
    if m and (m.group(1), m.group(2), int(m.group(3)), m.group(4)) in ALIASES:
        return norm_type(ALIASES[(m.group(1), m.group(2), int(m.group(3)), m.group(4))])
    if ty in ("size_t", "std::size_t"):
        return "unsigned long"
    return ty


def type_of(n):
    t = n.get("type", {})
    return norm_type(t.get("desugaredQualType", t.get("qualType", "")))


def classify(ty):
    """-> ('T', scalar) | ('Z', ctype) | ('B',) | ('V', 'T'|'Z', elt ctype, dim) | ('TAB', scalar) | ('TABS', scalar) | ('PTR', cls, scalar, dim)
    | ('OBJ', cls, scalar, dim) | None"""
    ty = norm_type(ty)
    if ty in ("float", "double"):
        return ("T", ty)
    if ty in INT_TYPES:
        return ("Z", ty)
    if ty == "bool":
        return ("B",)
    m = re.match(r"^Eigen::Matrix<([\w ]+), (\d+)(?:UL)?, 1(?:, [\w, ]+)?>$", ty)
    if m:
        e = m.group(1).strip()
        if e in ("float", "double"):
            return ("V", "T", e, int(m.group(2)))
        if e in INT_TYPES:
            return ("V", "Z", e, int(m.group(2)))
        return None
    m = re.match(r"^std::vector<Eigen::Matrix<([\w ]+), (\d+), 1(?:, [\w, ]+)?>, Eigen::aligned_allocator<.*>>$", ty)
    if m and m.group(1).strip() in INT_TYPES:
        return ("ARR", "Z", m.group(1).strip(), int(m.group(2)))
    m = re.match(r"^std::vector<std::vector<(float|double)(?:, std::allocator<\1>)?>(?:, .*)?>$", ty)
    if m:
        return ("TABS", m.group(1))
    m = re.match(r"^std::vector<(float|double)(?:, std::allocator<\1>)?>$", ty)
    if m:
        return ("TAB", m.group(1))
    m = re.match(r"^(?:romea::core::)?(\w+)<(float|double), (\d+)(?:UL)?> ?(\*?)$", ty)
    if m:
        return ("PTR" if m.group(4) else "OBJ", m.group(1), m.group(2), int(m.group(3)))
    return None


def zl(z):
    return "(%d)%%Z" % z


def atomic(t):
    return re.match(r"^[A-Za-z_][A-Za-z0-9_']*$", t) is not None or re.match(r"^\(-?\d+\)%Z$", t) is not None


# ------------------------------------------------------------------------------------------------ executor
class Exec:
    def __init__(self, tus, scalar, dim):
        """tus: {class name: TU}"""
        self.tus, self.scalar, self.dim = tus, scalar, dim
        self.store = {}
        self.loc_type = {}
        self.refs = {}         # decl id of a reference variable / parameter -> location
        self.varname = {}      # decl id -> source name
        self.lets = []         # (name, term)
        self.names = {}        # base name -> number of uses
        self.free = []         # (name, coq type) in order of creation
        self.free_names = set()
        self.pure = 0
        self.this = [""]       # stack of member prefixes
        self.cls = []          # stack of class names
        self.file = []         # stack of source files (for text checks)
        self.depth = 0
        self.partial = False
        self.written = []      # member / parameter locations assigned so far (the outputs)
        self.wlog = None       # while probing a loop: the locations its condition and body assign
        self.loops = 0

    # ---- names, lets, free variables
    def fresh(self, base):
        base = re.sub(r"[^A-Za-z0-9_]", "_", base)
        k = self.names.get(base, 0)
        while True:
            nm = base if k == 0 else "%s_%d" % (base, k)
            k += 1
            if nm not in self.free_names and nm not in ("N", "I", "T", "fuel", "fu", "f"):
                break
        self.names[base] = k
        return nm

    def root(self, loc):
        while loc[0] == "idx":
            loc = loc[1]
        return loc

    def mark(self, loc):
        loc = self.root(loc)
        if loc[0] in ("mem", "par") and loc not in self.written:
            self.written.append(loc)

    def bind(self, base, term, suffix=False):
        if self.pure or atomic(term):
            return term
        if suffix and base not in self.names:
            self.names[base] = 1          # a new value of a member / parameter never takes the plain name (that of its initial value)
        nm = self.fresh(base)
        self.lets.append(("let", nm, term))
        return nm

    def freevar(self, name, cty):
        if name not in self.free_names:
            if name in self.names:
                raise Unsupported("name clash on %s" % name)
            self.free_names.add(name)
            self.free.append((name, cty))
        return name

    def loc_name(self, loc):
        if loc[0] == "var":
            return "l_" + self.varname.get(loc[1], "v")
        if loc[0] == "par":
            return self.varname.get(loc[1], "p")
        if loc[0] == "mem":
            return loc[1] + loc[2]
        if loc[0] == "idx":
            b = self.loc_name(loc[1])
            return "%s%s%d" % (b, "" if b.endswith("_") else "_", loc[2])
        raise Unsupported("location")

    def initial(self, loc, ty):
        """the value of a location nobody has written yet: free variables named after it"""
        c = classify(ty)
        nm = self.loc_name(loc)
        if loc[0] == "var":
            raise Unsupported("read of the uninitialised local %s" % nm)
        if c is None:
            raise Unsupported("type %s of %s" % (ty, nm))
        if c[0] == "T":
            self.need_scalar(c[1])
            return Val("T", self.freevar(nm, "T"))
        if c[0] == "Z":
            return Val("Z", self.freevar(nm, "Z"), ct=c[1])
        if c[0] == "V":
            if c[1] == "T":
                self.need_scalar(c[2])
            self.need_dim(c[3])
            sep = "" if nm.endswith("_") else "_"
            comps = [self.freevar("%s%s%d" % (nm, sep, i), "T" if c[1] == "T" else "Z") for i in range(c[3])]
            return Val("V" + c[1], comps=comps, ct=c[2])
        if c[0] == "TABS":
            self.need_scalar(c[1])
            sep = "" if nm.endswith("_") else "_"
            # a table nobody filled in this function: its contents are a free function of the index (its size is not needed)
            return Val("TABS", comps=[Val("TAB", self.freevar("%s%s%d" % (nm, sep, i), "(Z -> T)"), size=None) for i in range(self.dim)])
        if c[0] in ("PTR", "OBJ"):
            return Val("OBJ", prefix=nm if nm.endswith("_") else nm + "_", ct=c)
        raise Unsupported("type %s of %s" % (ty, nm))

    def need_scalar(self, s):
        if s != self.scalar:
            raise Unsupported("scalar type %s in the %s instantiation (mixed precision is not modelled)" % (s, self.scalar))

    def need_dim(self, d):
        if d != self.dim:
            raise Unsupported("vector of size %d in the DIM = %d instantiation" % (d, self.dim))

    # ---- store
    def read(self, loc, ty):
        if loc[0] == "idx":
            base = self.read(loc[1], self.loc_type.get(loc[1], ""))
            if base.kind in ("VT", "VZ"):
                if not 0 <= loc[2] < len(base.comps):
                    raise Unsupported("index %d out of range" % loc[2])
                t = base.comps[loc[2]]
                if t is None:
                    raise Unsupported("read of the unset component %d of %s" % (loc[2], self.loc_name(loc[1])))
                return Val("T", t) if base.kind == "VT" else Val("Z", t, ct=base.ct)
            if base.kind == "TABS":
                if not 0 <= loc[2] < len(base.comps) or base.comps[loc[2]] is None:
                    raise Unsupported("table %d of %s" % (loc[2], self.loc_name(loc[1])))
                return base.comps[loc[2]]
            raise Unsupported("indexing a %s" % base.kind)
        if loc not in self.store:
            self.loc_type.setdefault(loc, ty)
            self.store[loc] = self.initial(loc, self.loc_type[loc])
        return self.store[loc]

    def write(self, loc, val):
        """assignment at statement level: the new value is let-bound (unless we are inside a conditional)"""
        self.mark(loc)
        if self.wlog is not None and self.root(loc) not in self.wlog:
            self.wlog.append(self.root(loc))
        sfx = self.root(loc)[0] in ("mem", "par")
        if loc[0] == "idx":
            base = self.read_for_update(loc[1])
            comps = list(base.comps)
            if not 0 <= loc[2] < len(comps):
                raise Unsupported("index %d out of range" % loc[2])
            if base.kind in ("VT", "VZ"):
                want = "T" if base.kind == "VT" else "Z"
                if val.kind != want:
                    raise Unsupported("assignment of a %s to a component of a %s" % (val.kind, base.kind))
                comps[loc[2]] = self.bind(self.loc_name(loc), val.term, sfx)
            elif base.kind == "TABS":
                if val.kind != "TAB":
                    raise Unsupported("assignment to a table")
                comps[loc[2]] = val
            else:
                raise Unsupported("indexed assignment to a %s" % base.kind)
            self.store[loc[1]] = Val(base.kind, comps=comps, ct=base.ct)
            return
        if val.kind in ("T", "Z", "B"):
            self.store[loc] = Val(val.kind, self.bind(self.loc_name(loc), val.term, sfx), ct=val.ct, conc=val.conc)
        elif val.kind in ("VT", "VZ"):
            if any(c is None for c in val.comps):
                self.store[loc] = val
            else:
                nm = self.loc_name(loc)
                sep = "" if nm.endswith("_") else "_"
                self.store[loc] = Val(val.kind, comps=[self.bind("%s%s%d" % (nm, sep, i), c, sfx) for i, c in enumerate(val.comps)], ct=val.ct)
        else:
            self.store[loc] = val

    def read_for_update(self, loc):
        if loc in self.store:
            return self.store[loc]
        ty = self.loc_type.get(loc, "")
        c = classify(ty)
        if c and c[0] == "V":
            # overwritten component by component: no need for the old contents
            return Val("V" + c[1], comps=[None] * c[3], ct=c[2])
        return self.read(loc, ty)

    # ---- lvalues
    def strip(self, n):
        while True:
            k = n.get("kind")
            if k in TRANSPARENT and n.get("inner"):
                n = n["inner"][-1]
            elif k == "SubstNonTypeTemplateParmExpr" and n.get("inner"):
                n = n["inner"][-1]
            elif k in ("ImplicitCastExpr", "CXXStaticCastExpr", "CXXFunctionalCastExpr", "CStyleCastExpr") and n.get("castKind") in NOOP_CASTS and n.get("inner"):
                n = n["inner"][-1]
            else:
                return n

    def callee_name(self, n):
        """(name, kind) of the function an operator call / call expression refers to"""
        c = self.strip(n["inner"][0])
        if c.get("kind") == "DeclRefExpr":
            return c.get("referencedDecl", {}).get("name"), c.get("referencedDecl", {}).get("kind")
        if c.get("kind") == "MemberExpr":
            return c.get("name"), "member"
        return None, None

    def concrete(self, n):
        """compile-time integer value of an index / bound expression, or None"""
        try:
            saved = self.pure
            self.pure += 1
            try:
                v = self.expr(n)
            finally:
                self.pure = saved
        except Unsupported:
            return None
        return v.conc if v.kind == "Z" else None

    def lvalue(self, n):
        n = self.strip(n)
        k = n.get("kind")
        if k == "DeclRefExpr":
            d = n["referencedDecl"]
            if d["id"] in self.refs:
                return self.refs[d["id"]]
            self.varname.setdefault(d["id"], d.get("name", "v"))
            loc = ("par" if d.get("kind") == "ParmVarDecl" else "var", d["id"])
            self.loc_type.setdefault(loc, type_of(n))
            return loc
        if k == "MemberExpr":
            b = self.strip(n["inner"][0])
            if b.get("kind") == "CXXThisExpr":
                loc = ("mem", self.this[-1], n.get("name"))
            else:
                o = self.expr(b)
                if o.kind != "OBJ" or o.prefix is None:
                    raise Unsupported("member of a %s" % o.kind)
                loc = ("mem", o.prefix, n.get("name"))
            self.loc_type.setdefault(loc, type_of(n))
            return loc
        if k == "CXXOperatorCallExpr":
            nm, _ = self.callee_name(n)
            if nm in ("operator[]", "operator()") and len(n["inner"]) == 3:
                base = self.lvalue(n["inner"][1])
                i = self.concrete(n["inner"][2])
                if i is None:
                    raise Unsupported("index that is not a compile-time constant")
                return ("idx", base, i)
        raise Unsupported("lvalue %s" % k)

    # ---- expressions
    def lit_T(self, value, from_double):
        """a floating literal converted to Scalar"""
        if value in srcfuns.PI_LITS:
            raise Unsupported("pi literal")
        f = float(value)
        if self.scalar == "float" and from_double:
            import struct
            if struct.unpack("f", struct.pack("f", f))[0] != f:
                raise Unsupported("double literal %s is rounded a second time when converted to float" % value)
        m, e = dec_pair(repr(f))
        return Val("T", "(nofDec N %s %s)" % (zl(m), zl(e)))

    def to_T(self, v):
        if v.kind == "T":
            return v
        if v.kind == "Z":
            return Val("T", "(nofZ N %s)" % v.term)
        raise Unsupported("conversion of a %s to Scalar" % v.kind)

    def int_cast(self, v, to):
        """integral conversion to the C type `to`"""
        if v.kind == "B":
            raise Unsupported("bool to integer")
        if v.kind != "Z":
            raise Unsupported("integral cast of a %s" % v.kind)
        sg, w = INT_TYPES[to]
        if v.conc is not None:
            lo, hi = (0, 2 ** w) if sg == "u" else (-2 ** (w - 1), 2 ** (w - 1))
            if lo <= v.conc < hi:
                return Val("Z", v.term, ct=to, conc=v.conc)
            raise Unsupported("constant %d does not fit %s" % (v.conc, to))
        fs, fw = INT_TYPES.get(v.ct, ("s", 64))
        if (fs == sg and fw <= w) or (fs == "u" and sg == "s" and fw < w):
            return Val("Z", v.term, ct=to)                   # value preserving
        if (sg, w) == ("u", 64):
            return Val("Z", "(cu64 I %s)" % v.term, ct=to)
        if (sg, w) == ("s", 32):
            return Val("Z", "(ci32 I %s)" % v.term, ct=to)
        raise Unsupported("integral conversion %s -> %s" % (v.ct, to))

    def arith_result(self, term, ct):
        """result of + - * in the C type ct: unsigned arithmetic wraps"""
        if INT_TYPES[ct] == ("u", 64):
            return Val("Z", "(cu64 I %s)" % term, ct=ct)
        if INT_TYPES[ct][0] == "u":
            raise Unsupported("arithmetic in %s" % ct)
        return Val("Z", term, ct=ct)

    def cast(self, n):
        ck = n.get("castKind")
        sub = n["inner"][-1]
        to = type_of(n)
        if ck == "IntegralCast":
            if to not in INT_TYPES:
                raise Unsupported("integral cast to %s" % to)
            return self.int_cast(self.expr(sub), to)
        if ck == "IntegralToFloating":
            self.need_scalar(to)
            v = self.expr(sub)
            if v.kind != "Z":
                raise Unsupported("integral to floating of a %s" % v.kind)
            return Val("T", "(nofZ N %s)" % v.term)
        if ck == "FloatingCast":
            s = self.strip(sub)
            if s.get("kind") == "FloatingLiteral":
                self.need_scalar(to)
                return self.lit_T(s["value"], type_of(s) == "double")
            raise Unsupported("floating cast of a non-literal (mixed precision)")
        if ck == "FloatingToIntegral":
            v = self.expr(sub)
            if v.kind != "T" or to not in INT_TYPES:
                raise Unsupported("floating to integral")
            return Val("Z", "(ntruncZ N %s)" % v.term, ct=to)
        raise Unsupported("cast %s" % ck)

    def src_text(self, n):
        r = n.get("range", {})
        b, e = r.get("begin", {}), r.get("end", {})
        if "offset" not in b or "offset" not in e or not self.file:
            return None
        path = b.get("file") or self.file[-1]
        if e.get("file") and e.get("file") != path:
            return None
        data = self.tus[self.cls[-1]].text(path)
        if data is None:
            return None
        return data[b["offset"]:e["offset"] + e.get("tokLen", 0)].decode("utf-8", "replace")

    def expr(self, n):
        n = self.strip(n)
        k = n.get("kind")
        if k in ("ImplicitCastExpr", "CXXStaticCastExpr", "CXXFunctionalCastExpr", "CStyleCastExpr"):
            return self.cast(n)
        if k == "IntegerLiteral":
            ct = type_of(n)
            if ct not in INT_TYPES:
                raise Unsupported("integer literal of type %s" % ct)
            v = int(n["value"])
            return Val("Z", zl(v), ct=ct, conc=v)
        if k == "FloatingLiteral":
            self.need_scalar(type_of(n))
            return self.lit_T(n["value"], False)
        if k == "CXXBoolLiteralExpr":
            return Val("B", "true" if n.get("value") else "false")
        if k in ("DeclRefExpr", "MemberExpr"):
            c = classify(type_of(n))
            if k == "MemberExpr" and c and c[0] == "PTR":
                loc = self.lvalue(n)
                return self.read(loc, type_of(n))
            loc = self.lvalue(n)
            return self.read(loc, type_of(n))
        if k == "CXXThisExpr":
            return Val("OBJ", prefix=self.this[-1])
        if k == "UnaryOperator":
            op = n.get("opcode")
            if op == "*":          # *ptr
                return self.expr(n["inner"][0])
            if op in ("++", "--"):
                loc = self.lvalue(n["inner"][0])
                old = self.read(loc, type_of(n["inner"][0]))
                if old.kind != "Z":
                    raise Unsupported("%s on a %s" % (op, old.kind))
                self.write(loc, self.arith_result("(%s %s 1)%%Z" % (old.term, "+" if op == "++" else "-"), old.ct))
                return old if n.get("isPostfix") else self.read(loc, type_of(n["inner"][0]))
            a = self.expr(n["inner"][0]) if op in ("-", "+", "!") else None
            if op == "-":
                if a.kind == "T":
                    return Val("T", "(nneg N %s)" % a.term)
                if a.kind == "Z":
                    if INT_TYPES[a.ct][0] == "u":
                        raise Unsupported("negation of an unsigned")
                    return Val("Z", zl(-a.conc) if a.conc is not None else "(- %s)%%Z" % a.term, ct=a.ct, conc=None if a.conc is None else -a.conc)
            if op == "+":
                return a
            if op == "!" and a.kind == "B":
                return Val("B", "(negb %s)" % a.term)
            raise Unsupported("unary %s" % op)
        if k == "BinaryOperator":
            return self.binop(n)
        if k == "ConditionalOperator":
            c, a, b = (self.expr(x) for x in n["inner"])
            if c.kind != "B" or a.kind != b.kind or a.kind not in ("T", "Z", "B"):
                raise Unsupported("conditional operator on %s / %s" % (a.kind, b.kind))
            return Val(a.kind, "(if %s then %s else %s)" % (c.term, a.term, b.term), ct=a.ct)
        if k == "CXXOperatorCallExpr":
            return self.opcall(n)
        if k == "CXXMemberCallExpr":
            return self.membercall(n)
        if k == "CallExpr":
            return self.call(n)
        if k in ("CXXConstructExpr", "CXXTemporaryObjectExpr"):
            return self.construct(n)
        raise Unsupported("expression %s" % k)

    def binop(self, n):
        op = n.get("opcode")
        if op in ("=", "+=", "-=", "*=", "/="):
            raise Unsupported("assignment used as an expression")
        a, b = self.expr(n["inner"][0]), self.expr(n["inner"][1])
        if op in ("&&", "||"):
            if a.kind != "B" or b.kind != "B":
                raise Unsupported("logical operator on non-bool")
            return Val("B", "(%s %s %s)" % ("andb" if op == "&&" else "orb", a.term, b.term))
        if a.kind == "T" and b.kind == "T":
            if op in TOP:
                return Val("T", "(%s N %s %s)" % (TOP[op], a.term, b.term))
            cmpt = {"<": "(nltb N %s %s)" % (a.term, b.term), ">": "(nltb N %s %s)" % (b.term, a.term),
                    "<=": "(nleb N %s %s)" % (a.term, b.term), ">=": "(nleb N %s %s)" % (b.term, a.term),
                    "==": "(neqb N %s %s)" % (a.term, b.term), "!=": "(negb (neqb N %s %s))" % (a.term, b.term)}
            if op in cmpt:
                return Val("B", cmpt[op])
        if a.kind == "Z" and b.kind == "Z":
            if a.ct != b.ct and op not in ("<<", ">>"):
                raise Unsupported("integer operands of different types %s / %s" % (a.ct, b.ct))
            if op in ZOP:
                if a.conc is not None and b.conc is not None:
                    v = {"+": a.conc + b.conc, "-": a.conc - b.conc, "*": a.conc * b.conc}[op]
                    return self.int_cast(Val("Z", zl(v), ct="long", conc=v), a.ct) if INT_TYPES[a.ct][0] == "s" else Val("Z", zl(v % 2 ** 64), ct=a.ct, conc=v % 2 ** 64)
                return self.arith_result("(%s %s %s)%%Z" % (a.term, ZOP[op], b.term), a.ct)
            cmpz = {"==": "(Z.eqb %s %s)", "!=": "(negb (Z.eqb %s %s))", "<": "(Z.ltb %s %s)", "<=": "(Z.leb %s %s)"}
            if op in cmpz:
                conc = None
                return Val("B", cmpz[op] % (a.term, b.term), conc=conc)
            if op in (">", ">="):
                return Val("B", {">": "(Z.ltb %s %s)", ">=": "(Z.leb %s %s)"}[op] % (b.term, a.term))
        raise Unsupported("operator %s on %s, %s" % (op, a.kind, b.kind))

    # vectors
    def vec_of(self, v):
        if v.kind in ("VT", "VZ"):
            if any(c is None for c in v.comps):
                raise Unsupported("use of a partly initialised vector")
            return v
        raise Unsupported("expected a vector, found %s" % v.kind)

    def broadcast(self, a, b, opname, res_type):
        """component-wise binary operation of Eigen (operator+ - * / between vectors/arrays and scalars)"""
        if FUNCTOR[opname] not in res_type:
            raise Unsupported("Eigen operator%s whose result is not a %s expression" % (opname, FUNCTOR[opname]))
        vk = [x.kind for x in (a, b) if x.kind in ("VT", "VZ")]
        if not vk or len(set(vk)) != 1:
            raise Unsupported("Eigen operator%s on %s, %s" % (opname, a.kind, b.kind))
        kind = vk[0]
        if opname == "*" and a.kind == b.kind:
            if "ArrayWrapper" not in res_type and "Array<" not in res_type:
                raise Unsupported("matrix product")
        n = self.dim

        def comps(x):
            if x.kind == kind:
                self.vec_of(x)
                return x.comps
            if kind == "VT":
                return [self.to_T(x).term] * n
            if x.kind == "Z":
                return [x.term] * n
            raise Unsupported("broadcast of a %s" % x.kind)
        ca, cb = comps(a), comps(b)
        if kind == "VT":
            return Val("VT", comps=["(%s N %s %s)" % (TOP[opname], x, y) for x, y in zip(ca, cb)], ct=self.scalar)
        ct = a.ct if a.kind == "VZ" else b.ct
        if opname == "/":
            raise Unsupported("integer division")
        return Val("VZ", comps=[self.arith_result("(%s %s %s)%%Z" % (x, ZOP[opname], y), ct).term for x, y in zip(ca, cb)], ct=ct)

    def operand(self, n):
        """operand of an Eigen operator: a floating literal is converted to the Scalar of the expression (promote_scalar_arg)"""
        s = self.strip(n)
        if s.get("kind") == "FloatingLiteral":
            return self.lit_T(s["value"], type_of(s) == "double")
        return self.expr(n)

    def opcall(self, n):
        nm, _ = self.callee_name(n)
        args = n["inner"][1:]
        if nm in ("operator[]", "operator()") and len(args) == 2:
            base = self.strip(args[0])
            bt = classify(type_of(base))
            if bt and bt[0] == "TAB":
                tab = self.expr(base)
                idx = self.expr(args[1])
                if tab.kind != "TAB" or idx.kind != "Z":
                    raise Unsupported("table access")
                return Val("T", "(%s %s)" % (tab.term, idx.term))
            loc = self.lvalue(n)
            return self.read(loc, type_of(n))
        if nm in ("operator+", "operator-", "operator*", "operator/") and len(args) == 2:
            return self.broadcast(self.operand(args[0]), self.operand(args[1]), nm[-1], type_of(n))
        if nm == "operator-" and len(args) == 1:
            a = self.vec_of(self.expr(args[0]))
            if a.kind != "VT" or "scalar_opposite_op" not in type_of(n):
                raise Unsupported("unary minus")
            return Val("VT", comps=["(nneg N %s)" % c for c in a.comps], ct=a.ct)
        raise Unsupported("operator call %s" % nm)

    def membercall(self, n):
        callee = self.strip(n["inner"][0])
        if callee.get("kind") != "MemberExpr":
            raise Unsupported("member call shape")
        nm = callee.get("name")
        args = n["inner"][1:]
        objn = callee["inner"][0]
        oty = classify(type_of(self.strip(objn)))
        rty = type_of(n)
        if oty and oty[0] in ("PTR", "OBJ") and oty[1] in self.tus:
            obj = self.expr(objn)
            return self.call_method(oty[1], nm, obj.prefix, args)
        if oty and oty[0] in ("PTR", "OBJ") and oty[1] == "Interval" and nm in ("lower", "upper") and not args:
            # romea::core::Interval: accessor of the field set by the two-argument constructor (Interval.hpp, trusted)
            obj = self.expr(objn)
            if obj.fields is not None:
                return obj.fields[nm]
            loc = ("mem", obj.prefix, nm)
            self.loc_type.setdefault(loc, rty)
            return self.read(loc, rty)
        if oty and oty[0] == "TAB" and nm == "resize" and len(args) == 1:
            loc = self.lvalue(objn)
            k = self.expr(args[0])
            if k.kind != "Z":
                raise Unsupported("resize argument")
            self.write(loc, Val("TAB", None, size=k.term))
            return Val("VOID")
        # Eigen expression members
        if nm in ("array", "matrix", "eval") and not args:
            return self.vec_of(self.expr(objn))
        if nm == "cast" and not args:
            v = self.vec_of(self.expr(objn))
            m = re.search(r"scalar_cast_op<([\w ]+), ([\w ]+)>", rty)
            if not m:
                raise Unsupported("cast<> result type")
            frm, to = m.group(1).strip(), m.group(2).strip()
            if v.kind == "VT" and to in INT_TYPES:
                self.need_scalar(frm)
                return Val("VZ", comps=["(ntruncZ N %s)" % c for c in v.comps], ct=to)
            if v.kind == "VZ" and to in INT_TYPES:
                return Val("VZ", comps=[self.int_cast(Val("Z", c, ct=v.ct), to).term for c in v.comps], ct=to)
            if v.kind == "VZ" and to == self.scalar:
                return Val("VT", comps=["(nofZ N %s)" % c for c in v.comps], ct=to)
            raise Unsupported("cast<%s> of a %s vector" % (to, frm))
        if nm == "abs" and not args and "scalar_abs_op" in rty:
            v = self.vec_of(self.expr(objn))
            if v.kind == "VT":
                return Val("VT", comps=["(nabs N %s)" % c for c in v.comps], ct=v.ct)
            if INT_TYPES[v.ct][0] == "u":
                raise Unsupported("abs of unsigned")
            return Val("VZ", comps=["(Z.abs %s)" % c for c in v.comps], ct=v.ct)
        if nm == "sum" and not args:
            v = self.vec_of(self.expr(objn))
            if v.kind == "VZ" and INT_TYPES[v.ct][0] == "s" and classify(rty) == ("Z", v.ct):
                return Val("Z", "(eig_sumZ [%s])" % "; ".join(v.comps), ct=v.ct)
            raise Unsupported("sum() of a floating-point expression (evaluation order)")
        if nm == "norm" and not args:
            v = self.vec_of(self.expr(objn))
            if v.kind == "VT" and classify(rty) == ("T", self.scalar):
                return Val("T", "(eig_norm N [%s])" % "; ".join(v.comps))
            raise Unsupported("norm() of an integer vector")
        raise Unsupported("member call %s" % nm)

    def call(self, n):
        nm, kind = self.callee_name(n)
        args = n["inner"][1:]
        rty = type_of(n)
        if nm in ("floor", "ceil") and len(args) == 1:
            a = self.expr(args[0])
            f = "nfloor" if nm == "floor" else "nceil"
            if a.kind == "VT" and ("scalar_%s_op" % nm) in rty:
                self.vec_of(a)
                return Val("VT", comps=["(%s N %s)" % (f, c) for c in a.comps], ct=a.ct)
            if a.kind == "T" and rty == self.scalar:
                return Val("T", "(%s N %s)" % (f, a.term))
            raise Unsupported("%s of a %s" % (nm, a.kind))
        if nm in ("abs", "fabs") and len(args) == 1:
            a = self.expr(args[0])
            if a.kind == "T" and rty == self.scalar:
                return Val("T", "(nabs N %s)" % a.term)
            if a.kind == "Z" and INT_TYPES[a.ct][0] == "s":
                return Val("Z", "(Z.abs %s)" % a.term, ct=a.ct)
            raise Unsupported("abs of a %s" % a.kind)
        if nm == "sqrt" and len(args) == 1:
            a = self.expr(args[0])
            if a.kind == "T" and rty == self.scalar:
                return Val("T", "(nsqrt N %s)" % a.term)
        if nm == "max" and kind == "CXXMethodDecl" and not args:
            # std::numeric_limits<Scalar>::max(): the source text is checked, and the instantiated type must be the Scalar
            txt = self.src_text(n) or ""
            m = re.match(r"^\s*(?:std\s*::\s*)?numeric_limits\s*<\s*(\w+)\s*>\s*::\s*max\s*\(\s*\)\s*$", txt)
            if m and m.group(1) in ("Scalar", self.scalar) and rty == self.scalar:
                return Val("T", "(nmaxval N)")
            raise Unsupported("max() that is not std::numeric_limits<%s>::max() [%s]" % (self.scalar, txt[:60]))
        if nm == "Constant" and kind == "CXXMethodDecl" and len(args) == 1 and "scalar_constant_op" in rty:
            a = self.to_T(self.expr(args[0]))
            return Val("VT", comps=[a.term] * self.dim, ct=self.scalar)
        raise Unsupported("call of %s" % nm)

    def construct(self, n):
        ty = type_of(n)
        c = classify(ty)
        args = [a for a in n.get("inner", []) if isinstance(a, dict) and a.get("kind") != "CXXDefaultArgExpr"]
        if c and c[0] == "V":
            if not args:
                return Val("V" + c[1], comps=[None] * c[3], ct=c[2])
            if len(args) == 1:
                v = self.expr(args[0])
                if v.kind == "V" + c[1] and len(v.comps) == c[3]:
                    if v.kind == "VZ" and v.ct != c[2]:
                        raise Unsupported("vector conversion %s -> %s" % (v.ct, c[2]))
                    return v
            raise Unsupported("construction of %s" % ty)
        if c and c[0] == "ARR" and len(args) == 1:
            k = self.expr(args[0])
            if k.kind == "ARR":
                return k                                     # copy / move of the whole array (return ray;)
            if k.kind == "Z":
                self.need_dim(c[3])
                # size() elements, default-constructed (Eigen leaves them uninitialised: arr_new gives the empty list)
                return Val("ARR", "arr_new", size=k.term, ct=c[2])
            raise Unsupported("construction of an array from a %s" % k.kind)
        if c and c[0] == "TABS" and len(args) == 1:
            k = self.expr(args[0])
            if k.kind == "Z" and k.conc == self.dim:
                return Val("TABS", comps=[Val("TAB", None, size=zl(0)) for _ in range(self.dim)])
            raise Unsupported("vector of tables of size other than DIM")
        if c and c[0] == "OBJ" and c[1] == "Interval" and len(args) == 2:
            lo, hi = self.vec_of(self.expr(args[0])), self.vec_of(self.expr(args[1]))
            if lo.kind != "VT" or hi.kind != "VT":
                raise Unsupported("Interval of non-points")
            return Val("OBJ", fields={"lower": lo, "upper": hi}, ct=c)
        raise Unsupported("construction of %s" % ty)

    # ---- calls of member functions of the translated classes (inlined)
    def find_method(self, cls, name, nargs, first_param=None):
        tu = self.tus.get(cls)
        if tu is None:
            raise Unsupported("class %s is not loaded" % cls)
        ms = [m for m in tu.methods((self.scalar, self.dim), name) if nparams(m) == nargs]
        if first_param is not None:
            ms = [m for m in ms if first_param in [c for c in m["inner"] if c.get("kind") == "ParmVarDecl"][0].get("type", {}).get("qualType", "")]
        if len(ms) != 1:
            raise Unsupported("%d definitions of %s::%s/%d in the <%s, %d> instantiation" % (len(ms), cls, name, nargs, self.scalar, self.dim))
        return ms[0]

    def call_method(self, cls, name, prefix, arg_nodes, decl=None, arg_vals=None):
        if self.depth > 6:
            raise Unsupported("call depth")
        if decl is None:
            decl = self.find_method(cls, name, len(arg_nodes))
        params = [c for c in decl["inner"] if c.get("kind") == "ParmVarDecl"]
        saved_refs = dict(self.refs)
        bound = []
        for i, p in enumerate(params):
            qt = p.get("type", {}).get("qualType", "")
            dq = p.get("type", {}).get("desugaredQualType", qt)
            self.varname[p["id"]] = p.get("name", "p%d" % i)
            is_ref = dq.rstrip().endswith("&") and not dq.rstrip().endswith("&&")
            is_const = re.match(r"^\s*const\b", dq) is not None
            if arg_vals is not None:
                bound.append((p, arg_vals[i], None))
            elif is_ref and not is_const:
                bound.append((p, None, self.lvalue(arg_nodes[i])))
            else:
                bound.append((p, self.expr(arg_nodes[i]), None))
        for p, v, loc in bound:
            if loc is not None:
                self.refs[p["id"]] = loc
            else:
                self.refs.pop(p["id"], None)
                ploc = ("par", p["id"])
                self.loc_type[ploc] = norm_type(p.get("type", {}).get("desugaredQualType", p.get("type", {}).get("qualType", "")))
                self.store[ploc] = v
        self.this.append(prefix)
        self.cls.append(cls)
        self.file.append(os.path.join(self.tus[cls].repo, self.tus[cls].src))
        self.depth += 1
        try:
            ret = self.run_body(decl)
        finally:
            self.depth -= 1
            self.this.pop()
            self.cls.pop()
            self.file.pop()
            self.refs = saved_refs
        return ret

    def run_body(self, decl):
        for ini in [c for c in decl.get("inner", []) if c.get("kind") == "CXXCtorInitializer"]:
            self.ctor_init(ini)
        body = [c for c in decl["inner"] if c.get("kind") == "CompoundStmt"][0]
        stmts = body.get("inner", [])
        ret = Val("VOID")
        for i, st in enumerate(stmts):
            if st.get("kind") == "ReturnStmt":
                if i != len(stmts) - 1:
                    raise Unsupported("return before the end of the body")
                if st.get("inner"):
                    ret = self.expr(st["inner"][0])
                    if ret.kind in ("VT", "VZ"):
                        self.vec_of(ret)
            else:
                self.stmt(st)
        return ret

    def ctor_init(self, ini):
        inner = [c for c in ini.get("inner", []) if isinstance(c, dict)]
        if "anyInit" in ini:
            d = ini["anyInit"]
            loc = ("mem", self.this[-1], d.get("name"))
            ty = norm_type(d.get("type", {}).get("desugaredQualType", d.get("type", {}).get("qualType", "")))
            c = classify(ty)
            if c is None:
                # sugar such as `Scalar` / PointType: use the type of the initialising expression
                ty = type_of(inner[0]) if inner else ty
                c = classify(ty)
            self.loc_type[loc] = ty
            if not inner:
                raise Unsupported("member initialiser without expression")
            v = self.expr(inner[0])
            if c and c[0] == "T":
                v = self.to_T(v)
            self.write(loc, v)
            return
        # delegating constructor
        e = self.strip(inner[0]) if inner else {}
        if e.get("kind") == "CXXConstructExpr":
            c = classify(type_of(e))
            if c and c[0] == "OBJ" and c[1] == self.cls[-1]:
                args = [a for a in e.get("inner", []) if isinstance(a, dict) and a.get("kind") != "CXXDefaultArgExpr"]
                tu = self.tus[c[1]]
                cands = [m for m in tu.methods((self.scalar, self.dim), c[1]) if nparams(m) == len(args)]
                want = re.sub(r"\s+", "", e.get("ctorType", {}).get("qualType", ""))
                cands2 = [m for m in cands if re.sub(r"\s+", "", m.get("type", {}).get("qualType", "")) == want]
                if len(cands2) == 1:
                    cands = cands2
                if len(cands) != 1:
                    raise Unsupported("delegating constructor: %d candidates" % len(cands))
                self.call_method(c[1], c[1], self.this[-1], args, decl=cands[0])
                return
        raise Unsupported("constructor initialiser")

    # ---- statements
    def stmt(self, st):
        k = st.get("kind")
        if k == "CompoundStmt":
            for c in st.get("inner", []):
                self.stmt(c)
        elif k == "NullStmt":
            pass
        elif k == "DeclStmt":
            for v in st.get("inner", []):
                self.decl(v)
        elif k == "IfStmt":
            self.if_stmt(st)
        elif k == "ForStmt":
            self.for_stmt(st)
        elif k == "WhileStmt":
            self.while_stmt(st)
        elif k == "ReturnStmt":
            raise Unsupported("return inside a block")
        else:
            self.effect(st)

    def decl(self, v):
        if v.get("kind") != "VarDecl":
            raise Unsupported("declaration %s" % v.get("kind"))
        self.varname[v["id"]] = v.get("name", "v")
        qt = v.get("type", {}).get("desugaredQualType", v.get("type", {}).get("qualType", ""))
        init = [c for c in v.get("inner", []) if isinstance(c, dict)]
        loc = ("var", v["id"])
        self.refs.pop(v["id"], None)
        if qt.rstrip().endswith("&"):
            if not init:
                raise Unsupported("reference without initialiser")
            self.refs[v["id"]] = self.lvalue(init[0])
            return
        ty = norm_type(qt)
        self.loc_type[loc] = ty
        c = classify(ty)
        if c is None:
            raise Unsupported("local of type %s" % ty)
        if not init:
            if c[0] == "V":
                self.store[loc] = Val("V" + c[1], comps=[None] * c[3], ct=c[2])
                return
            raise Unsupported("uninitialised local %s" % v.get("name"))
        val = self.expr(init[0])
        if c[0] == "T":
            val = self.to_T(val) if val.kind == "T" else val
        if c[0] == "Z" and val.kind == "Z" and val.ct != c[1]:
            val = self.int_cast(val, c[1])
        if c[0] == "V" and val.kind in ("VT", "VZ") and any(x is None for x in val.comps):
            self.store[loc] = val
            return
        self.store.pop(loc, None)
        self.write(loc, val)

    def effect(self, st):
        """expression statement"""
        s = self.strip(st)
        k = s.get("kind")
        if k == "BinaryOperator" and s.get("opcode") == "=":
            loc = self.lvalue(s["inner"][0])
            v = self.expr(s["inner"][1])
            self.assign(loc, v, type_of(s["inner"][0]))
            return
        if k == "CompoundAssignOperator" and s.get("opcode") in ("+=", "-=", "*=", "/="):
            loc = self.lvalue(s["inner"][0])
            lty = type_of(s["inner"][0])
            old = self.read(loc, lty)
            rhs = self.expr(s["inner"][1])
            op = s["opcode"][0]
            if old.kind == "T" and rhs.kind == "T":
                self.write(loc, Val("T", "(%s N %s %s)" % (TOP[op], old.term, rhs.term)))
                return
            if old.kind == "Z" and rhs.kind == "Z" and op in ZOP:
                if rhs.ct != old.ct:
                    raise Unsupported("compound assignment %s %s= %s" % (old.ct, op, rhs.ct))
                self.write(loc, self.arith_result("(%s %s %s)%%Z" % (old.term, ZOP[op], rhs.term), old.ct))
                return
            raise Unsupported("compound assignment on %s, %s" % (old.kind, rhs.kind))
        if k == "CXXOperatorCallExpr":
            nm, _ = self.callee_name(s)
            if nm == "operator=" and len(s["inner"]) == 3:
                lhs = self.strip(s["inner"][1])
                if lhs.get("kind") == "CXXOperatorCallExpr" and self.callee_name(lhs)[0] == "operator[]" and len(lhs["inner"]) == 3:
                    bt = classify(type_of(self.strip(lhs["inner"][1])))
                    if bt and bt[0] == "ARR":
                        aloc = self.lvalue(lhs["inner"][1])
                        arr = self.read(aloc, type_of(self.strip(lhs["inner"][1])))
                        idx = self.expr(lhs["inner"][2])
                        v = self.vec_of(self.expr(s["inner"][2]))
                        if arr.kind != "ARR" or idx.kind != "Z" or v.kind != "VZ" or v.ct != bt[2]:
                            raise Unsupported("array element assignment")
                        self.write(aloc, Val("ARR", self.bind(self.loc_name(aloc), "(arr_set %s %s [%s])" % (arr.term, idx.term, "; ".join(v.comps))),
                                             size=arr.size, ct=arr.ct))
                        return
                # X.array() = expr  /  X = expr
                if lhs.get("kind") == "CXXMemberCallExpr":
                    cal = self.strip(lhs["inner"][0])
                    if cal.get("kind") == "MemberExpr" and cal.get("name") in ("array", "matrix") and len(lhs["inner"]) == 1:
                        lhs = cal["inner"][0]
                    else:
                        raise Unsupported("assignment target")
                loc = self.lvalue(lhs)
                self.assign(loc, self.expr(s["inner"][2]), type_of(self.strip(lhs)))
                return
            raise Unsupported("operator statement %s" % nm)
        if k == "CXXMemberCallExpr":
            v = self.expr(s)
            return
        if k == "UnaryOperator" and s.get("opcode") in ("++", "--"):
            loc = self.lvalue(s["inner"][0])
            old = self.read(loc, type_of(s["inner"][0]))
            if old.kind != "Z":
                raise Unsupported("++ on a %s" % old.kind)
            self.write(loc, self.arith_result("(%s %s 1)%%Z" % (old.term, "+" if s["opcode"] == "++" else "-"), old.ct))
            return
        if srcfuns.Fn({"inner": []}).void_noop(st):
            return
        raise Unsupported("statement %s" % k)

    def assign(self, loc, v, lty):
        c = classify(lty)
        if c is None:
            raise Unsupported("assignment to a %s" % lty)
        if c[0] == "T":
            if v.kind != "T":
                raise Unsupported("assignment of a %s to a Scalar" % v.kind)
        elif c[0] == "Z":
            if v.kind != "Z":
                raise Unsupported("assignment of a %s to an integer" % v.kind)
            if v.ct != c[1]:
                v = self.int_cast(v, c[1])
        elif c[0] == "V":
            self.vec_of(v)
            if v.kind != "V" + c[1] or len(v.comps) != c[3] or (v.kind == "VZ" and v.ct != c[2]):
                raise Unsupported("vector assignment %s <- %s %s" % (lty, v.kind, v.ct))
        else:
            raise Unsupported("assignment to a %s" % lty)
        self.loc_type.setdefault(loc, lty)
        self.write(loc, v)

    def snapshot(self):
        return dict(self.store), dict(self.refs)

    def if_stmt(self, st):
        parts = [c for c in st.get("inner", []) if isinstance(c, dict)]
        if len(parts) not in (2, 3) or st.get("hasInit") or st.get("hasVar"):
            raise Unsupported("if statement shape")
        c = self.expr(parts[0])
        if c.kind != "B":
            raise Unsupported("condition of type %s" % c.kind)
        cname = self.bind("c", c.term)
        pre, pre_refs = self.snapshot()
        self.pure += 1
        try:
            self.stmt(parts[1])
            s1 = self.store
            self.store, self.refs = dict(pre), dict(pre_refs)
            if len(parts) == 3:
                self.stmt(parts[2])
            s2 = self.store
        finally:
            self.pure -= 1
            self.refs = pre_refs
        self.store = dict(pre)
        keys = []
        for loc in list(s1) + list(s2):
            if loc in keys:
                continue
            if loc[0] == "var" and loc not in pre:
                continue                 # a local of one branch
            keys.append(loc)
        for loc in keys:
            if loc not in pre and (loc not in s1 or loc not in s2):
                self.read(loc, self.loc_type.get(loc, ""))        # its initial value, for the branch that does not write it
        base = dict(self.store)
        for loc in keys:
            v0 = base.get(loc)
            v1, v2 = s1.get(loc, v0), s2.get(loc, v0)
            if v1 is None or v2 is None:
                raise Unsupported("conditional initialisation of %s" % self.loc_name(loc))
            if v1.key() == v2.key():
                if v0 is None or v0.key() != v1.key():
                    self.store[loc] = v1
                continue
            self.store[loc] = self.merge(loc, cname, v1, v2, v0)

    def merge(self, loc, c, v1, v2, v0):
        if v1.kind != v2.kind:
            raise Unsupported("branches give different kinds to %s" % self.loc_name(loc))
        if v1.kind in ("T", "Z", "B"):
            return Val(v1.kind, self.bind(self.loc_name(loc), "(if %s then %s else %s)" % (c, v1.term, v2.term), loc[0] in ("mem", "par")), ct=v1.ct)
        if v1.kind in ("VT", "VZ"):
            comps = []
            nm = self.loc_name(loc)
            sep = "" if nm.endswith("_") else "_"
            for i, (a, b) in enumerate(zip(v1.comps, v2.comps)):
                if a == b:
                    comps.append(a)
                elif a is None or b is None:
                    comps.append(None)
                else:
                    comps.append(self.bind("%s%s%d" % (nm, sep, i), "(if %s then %s else %s)" % (c, a, b), loc[0] in ("mem", "par")))
            return Val(v1.kind, comps=comps, ct=v1.ct)
        raise Unsupported("conditional update of a %s" % v1.kind)

    def loop_var(self, init):
        if init.get("kind") != "DeclStmt" or len(init.get("inner", [])) != 1:
            return None
        v = init["inner"][0]
        ty = norm_type(v.get("type", {}).get("desugaredQualType", v.get("type", {}).get("qualType", "")))
        if v.get("kind") != "VarDecl" or ty not in INT_TYPES or not v.get("inner"):
            return None
        k0 = self.concrete(v["inner"][0])
        return None if k0 is None else (v, ty, k0)

    def assigns_var(self, n, vid):
        if n.get("kind") in ("BinaryOperator", "CompoundAssignOperator", "UnaryOperator") and \
                (n.get("opcode") in ("=", "+=", "-=", "*=", "/=", "++", "--")):
            l = self.strip(n["inner"][0])
            if l.get("kind") == "DeclRefExpr" and l["referencedDecl"]["id"] == vid:
                return True
        return any(isinstance(c, dict) and self.assigns_var(c, vid) for c in n.get("inner", []))

    def for_stmt(self, st):
        parts = st.get("inner", [])
        if len(parts) != 5 or (parts[1] and parts[1].get("kind")):
            raise Unsupported("for statement shape")
        init, _, cond, inc, body = parts
        lv = self.loop_var(init)
        if lv is None:
            raise Unsupported("for loop whose variable does not start at a constant")
        v, ty, k0 = lv
        vid = v["id"]
        self.varname[vid] = v.get("name", "i")
        c = self.strip(cond)
        if c.get("kind") != "BinaryOperator" or c.get("opcode") != "<":
            raise Unsupported("for loop condition other than i < bound")
        l = self.strip(c["inner"][0])
        if l.get("kind") == "ImplicitCastExpr":
            l = self.strip(l["inner"][0])
        if l.get("kind") != "DeclRefExpr" or l["referencedDecl"]["id"] != vid:
            raise Unsupported("for loop condition does not test the loop variable")
        i = self.strip(inc)
        if i.get("kind") != "UnaryOperator" or i.get("opcode") != "++" or self.strip(i["inner"][0]).get("referencedDecl", {}).get("id") != vid:
            raise Unsupported("for loop increment other than ++i")
        if self.assigns_var(body, vid):
            raise Unsupported("loop variable assigned in the body")
        loc = ("var", vid)
        self.loc_type[loc] = ty
        bound = self.concrete(c["inner"][1])
        if bound is not None:
            if bound - k0 > 8:
                raise Unsupported("loop of %d iterations" % (bound - k0))
            for k in range(k0, bound):
                self.store[loc] = Val("Z", zl(k), ct=ty, conc=k)
                self.stmt(body)
            self.store.pop(loc, None)
            return
        self.table_fill(loc, ty, k0, c["inner"][1], body)

    def table_fill(self, loc, ty, k0, bound_node, body):
        """for (size_t n = 0; n < K; ++n) tab[n] = e(n);   ->   tab := (K, fun n => e(n))"""
        if k0 != 0:
            raise Unsupported("table fill not starting at 0")
        b = body
        if b.get("kind") == "CompoundStmt":
            if len(b.get("inner", [])) != 1:
                raise Unsupported("loop with a symbolic bound whose body is not a single assignment")
            b = b["inner"][0]
        b = self.strip(b)
        if b.get("kind") != "BinaryOperator" or b.get("opcode") != "=":
            raise Unsupported("loop with a symbolic bound whose body is not `tab[n] = e`")
        lhs = self.strip(b["inner"][0])
        nm, _ = self.callee_name(lhs) if lhs.get("kind") == "CXXOperatorCallExpr" else (None, None)
        if nm != "operator[]" or len(lhs["inner"]) != 3:
            raise Unsupported("table fill target")
        idx = self.strip(lhs["inner"][2])
        if idx.get("kind") == "ImplicitCastExpr":
            idx = self.strip(idx["inner"][0])
        if idx.get("kind") != "DeclRefExpr" or idx["referencedDecl"]["id"] != loc[1]:
            raise Unsupported("table fill index is not the loop variable")
        tloc = self.lvalue(lhs["inner"][1])
        tc = classify(type_of(self.strip(lhs["inner"][1])))
        if not tc or tc[0] != "TAB":
            raise Unsupported("table fill of a %s" % type_of(lhs["inner"][1]))
        old = self.read(tloc, type_of(self.strip(lhs["inner"][1])))
        bound = self.expr(bound_node)
        if bound.kind != "Z" or old.kind != "TAB" or old.size != bound.term:
            raise Unsupported("table filled up to a bound that is not the size it was resized to")
        var = self.fresh("k_" + self.varname.get(loc[1], "n"))
        self.store[loc] = Val("Z", var, ct=ty)
        self.pure += 1
        try:
            e = self.expr(b["inner"][1])
        finally:
            self.pure -= 1
            self.store.pop(loc, None)
        if e.kind != "T":
            raise Unsupported("table of %s" % e.kind)
        if re.search(r"\b%s\b" % re.escape(old.term), e.term) if old.term else False:
            raise Unsupported("table fill reads the table")
        self.write(tloc, Val("TAB", "(fun %s : Z => %s)" % (var, e.term), size=bound.term))

    def flat(self, loc, v):
        """[(suffix, term, coq type)] of the scalar pieces of a loop-carried value"""
        if v.kind == "T":
            return [("", v.term, "T")]
        if v.kind == "Z":
            return [("", v.term, "Z")]
        if v.kind in ("VT", "VZ"):
            if any(c is None for c in v.comps):
                raise Unsupported("loop-carried vector %s with an unset component" % self.loc_name(loc))
            return [("_%d" % i, c, "T" if v.kind == "VT" else "Z") for i, c in enumerate(v.comps)]
        if v.kind == "ARR":
            return [("", v.term, "(Z -> list Z)")]
        raise Unsupported("loop-carried %s %s" % (v.kind, self.loc_name(loc)))

    def unflat(self, v, names):
        if v.kind in ("T", "Z"):
            return Val(v.kind, names[0], ct=v.ct)
        if v.kind in ("VT", "VZ"):
            return Val(v.kind, comps=list(names), ct=v.ct)
        return Val("ARR", names[0], size=v.size, ct=v.ct)

    def while_stmt(self, st):
        """while (c) { body }  ->  a local fix on the fuel; c may have side effects (++n).  None = out of fuel.
           (fix loop fu b.. := match fu with O => None | S f => [c] if c then [body] loop f b'.. else Some (b after c ..) end) fuel init.."""
        parts = st.get("inner", [])
        if len(parts) != 2 or self.pure:
            raise Unsupported("while statement shape")
        cond_node, body_node = parts
        if srcfuns.Fn({"inner": []}).has_kind(body_node, ("BreakStmt", "ContinueStmt", "ReturnStmt", "GotoStmt")):
            raise Unsupported("break / continue / return in a loop")
        # pass 1: which locations do the condition and the body assign?
        saved = (dict(self.store), dict(self.refs), list(self.lets), dict(self.names), list(self.free), set(self.free_names),
                 list(self.written), self.partial)
        self.wlog = []
        self.pure += 1
        try:
            self.expr(cond_node)
            self.stmt(body_node)
            wlog = self.wlog
        finally:
            self.pure -= 1
            self.wlog = None
            (self.store, self.refs, self.lets, self.names, self.free, self.free_names, self.written, self.partial) = saved
        carried = [loc for loc in wlog if loc[0] in ("mem", "par") or loc in self.store]
        if not carried:
            raise Unsupported("loop that assigns nothing")
        # pass 2: run condition and body once on binders
        self.loops += 1
        tag = self.loops
        init, binders, shapes = [], [], []
        for loc in carried:
            v = self.read(loc, self.loc_type.get(loc, ""))
            pieces = self.flat(loc, v)
            names = []
            for sfx, term, cty in pieces:
                b = self.fresh("b_%s%s" % (self.loc_name(loc).lstrip("l_") if False else self.loc_name(loc), sfx))
                names.append(b)
                init.append(term)
                binders.append((b, cty))
            shapes.append((loc, v, names))
            self.store[loc] = self.unflat(v, names)
        outer_lets = self.lets

        def state():
            out = []
            for loc, v, _ in shapes:
                out += [t for _, t, _ in self.flat(loc, self.store[loc])]
            return out
        try:
            self.lets = []
            c = self.expr(cond_node)
            if c.kind != "B":
                raise Unsupported("loop condition of kind %s" % c.kind)
            cond_lets, after_cond = self.lets, state()
            self.lets = []
            self.stmt(body_node)
            body_lets, after_body = self.lets, state()
        finally:
            self.lets = outer_lets
        if any(k != "let" for k, _, _ in cond_lets + body_lets):
            raise Unsupported("nested loop")

        def lets_txt(ls):
            return "".join("let %s := %s in " % (n, t) for _, n, t in ls)

        def tup(xs):
            return xs[0] if len(xs) == 1 else "(" + ", ".join(xs) + ")"
        rty = " * ".join(t for _, t in binders)
        fix = "((fix loop_%d (fu : nat) %s {struct fu} : option (%s) := match fu with O => None | S f => %sif %s then %sloop_%d f %s else Some %s end) fuel %s)" % (
            tag, " ".join("(%s : %s)" % b for b in binders), rty, lets_txt(cond_lets), c.term, lets_txt(body_lets), tag,
            " ".join(after_body), tup(after_cond), " ".join(init))
        outs = []
        for loc, v, names in shapes:
            onames = [self.fresh("o_" + n[2:]) for n in names]
            outs += onames
            self.store[loc] = self.unflat(v, onames)
            self.mark(loc)
        self.lets.append(("bind", tup(outs), fix))
        self.partial = True

    # ---- running one method and printing it
    def run(self, cls, decl):
        params = [c for c in decl["inner"] if c.get("kind") == "ParmVarDecl"]
        vals = []
        pouts = []
        for i, p in enumerate(params):
            self.varname[p["id"]] = p.get("name") or "p%d" % i
            qt = p.get("type", {}).get("desugaredQualType", p.get("type", {}).get("qualType", ""))
            ty = norm_type(qt)
            loc = ("par", p["id"])
            self.loc_type[loc] = ty
            v = self.initial(loc, ty)
            self.store[loc] = v
            self.refs[p["id"]] = loc
            if qt.rstrip().endswith("&") and re.match(r"^\s*const\b", qt) is None:
                pouts.append((loc, v))
            vals.append(v)
        self.nparam_free = len(self.free)
        self.this, self.cls = [""], [cls]
        self.file = [os.path.join(self.tus[cls].repo, self.tus[cls].src)]
        ret = self.run_body(decl)
        outs = []
        if ret.kind != "VOID":
            outs.append(("return", ret))
        for loc, v0 in pouts:
            if loc in self.written:
                outs.append((self.loc_name(loc), self.store[loc]))
        mems = []
        for loc in self.written:
            if loc[0] == "mem":
                mems.append((self.loc_name(loc), self.store[loc]))
        outs += sorted(mems, key=lambda x: x[0])
        return outs

    def initial_key(self, loc, c):
        nm = self.loc_name(loc)
        sep = "" if nm.endswith("_") else "_"
        if c[0] in ("T", "Z"):
            return (c[0], nm)
        if c[0] == "V":
            return ("V" + c[1], tuple("%s%s%d" % (nm, sep, i) for i in range(c[3])))
        if c[0] == "TABS":
            return ("TABS", tuple(("TAB", None, "%s%s%d" % (nm, sep, i)) for i in range(self.dim)))
        return None


def out_term(v):
    """(coq term, coq type) of an output value"""
    if v.kind == "T":
        return v.term, "T"
    if v.kind == "Z":
        return v.term, "Z"
    if v.kind == "B":
        return v.term, "bool"
    if v.kind in ("VT", "VZ"):
        if any(c is None for c in v.comps):
            raise Unsupported("output vector with an unset component")
        return "[%s]" % "; ".join(v.comps), "list T" if v.kind == "VT" else "list Z"
    if v.kind == "ARR":
        return "(%s, %s)" % (v.size, v.term), "(Z * (Z -> list Z))"
    if v.kind == "TABS":
        items = []
        for t in v.comps:
            if t is None or t.term is None or t.size is None:
                raise Unsupported("output table that was not filled")
            items.append("(%s, %s)" % (t.size, t.term))
        return "[%s]" % "; ".join(items), "list (Z * (Z -> T))"
    raise Unsupported("output of kind %s" % v.kind)


def translate(tus, cls, name, scalar, dim, coq_name, nargs=None, first_param=None, select=None):
    """-> (definition text, comment) for the method cls<scalar,dim>::name"""
    ex = Exec(tus, scalar, dim)
    tu = tus[cls]
    ms = tu.methods((scalar, dim), name)
    if nargs is not None:
        ms = [m for m in ms if nparams(m) == nargs]
    if first_param is not None:
        ms = [m for m in ms if nparams(m) and first_param in [c for c in m["inner"] if c.get("kind") == "ParmVarDecl"][0].get("type", {}).get("qualType", "")]
    if select is not None:
        ms = [m for m in ms if select(m)]
    if len(ms) != 1:
        raise Unsupported("%d definitions of %s<%s, %d>::%s" % (len(ms), cls, scalar, dim, name))
    outs = ex.run(cls, ms[0])
    if not outs:
        raise Unsupported("no output")
    terms = [out_term(v) for _, v in outs]
    free = ex.free[:ex.nparam_free] + sorted(ex.free[ex.nparam_free:])
    params = " ".join("(%s : %s)" % (n, t) for n, t in free)
    rty = " * ".join(t if " " not in t else "(%s)" % t for _, t in terms)
    if len(terms) > 1:
        rty = "(%s)%%type" % rty
    body, closing = "", ""
    for kind, n, t in ex.lets:
        if kind == "let":
            body += "  let %s := %s in\n" % (n, t)
        else:
            body += "  match %s with None => None | Some %s =>\n" % (t, n)
            closing += " end"
    res = terms[0][0] if len(terms) == 1 else "(%s)" % ", ".join(t for t, _ in terms)
    if ex.partial:
        params = "(fuel : nat) " + params
        rty = "option " + rty
        res = "Some " + res + closing
    text = "Definition %s %s : %s :=\n%s  %s." % (coq_name, params, rty, body, res)
    comment = "free variables: %s;  outputs: %s" % (", ".join(n for n, _ in free) or "-", ", ".join(n for n, _ in outs))
    return text, comment


HEAD = """(* GENERATED by translate/%s from the clang AST of the current /repo sources (symbolic execution of the
   instantiated member functions, see translate/eigsym.py). Do not edit. *)
From Coq Require Import ZArith List Bool.
From Romea Require Import Num SrcEigen.
Import ListNotations.

Section Src.
Context {T : Type} (N : NumOps T) (I : IntConv).
"""


def write_if_changed(path, text):
    old = open(path).read() if os.path.exists(path) else None
    if old != text:
        with open(path, "w") as f:
            f.write(text)
