#!/usr/bin/env python3
"""tr_C11_eigensym.py — plug-in translator: the 6x6 <-> 3x3 covariance reductions and the 3D -> 2D pose / twist conversions
behind C11, regenerated from the clang AST by the symbolic evaluator translate/eigensym.py into coq/gen/SrcEigenC11.v:

  src_toSe2Covariance / src_toSe3Covariance   include/romea_core_common/math/Matrix.hpp (templates, instantiated at double)
  src_toPose2D        Pose2D toPose2D(const Pose3D &)           src/geometry/Pose3D.cpp   (Pose2D() and the two-argument overload inlined)
  src_toPosition3D    Position3D toPosition3D(const Pose3D &)   src/geometry/Pose3D.cpp
  src_toTwist2D       Twist2D toTwist2D(const Twist3D &)        src/geometry/Twist3D.cpp
  src_toPoseAndTwist2D  PoseAndTwist2D toPoseAndTwist2D(const PoseAndTwist3D &)   src/geometry/PoseAndTwist3D.cpp (calls the two above)

coq/SrcTieC11.v proves them equal to the models of PoseCovModel.v.  What cannot be translated is left out and reported for
C11 only."""
import os
import sys

sys.path.insert(0, os.path.dirname(os.path.abspath(__file__)))
import eigensym  # noqa: E402
from eigensym import Ev, Index, Obj, Mat, Unsupported, emit  # noqa: E402

ME = "tr_C11_eigensym.py"
MH = "include/romea_core_common/math/Matrix.hpp"
TU2 = "template Eigen::Matrix<double, 3, 3> romea::core::toSe2Covariance<double>(const Eigen::Matrix<double, 6, 6> &);\n"
TU3 = "template Eigen::Matrix<double, 6, 6> romea::core::toSe3Covariance<double>(const Eigen::Matrix<double, 3, 3> &);\n"
P3, T3 = "src/geometry/Pose3D.cpp", "src/geometry/Twist3D.cpp"
# clang's -ast-dump-filter matches substrings of the qualified name: one run per translation unit
REQS = [(MH, "romea::core::toSe", TU2 + TU3),
        (P3, "romea::core::to", ""), ("src/geometry/Pose2D.cpp", "romea::core::Pose2D", ""),
        ("src/geometry/Position3D.cpp", "romea::core::Position3D", ""),
        (T3, "romea::core::to", ""), ("src/geometry/Twist2D.cpp", "romea::core::Twist2D", ""),
        ("src/geometry/PoseAndTwist3D.cpp", "romea::core::toPoseAndTwist2D", ""),
        ("src/geometry/PoseAndTwist2D.cpp", "romea::core::PoseAndTwist2D", "")]


def index_of(loaded, keys):
    ix = Index()
    for k in keys:
        objs = loaded[k]
        if isinstance(objs, Unsupported):
            raise objs
        ix.add(objs)
    return ix


def unit_template(loaded, key, name, cname, lines):
    ix = index_of(loaded, [key])
    ds = ix.find(name, nparams=1)
    ds = [d for d in ds if any(c.get("kind") == "TemplateArgument" for c in d.get("inner", []) if isinstance(c, dict))]
    if len(ds) != 1:
        raise Unsupported("%s<double>: %d instantiations" % (name, len(ds)))
    ev = Ev(ix, cname)
    ret = ev.run(ds[0])
    if not isinstance(ret, Mat):
        raise Unsupported("%s does not return a matrix" % name)
    text, _ = emit(ev, cname, [("result", ret)], "%s: %s<double>" % (key[0], name))
    lines.append(text)


def unit_convert(loaded, keys, name, cname, fields, lines):
    ix = index_of(loaded, keys)
    ds = [d for d in ix.find(name, nparams=1) if d.get("kind") == "FunctionDecl"]
    if len(ds) != 1:
        raise Unsupported("%s(const &): %d definitions" % (name, len(ds)))
    ev = Ev(ix, cname)
    ret = ev.run(ds[0])
    if not isinstance(ret, Obj):
        raise Unsupported("%s does not return an object" % name)
    outs = []

    def collect(o, want, prefix):
        if sorted(o.fields) != sorted(f if isinstance(f, str) else f[0] for f in want):
            raise Unsupported("%s returns the members %s (expected %s)" % (name, sorted(o.fields), want))
        for f in want:
            if isinstance(f, str):
                v = o.fields[f]
                if isinstance(v, Mat):
                    v.entries()          # raises on an uninitialised entry
                elif isinstance(v, Obj):
                    raise Unsupported("member %s is an object" % f)
                outs.append((prefix + f, v))
            else:
                if not isinstance(o.fields[f[0]], Obj):
                    raise Unsupported("member %s is not an object" % f[0])
                collect(o.fields[f[0]], f[1], prefix + f[0] + "_")
    collect(ret, fields, "")
    text, _ = emit(ev, cname, outs, "%s: %s" % (keys[0][0], name))
    lines.append(text)


def generate(gen_dir, repo):
    errors, lines = [], []
    loaded = eigensym.load_many(repo, REQS)

    def attempt(what, fn):
        try:
            fn()
            return
        except Unsupported as e:
            errors.append(("C11", "%s: %s" % (what, e)))
        except Exception as e:  # noqa
            errors.append(("C11", "%s: internal error %r" % (what, e)))
        lines.append("(* %s: NOT TRANSLATED — %s *)\n" % (what, str(errors[-1][1]).replace("*)", "* )").replace("(*", "( *")[:300]))
    attempt("src_toSe2Covariance", lambda: unit_template(loaded, REQS[0], "toSe2Covariance", "src_toSe2Covariance", lines))
    attempt("src_toSe3Covariance", lambda: unit_template(loaded, REQS[0], "toSe3Covariance", "src_toSe3Covariance", lines))
    attempt("src_toPose2D", lambda: unit_convert(loaded, [REQS[1], REQS[2]], "toPose2D", "src_toPose2D",
                                                 ["position", "yaw", "covariance"], lines))
    attempt("src_toPosition3D", lambda: unit_convert(loaded, [REQS[1], REQS[3]], "toPosition3D", "src_toPosition3D",
                                                     ["position", "covariance"], lines))
    attempt("src_toTwist2D", lambda: unit_convert(loaded, [REQS[4], REQS[5]], "toTwist2D", "src_toTwist2D",
                                                  ["linearSpeeds", "angularSpeed", "covariance"], lines))
    attempt("src_toPoseAndTwist2D", lambda: unit_convert(loaded, [REQS[6], REQS[7], REQS[1], REQS[2], REQS[4], REQS[5]], "toPoseAndTwist2D",
                                                         "src_toPoseAndTwist2D",
                                                         [("pose", ["position", "yaw", "covariance"]),
                                                          ("twist", ["linearSpeeds", "angularSpeed", "covariance"])], lines))
    text = eigensym.HEAD % (ME, "") + "\n".join(lines) + "\n"
    return text, errors


def generate_to(gen_dir, repo="/repo"):
    text, errors = eigensym.cached_generate("C11", repo, gen_dir, {"src": [r[0] for r in REQS], "gen": []}, lambda: generate(gen_dir, repo))
    eigensym.write_if_changed(os.path.join(gen_dir, "SrcEigenC11.v"), text)
    return errors


if __name__ == "__main__":
    here = os.path.dirname(os.path.abspath(__file__))
    t, e = generate(os.path.join(here, "..", "coq", "gen"), os.environ.get("VERIF_REPO", "/repo"))
    print(t)
    for x in e:
        print("%s: %s" % x, file=sys.stderr)
    sys.exit(2 if e else 0)
