// conc_tu.cpp — translation unit dumped by translate/concfacts.py: pulls in the concurrency-relevant classes of
// /repo (method bodies included) and instantiates the templates so that clang's AST holds resolved member accesses.
#include "romea_core_common/concurrency/SharedVariable.hpp"
#include "romea_core_common/concurrency/SharedOptionalVariable.hpp"
#include "romea_core_common/diagnostic/CheckupEqualTo.hpp"
#include "romea_core_common/diagnostic/CheckupGreaterThan.hpp"
#include "romea_core_common/diagnostic/CheckupLowerThan.hpp"
#include "src/monitoring/OnlineAverage.cpp"
#include "src/monitoring/OnlineVariance.cpp"
#include "src/monitoring/RateMonitoring.cpp"
#include "src/diagnostics/CheckupReliability.cpp"
#include "src/diagnostics/CheckupRate.cpp"
template class romea::core::SharedVariable<int>;
template class romea::core::SharedOptionalVariable<int>;
template class romea::core::CheckupEqualTo<double>;
template class romea::core::CheckupGreaterThan<double>;
template class romea::core::CheckupLowerThan<double>;
