#!/usr/bin/env python3
"""tr_C12_eigensym.py — plug-in translator: the matrix code behind C12, regenerated from the clang AST by the symbolic
evaluator translate/eigensym.py into coq/gen/SrcEigenC12.v:

  src_smart_ctor x y z           SmartRotation3D::SmartRotation3D(x, y, z) = default constructor (member initialisers:
                                 Identity / Zero) followed by init(x, y, z): the ten member matrices
  src_smart_dRTdAngles           SmartRotation3D::dRTdAngles(T) over free members
  src_pose3d_mul                 operator*(const Eigen::Affine3d &, const Pose3D &) of src/geometry/Pose3D.cpp: the returned
                                 position / orientation / covariance, the 6x6 local (J) and the matrix handed to
                                 rotation3DToEulerAngles; the SmartRotation3D local is built through the delegating
                                 constructor (inlined) down to src_smart_ctor, rotation3DToEulerAngles is the term
                                 srcfuns.py generated (gen/SrcFunsC10.v), the 6x6 product J*C*J^T is outlined as
                                 src_pose3d_mul_big1 X1 X2.

coq/SrcTieC12.v proves these equal to the models of AnglesModel.v / PoseCovModel.v.  Anything the evaluator cannot handle
is left out (with a comment) and reported for C12 only."""
import os
import re
import sys

sys.path.insert(0, os.path.dirname(os.path.abspath(__file__)))
import eigensym  # noqa: E402
from eigensym import Ev, Index, Obj, Mat, Unsupported, emit  # noqa: E402

ME = "tr_C12_eigensym.py"
SMART_SRC, SMART_FLT = "src/transform/SmartRotation3D.cpp", "romea::core::SmartRotation3D"
POSE_SRC = "src/geometry/Pose3D.cpp"
CTOR3 = "void (const double &, const double &, const double &)"


def san(s):
    return re.sub(r"\W", "_", s).strip("_")


def unit_smart(loaded, lines):
    """returns the summary other units use"""
    objs = loaded[(SMART_SRC, SMART_FLT, "")]
    if isinstance(objs, Unsupported):
        raise objs
    ix = Index()
    ix.add(objs)
    fields = ix.records.get("SmartRotation3D")
    if not fields:
        raise Unsupported("class SmartRotation3D not found")
    ctors = [d for d in ix.defs if d.get("kind") == "CXXConstructorDecl" and d.get("type", {}).get("qualType") == CTOR3]
    if len(ctors) != 1:
        raise Unsupported("SmartRotation3D(x, y, z): %d definitions" % len(ctors))
    ev = Ev(ix, "src_smart_ctor")
    obj = Obj("SmartRotation3D")
    ev.run(ctors[0], obj)
    outs = []
    for f in fields:
        v = obj.fields.get(f["name"])
        if not isinstance(v, Mat) or (v.r, v.c) != (3, 3):
            raise Unsupported("member %s is not an initialised 3x3 matrix" % f["name"])
        outs.append((f["name"], v))
    text, _ = emit(ev, "src_smart_ctor", outs, "%s: SmartRotation3D(x, y, z) = member initialisers of the default constructor; init(x, y, z)" % SMART_SRC)
    lines.append(text)
    summary = {("SmartRotation3D", CTOR3): {"same_section": True, "members": [(lbl, "src_smart_ctor_" + san(lbl)) for lbl, _ in outs]}}
    return ix, summary


def unit_dRT(ix, lines):
    ds = [d for d in ix.defs if d.get("kind") == "CXXMethodDecl" and d.get("name") == "dRTdAngles"]
    if len(ds) != 1:
        raise Unsupported("dRTdAngles: %d definitions" % len(ds))
    ev = Ev(ix, "src_smart_dRTdAngles")
    this = Obj("SmartRotation3D", free=((-1,), "this", "this"))
    ret = ev.run(ds[0], this)
    if not isinstance(ret, Mat):
        raise Unsupported("dRTdAngles does not return a matrix")
    text, _ = emit(ev, "src_smart_dRTdAngles", [("result", ret)], "%s: SmartRotation3D::dRTdAngles(T)" % SMART_SRC)
    lines.append(text)


def unit_pose(loaded, gen_dir, ix_smart, summary, lines):
    ix = Index()
    for key in ((SMART_SRC, SMART_FLT, ""), (POSE_SRC, "romea::core::Pose3D", ""), (POSE_SRC, "romea::core::operator*", "")):
        objs = loaded[key]
        if isinstance(objs, Unsupported):
            raise objs
        ix.add(objs)
    ds = [d for d in ix.defs if d.get("kind") == "FunctionDecl" and d.get("name") == "operator*"
          and "Affine3d" in d.get("type", {}).get("qualType", "") and "Pose3D" in d.get("type", {}).get("qualType", "")]
    if len(ds) != 1:
        raise Unsupported("operator*(Affine3d, Pose3D): %d definitions" % len(ds))
    known = {"rotation3DToEulerAngles": eigensym.known_from_gen(gen_dir, "SrcFunsC10.v", "src_rotation3DToEulerAngles")}
    ev = Ev(ix, "src_pose3d_mul", known=known, summaries=summary)
    ret = ev.run(ds[0])
    if not isinstance(ret, Obj):
        raise Unsupported("operator* does not return an object")
    outs = []
    for f, dims in (("position", (3, 1)), ("orientation", (3, 1)), ("covariance", (6, 6))):
        v = ret.fields.get(f)
        if not isinstance(v, Mat) or (v.r, v.c) != dims:
            raise Unsupported("returned Pose3D: member %s is not a %dx%d matrix" % ((f,) + dims))
        outs.append((f, v))
    # the Jacobian: the only 6x6 local of the function that is filled entry by entry / block by block (whatever its name);
    # 6x6 locals that hold the value of a matrix expression (J * C, ...) are not candidates
    big = [(nm, v) for nm, v in ev.final_scope.items()
           if isinstance(v, Mat) and (v.r, v.c) == (6, 6) and v.base is v and not getattr(v, "outlined", False)]
    if len(big) != 1:
        raise Unsupported("%d local 6x6 matrices filled entry-wise (exactly one — the Jacobian — expected)" % len(big))
    outs.append(("jacobian", big[0][1]))
    args = ev.calls.get("rotation3DToEulerAngles")
    if not args or not isinstance(args[0], Mat) or (args[0].r, args[0].c) != (3, 3):
        raise Unsupported("no call rotation3DToEulerAngles(3x3 matrix)")
    outs.append(("euler_arg", args[0]))
    text, _ = emit(ev, "src_pose3d_mul", outs, "%s: Pose3D operator*(const Eigen::Affine3d &, const Pose3D &)" % POSE_SRC)
    lines.append(text)


def generate(gen_dir, repo):
    errors, lines = [], []
    reqs = [(SMART_SRC, SMART_FLT, ""), (POSE_SRC, "romea::core::Pose3D", ""), (POSE_SRC, "romea::core::operator*", "")]
    loaded = eigensym.load_many(repo, reqs)
    ix, summary = None, None

    def attempt(what, fn):
        try:
            return fn()
        except Unsupported as e:
            errors.append(("C12", "%s: %s" % (what, e)))
        except Exception as e:  # noqa  — an evaluator bug must not take other properties down
            errors.append(("C12", "%s: internal error %r" % (what, e)))
        lines.append("(* %s: NOT TRANSLATED — %s *)\n" % (what, str(errors[-1][1]).replace("*)", "* )").replace("(*", "( *")[:300]))
        return None
    r = attempt("src_smart_ctor (%s)" % SMART_SRC, lambda: unit_smart(loaded, lines))
    if r is not None:
        ix, summary = r
        attempt("src_smart_dRTdAngles (%s)" % SMART_SRC, lambda: unit_dRT(ix, lines))
        attempt("src_pose3d_mul (%s)" % POSE_SRC, lambda: unit_pose(loaded, gen_dir, ix, summary, lines))
    else:
        lines.append("(* src_pose3d_mul: NOT TRANSLATED — needs src_smart_ctor *)\n")
    text = eigensym.HEAD % (ME, "From Romea.gen Require Import SrcFunsC10.") + "\n".join(lines) + "\n"
    return text, errors


def generate_to(gen_dir, repo="/repo"):
    text, errors = eigensym.cached_generate("C12", repo, gen_dir, {"src": ["src/transform/SmartRotation3D.cpp", "src/geometry/Pose3D.cpp"], "gen": ["SrcFunsC10.v"]}, lambda: generate(gen_dir, repo))
    eigensym.write_if_changed(os.path.join(gen_dir, "SrcEigenC12.v"), text)
    return errors


if __name__ == "__main__":
    here = os.path.dirname(os.path.abspath(__file__))
    t, e = generate(os.path.join(here, "..", "coq", "gen"), os.environ.get("VERIF_REPO", "/repo"))
    print(t)
    for x in e:
        print("%s: %s" % x, file=sys.stderr)
    sys.exit(2 if e else 0)
