#!/usr/bin/env python3
"""tr_C15_wrapgrid.py — plug-in translator for C15: the imperative code of WrappableGrid<int, 2|3> -> a deeply-embedded
program (types of coq/WrapGridImp.v), regenerated into coq/gen/SrcWrapGrid.v from the clang JSON AST on every run.

Translated (per DIM in {2, 3}, from the explicit instantiations `template class WrappableGrid<int, DIM>`):
  src_linear_index_<D>d : expr   computeCellLinearIndex_  = wrapCellIndexes_(cellIndexes).dot(indexCoefficients_), the
                                 callee wrapCellIndexes_ inlined, Eigen's dot of two fixed-size size_t vectors written as
                                 the size_t sum of products (parameter components = VArg i)
  src_cell_index_<D>d, src_cell_index_const_<D>d : expr   the buffer_ index used by operator()(cellIndexes) (non-const/const)
  src_translate_<D>d : stmt      the branch of translate(indexOffset, emptyValue) selected by DIM (`if (DIM == 2)` or
                                 `if constexpr`: the condition is a comparison of literals after instantiation)
  src_ctor_<D>d : stmt           the member initialisers of the WrappableGrid constructor (offsets = Zero, minusOne = n - Ones)
  src_init_<D>d : stmt           Grid::init: numberOfCellsAlongAxes_ and indexCoefficients_ (buffer_.resize skipped, noted)

Accepted C++: references to vector components / members (resolved to what they alias), scalar locals with initialiser,
`=`, `++`/`--`, + - * % < > on size_t / int with the implicit conversions clang inserted (every arithmetic node keeps
its C++ type), buffer_[e] = emptyValue, if (e), if on a literal comparison (folded), counted loops
`for (x = a; x < b; x++)`, `for (int k = a; k > b; k--)` (trip count b - a / a - b; a loop whose direction does not match
its condition gets trip count 0, so the interpreter answers None as soon as it would be entered).
Everything else: the definition is left out and an error tagged C15 is returned (never raises)."""
import json
import os
import re
import subprocess
import sys
from concurrent.futures import ThreadPoolExecutor

PID = "C15"
WG = "romea_core_common/containers/grid/WrappableGrid.hpp"
MEMBERS = {"indexOffsetsAlongAxes_": "VOff", "numberOfCellsAlongAxes_": "VN", "numberOfCellsAlongAxesMinusOne_": "VNm1",
           "indexCoefficients_": "VCoef"}
STRIP = ("ParenExpr", "MaterializeTemporaryExpr", "ExprWithCleanups", "CXXBindTemporaryExpr", "ConstantExpr",
         "SubstNonTypeTemplateParmExpr")
NOOP_CASTS = ("LValueToRValue", "NoOp", "UncheckedDerivedToBase", "DerivedToBase", "FunctionToPointerDecay")


class Unsupported(Exception):
    pass


def clang_ast(repo, flt):
    tu = ("#include \"%s\"\ntemplate class romea::core::WrappableGrid<int, 2>;\n"
          "template class romea::core::WrappableGrid<int, 3>;\n" % WG)
    cmd = ["clang++", "-std=c++17", "-DNDEBUG", "-fsyntax-only", "-w", "-I" + os.path.join(repo, "include"),
           "-I/usr/include/eigen3", "-Xclang", "-ast-dump=json", "-Xclang", "-ast-dump-filter=" + flt, "-x", "c++", "-"]
    p = subprocess.run(cmd, input=tu, capture_output=True, text=True, timeout=300)
    if p.returncode != 0:
        raise Unsupported("clang failed: " + p.stderr[-400:])
    s, dec, i, objs = p.stdout, json.JSONDecoder(), 0, []
    while i < len(s):
        if s[i] != "{":
            j = s.find("\n", i)
            i = len(s) if j < 0 else j + 1
            continue
        o, i = dec.raw_decode(s, i)
        objs.append(o)
    return objs


def kids(n):
    return [c for c in n.get("inner", []) if isinstance(c, dict)]


def methods_of(objs, cls, dim):
    """{name: [nodes with a body]} of the instantiation cls<int, dim>"""
    res = {}

    def spec_dim(n):
        vals = [c.get("value") for c in kids(n) if c.get("kind") == "TemplateArgument" and "value" in c]
        return int(vals[0]) if vals else None

    def walk(n):
        if n.get("kind") == "ClassTemplateSpecializationDecl" and n.get("name") == cls and spec_dim(n) == dim:
            for c in kids(n):
                if c.get("kind") in ("CXXMethodDecl", "CXXConstructorDecl") and \
                        (any(k.get("kind") == "CompoundStmt" for k in kids(c))):
                    res.setdefault(c.get("name"), []).append(c)
        for c in kids(n):
            walk(c)
    for o in objs:
        walk(o)
    return res


def ty_of(n):
    t = n.get("type", {})
    q = (t.get("desugaredQualType") or t.get("qualType") or "").replace("const", "").replace("&", "").strip()
    if q in ("unsigned long", "size_t", "std::size_t") or q.endswith("::Scalar") and "unsigned long" in q:
        return "U64"
    if q == "int":
        return "I32"
    raise Unsupported("type %r" % q)


class Tr:
    def __init__(self, dim, lin_name=None, methods=None):
        self.dim = dim
        self.lin_name = lin_name      # Coq name of the translated computeCellLinearIndex_ (callable from statements)
        self.methods = methods or {}
        self.alias = {}               # reference local -> ("var", coq var) | ("expr", coq expr)
        self.vecs = {}                # vector name -> ("var", ctor) | ("exprs", [..]) | ("sym", {i: expr})
        self.scal = {}                # scalar local -> coq var
        self.nloc = 0
        self.depth = 0
        self.empty = None             # name of the emptyValue parameter
        self.notes = []

    # ------------------------------------------------------------------ helpers
    def strip(self, n):
        while True:
            k = n.get("kind")
            if k in STRIP and kids(n):
                n = kids(n)[-1]
            elif k == "ImplicitCastExpr" and n.get("castKind") in NOOP_CASTS:
                n = kids(n)[0]
            elif k in ("CXXStaticCastExpr", "CStyleCastExpr", "CXXFunctionalCastExpr") and n.get("castKind") == "NoOp":
                n = kids(n)[-1]               # the conversion itself is the ImplicitCastExpr below it
            else:
                return n

    def opname(self, n):
        if n.get("kind") != "CXXOperatorCallExpr":
            return None
        return self.strip(kids(n)[0]).get("referencedDecl", {}).get("name")

    def int_lit(self, n):
        n = self.strip(n)
        while n.get("kind") == "ImplicitCastExpr" and n.get("castKind") == "IntegralCast":
            n = self.strip(kids(n)[0])
        if n.get("kind") == "IntegerLiteral":
            return int(n["value"])
        return None

    def member_name(self, n):
        """this->m  ->  m"""
        n = self.strip(n)
        if n.get("kind") == "MemberExpr" and self.strip(kids(n)[0]).get("kind") == "CXXThisExpr":
            return n.get("name")
        return None

    def component(self, n):
        """v[i] / v(i) with a literal i: ("var", coq var) or ("expr", coq expr); None when n is not such an access"""
        if self.opname(n) not in ("operator[]", "operator()"):
            return None
        a = kids(n)
        if len(a) != 3:
            return None
        i = self.int_lit(a[2])
        base = self.strip(a[1])
        if i is None:
            return None
        m = self.member_name(base)
        if m in MEMBERS:
            return ("var", "(%s %d)" % (MEMBERS[m], i))
        if base.get("kind") == "DeclRefExpr":
            nm = base["referencedDecl"]["name"]
            if nm in self.vecs:
                kind, v = self.vecs[nm]
                if kind == "var":
                    return ("var", "(%s %d)" % (v, i))
                if kind == "exprs":
                    if i >= len(v):
                        raise Unsupported("component %d of %s" % (i, nm))
                    return ("expr", v[i])
                if kind == "sym":
                    return ("symw", (nm, i))
        return None

    def lval(self, n):
        n = self.strip(n)
        if n.get("kind") == "DeclRefExpr":
            nm = n["referencedDecl"]["name"]
            if nm in self.alias:
                kind, v = self.alias[nm]
                if kind != "var":
                    raise Unsupported("assignment through %s" % nm)
                return v
            if nm in self.scal:
                return self.scal[nm]
            raise Unsupported("variable %s" % nm)
        c = self.component(n)
        if c and c[0] == "var":
            return c[1]
        raise Unsupported("lvalue %s" % n.get("kind"))

    # ------------------------------------------------------------------ expressions
    def expr(self, n):
        n = self.strip(n)
        k = n.get("kind")
        if k == "ImplicitCastExpr" and n.get("castKind") == "IntegralCast":
            return "(ECast %s %s)" % (ty_of(n), self.expr(kids(n)[0]))
        if k == "ImplicitCastExpr" and n.get("castKind") == "IntegralToBoolean":
            return self.expr(kids(n)[0])           # used as a condition: non-zero
        if k in ("CXXStaticCastExpr", "CStyleCastExpr", "CXXFunctionalCastExpr"):
            inner = kids(n)[-1]
            if n.get("castKind") == "IntegralCast":
                return "(ECast %s %s)" % (ty_of(n), self.expr(inner))
            raise Unsupported("cast %s" % n.get("castKind"))
        if k == "IntegerLiteral":
            return "(ELit (%d))" % int(n["value"])
        if k == "BinaryOperator" and n.get("opcode") in ("+", "-", "*", "%", "<", ">"):
            a, b = kids(n)
            op = {"+": "Add", "-": "Sub", "*": "Mul", "%": "Rem", "<": "Lt", ">": "Gt"}[n["opcode"]]
            t = ty_of(n) if n["opcode"] in "+-*%" else ty_of(a)
            return "(EBin %s %s %s %s)" % (op, t, self.expr(a), self.expr(b))
        if k == "DeclRefExpr":
            nm = n["referencedDecl"]["name"]
            if nm in self.alias and self.alias[nm][0] == "expr":
                return self.alias[nm][1]
            return "(EVar %s)" % self.lval(n)
        if k == "CXXOperatorCallExpr":
            c = self.component(n)
            if c is None:
                raise Unsupported("operator call %s" % self.opname(n))
            if c[0] == "var":
                return "(EVar %s)" % c[1]
            if c[0] == "expr":
                return c[1]
            nm, i = c[1]
            if i not in self.vecs[nm][1]:
                raise Unsupported("read of unset component %d of %s" % (i, nm))
            return self.vecs[nm][1][i]
        if k == "CXXMemberCallExpr":
            callee = self.strip(kids(n)[0])
            name = callee.get("name")
            args = kids(n)[1:]
            if name == "computeCellLinearIndex_" and len(args) == 1 and self.strip(kids(callee)[0]).get("kind") == "CXXThisExpr":
                if self.lin_name is None:
                    raise Unsupported("computeCellLinearIndex_ was not translated")
                comps = self.vec_expr(args[0])
                return "(ECall %s [%s])" % (self.lin_name, "; ".join(comps))
            if name == "dot" and len(args) == 1:
                a, b = self.vec_expr(kids(callee)[0]), self.vec_expr(args[0])
                if len(a) != self.dim or len(b) != self.dim:
                    raise Unsupported("dot of vectors of size %d, %d" % (len(a), len(b)))
                terms = ["(EBin Mul U64 %s %s)" % (x, y) for x, y in zip(a, b)]
                acc = terms[0]
                for t in terms[1:]:
                    acc = "(EBin Add U64 %s %s)" % (acc, t)
                return acc
            raise Unsupported("member call %s" % name)
        raise Unsupported("expression %s" % k)

    def vec_expr(self, n):
        """a CellIndexes-valued expression -> the list of its DIM component expressions"""
        n = self.strip(n)
        k = n.get("kind")
        if k == "CXXConstructExpr" and len(kids(n)) == 1:
            return self.vec_expr(kids(n)[0])       # copy / conversion from an Eigen expression
        m = self.member_name(n)
        if m in MEMBERS:
            return ["(EVar (%s %d))" % (MEMBERS[m], i) for i in range(self.dim)]
        if k == "DeclRefExpr":
            nm = n["referencedDecl"]["name"]
            if nm in self.vecs:
                kind, v = self.vecs[nm]
                if kind == "var":
                    return ["(EVar (%s %d))" % (v, i) for i in range(self.dim)]
                if kind == "exprs":
                    return list(v)
                if kind == "sym":
                    if sorted(v) != list(range(self.dim)):
                        raise Unsupported("vector %s has components %s set" % (nm, sorted(v)))
                    return [v[i] for i in range(self.dim)]
            raise Unsupported("vector %s" % nm)
        if k == "CallExpr":
            nm = self.strip(kids(n)[0]).get("referencedDecl", {}).get("name")
            if nm in ("Zero", "Ones") and len(kids(n)) == 1:
                return ["(ECast U64 (ELit (%d)))" % (0 if nm == "Zero" else 1)] * self.dim
            raise Unsupported("call %s" % nm)
        if k == "CXXOperatorCallExpr" and self.opname(n) in ("operator-", "operator+") and len(kids(n)) == 3:
            a, b = self.vec_expr(kids(n)[1]), self.vec_expr(kids(n)[2])
            op = "Sub" if self.opname(n) == "operator-" else "Add"
            return ["(EBin %s U64 %s %s)" % (op, x, y) for x, y in zip(a, b)]
        if k == "CXXMemberCallExpr":
            callee = self.strip(kids(n)[0])
            name = callee.get("name")
            args = kids(n)[1:]
            if name == "wrapCellIndexes_" and len(args) == 1 and self.strip(kids(callee)[0]).get("kind") == "CXXThisExpr":
                defs = self.methods.get("wrapCellIndexes_", [])
                if len(defs) != 1:
                    raise Unsupported("wrapCellIndexes_: %d definitions" % len(defs))
                return self.inline_vec_fn(defs[0], self.vec_expr(args[0]))
            raise Unsupported("vector-valued member call %s" % name)
        raise Unsupported("vector expression %s" % k)

    def inline_vec_fn(self, node, arg_comps):
        """a const method  CellIndexes f(const CellIndexes & p) const { CellIndexes w; w[i] = e; ...; return w; }"""
        params = [c for c in kids(node) if c.get("kind") == "ParmVarDecl"]
        if len(params) != 1:
            raise Unsupported("%s: %d parameters" % (node.get("name"), len(params)))
        sub = Tr(self.dim, None, self.methods)
        sub.vecs[params[0]["name"]] = ("exprs", arg_comps)
        body = [c for c in kids(node) if c.get("kind") == "CompoundStmt"][0]
        result = None
        for st in kids(body):
            if result is not None:
                raise Unsupported("statement after return")
            result = sub.sym_stmt(st)
        if result is None:
            raise Unsupported("%s: no return" % node.get("name"))
        return result

    def const_cond(self, n):
        """literal == literal (after template instantiation) -> bool, else None"""
        n = self.strip(n)
        if n.get("kind") == "BinaryOperator" and n.get("opcode") in ("==", "!="):
            a, b = self.int_lit(kids(n)[0]), self.int_lit(kids(n)[1])
            if a is not None and b is not None:
                return (a == b) == (n["opcode"] == "==")
        return None

    def is_noop(self, st):
        if st.get("kind") == "NullStmt":
            return True
        n = st
        while n.get("kind") in ("ParenExpr", "CStyleCastExpr", "CXXStaticCastExpr", "CXXFunctionalCastExpr") and kids(n):
            if n.get("castKind") == "ToVoid":
                return self.strip(kids(n)[0]).get("kind") in ("IntegerLiteral", "DeclRefExpr")
            n = kids(n)[0]
        return False

    def sym_stmt(self, st):
        """symbolic execution of a straight-line vector-building body; returns the returned components or None"""
        k = st.get("kind")
        if self.is_noop(st):
            return None
        if k == "DeclStmt":
            for v in kids(st):
                if v.get("kind") != "VarDecl" or "&" in v["type"]["qualType"]:
                    raise Unsupported("declaration in a vector function")
                init = kids(v)
                if len(init) == 1 and init[0].get("kind") == "CXXConstructExpr" and not kids(init[0]):
                    self.vecs[v["name"]] = ("sym", {})
                else:
                    raise Unsupported("declaration of %s" % v["name"])
            return None
        if k == "CompoundStmt":
            for c in kids(st):
                r = self.sym_stmt(c)
                if r is not None:
                    raise Unsupported("return inside a block")
            return None
        if k == "IfStmt":
            parts = kids(st)
            c = self.const_cond(parts[0])
            if c is None:
                raise Unsupported("non-constant if in a vector function")
            if c:
                return self.sym_stmt(parts[1])
            return self.sym_stmt(parts[2]) if len(parts) > 2 else None
        if k == "BinaryOperator" and st.get("opcode") == "=":
            lhs, rhs = kids(st)
            c = self.component(self.strip(lhs))
            if not c or c[0] != "symw":
                raise Unsupported("assignment target in a vector function")
            nm, i = c[1]
            self.vecs[nm][1][i] = self.expr(rhs)
            return None
        if k == "ReturnStmt":
            return self.vec_expr(kids(st)[0])
        raise Unsupported("statement %s in a vector function" % k)

    # ------------------------------------------------------------------ statements
    @staticmethod
    def seq(sts):
        sts = [s for s in sts if s != "SSkip"]
        if not sts:
            return "SSkip"
        acc = sts[-1]
        for s in reversed(sts[:-1]):
            acc = "(SSeq %s\n %s)" % (s, acc)
        return acc

    def assign(self, n):
        """x = e / buffer_[e] = emptyValue / x++ / x-- as a statement; returns (coq stmt, assigned var or None)"""
        n = self.strip(n)
        k = n.get("kind")
        if k == "BinaryOperator" and n.get("opcode") == "=":
            lhs, rhs = kids(n)
            l = self.strip(lhs)
            if self.opname(l) == "operator[]" and self.member_name(kids(l)[1]) == "buffer_":
                r = self.strip(rhs)
                if r.get("kind") != "DeclRefExpr" or r["referencedDecl"]["name"] != self.empty:
                    raise Unsupported("buffer_ write of something else than the emptyValue parameter")
                return "(SBufSet %s)" % self.expr(kids(l)[2]), None
            v = self.lval(l)
            return "(SSet %s %s)" % (v, self.expr(rhs)), v
        if k == "UnaryOperator" and n.get("opcode") in ("++", "--"):
            v = self.lval(kids(n)[0])
            t = ty_of(n)
            one = "(ELit (1))" if t == "I32" else "(ECast U64 (ELit (1)))"
            return "(SSet %s (EBin %s %s (EVar %s) %s))" % (v, "Add" if n["opcode"] == "++" else "Sub", t, v, one), v
        raise Unsupported("statement %s" % k)

    def stmt(self, st):
        while st.get("kind") == "ExprWithCleanups" and kids(st):
            st = kids(st)[0]
        k = st.get("kind")
        if self.is_noop(st):
            return "SSkip"
        if k == "CompoundStmt":
            return self.seq([self.stmt(c) for c in kids(st)])
        if k == "DeclStmt":
            out = []
            for v in kids(st):
                if v.get("kind") != "VarDecl":
                    raise Unsupported("declaration %s" % v.get("kind"))
                q, init = v["type"]["qualType"], kids(v)
                if "&" in q:
                    if len(init) != 1:
                        raise Unsupported("reference %s without initialiser" % v["name"])
                    i0 = self.strip(init[0])
                    c = self.component(i0)
                    if c and c[0] in ("var", "expr"):
                        self.alias[v["name"]] = c
                    elif i0.get("kind") == "DeclRefExpr":
                        self.alias[v["name"]] = ("var", self.lval(i0))
                    else:
                        raise Unsupported("reference %s bound to %s" % (v["name"], i0.get("kind")))
                elif len(init) == 1 and init[0].get("kind") == "CXXConstructExpr" and not kids(init[0]) and "CellIndexes" in q:
                    if any(kind == "var" and c == "VIdx" for kind, c in self.vecs.values()):
                        raise Unsupported("second local CellIndexes vector")
                    self.vecs[v["name"]] = ("var", "VIdx")
                elif len(init) == 1:
                    ty_of(v)
                    cv = "(VLoc %d)" % self.nloc
                    self.nloc += 1
                    e = self.expr(init[0])
                    self.scal[v["name"]] = cv
                    out.append("(SSet %s %s)" % (cv, e))
                else:
                    raise Unsupported("declaration of %s" % v.get("name"))
            return self.seq(out)
        if k == "IfStmt":
            parts = kids(st)
            if st.get("hasInit") or st.get("hasVar") or len(parts) not in (2, 3):
                raise Unsupported("if statement shape")
            c = self.const_cond(parts[0])
            if c is not None:
                if c:
                    return self.stmt(parts[1])
                return self.stmt(parts[2]) if len(parts) == 3 else "SSkip"
            return "(SIf %s\n %s\n %s)" % (self.expr(parts[0]), self.stmt(parts[1]), self.stmt(parts[2]) if len(parts) == 3 else "SSkip")
        if k == "ForStmt":
            return self.for_stmt(st)
        if k in ("BinaryOperator", "UnaryOperator", "ExprWithCleanups", "ParenExpr"):
            return self.assign(st)[0]
        if k == "CXXOperatorCallExpr" and self.opname(st) == "operator=" and len(kids(st)) == 3:
            l = self.strip(kids(st)[1])
            m = self.member_name(l)
            if m not in MEMBERS:
                raise Unsupported("vector assignment target")
            r = self.vec_expr(kids(st)[2])
            return self.seq(["(SSet (%s %d) %s)" % (MEMBERS[m], i, r[i]) for i in range(self.dim)])
        if k == "CXXMemberCallExpr":
            callee = self.strip(kids(st)[0])
            if callee.get("name") == "resize" and self.member_name(kids(callee)[0]) == "buffer_":
                self.notes.append("buffer_.resize(..) skipped (the buffer length is a hypothesis of the tie theorems)")
                return "SSkip"
            raise Unsupported("call of %s" % callee.get("name"))
        raise Unsupported("statement %s" % k)

    def for_stmt(self, st):
        parts = st.get("inner", [])
        if len(parts) != 5 or parts[1]:
            raise Unsupported("for statement shape")
        init, _, cond, inc, body = parts
        if not init or not cond or not inc:
            raise Unsupported("for loop without init / condition / increment")
        saved_scal = dict(self.scal)
        counter = False
        try:
            if init.get("kind") == "DeclStmt":
                vs = kids(init)
                if len(vs) != 1 or ty_of(vs[0]) != "I32" or "&" in vs[0]["type"]["qualType"] or len(kids(vs[0])) != 1:
                    raise Unsupported("for-init declaration")
                lv = "(VCnt %d)" % self.depth
                self.depth += 1
                counter = True
                init_s = "(SSet %s %s)" % (lv, self.expr(kids(vs[0])[0]))
                self.scal[vs[0]["name"]] = lv
            else:
                init_s, lv = self.assign(init)
                if lv is None:
                    raise Unsupported("for-init is not an assignment to a variable")
            c = self.strip(cond)
            if c.get("kind") != "BinaryOperator" or c.get("opcode") not in ("<", ">"):
                raise Unsupported("loop condition is not `<` or `>`")
            lhs = self.strip(kids(c)[0])
            try:
                lhs_v = self.lval(lhs)
            except Unsupported:
                lhs_v = None
            if lhs_v != lv:
                raise Unsupported("loop condition does not test the loop variable on its left")
            bound = self.expr(kids(c)[1])
            step_s, sv = self.assign(inc)
            i = self.strip(inc)
            if sv != lv or i.get("kind") != "UnaryOperator":
                raise Unsupported("loop increment is not ++/-- of the loop variable")
            up = i["opcode"] == "++"
            if up and c["opcode"] == "<":
                count = "(EBin Sub ZZ %s (EVar %s))" % (bound, lv)
            elif not up and c["opcode"] == ">":
                count = "(EBin Sub ZZ (EVar %s) %s)" % (lv, bound)
            else:
                count = "(ELit (0))"      # direction and condition disagree: only the never-entered loop is modelled
            body_s = self.stmt(body)
            return "(SFor %s %s %s\n %s\n %s)" % (init_s, self.expr(cond), step_s, body_s, count)
        finally:
            self.scal = saved_scal
            if counter:
                self.depth -= 1


def body_of(node):
    b = [c for c in kids(node) if c.get("kind") == "CompoundStmt"]
    if len(b) != 1:
        raise Unsupported("no body")
    return b[0]


def one(defs, what):
    if len(defs) != 1:
        raise Unsupported("%s: %d definitions found" % (what, len(defs)))
    return defs[0]


def return_expr(node):
    sts = [s for s in kids(body_of(node)) if not Tr(0).is_noop(s)]
    if len(sts) != 1 or sts[0].get("kind") != "ReturnStmt":
        raise Unsupported("%s: body is not a single return" % node.get("name"))
    return kids(sts[0])[0]


def generate(repo):
    """-> (text, [(PID, error)])"""
    lines = ["(* GENERATED by translate/tr_C15_wrapgrid.py from the clang AST of the current sources",
             "   (include/%s, Grid.hpp; instantiations WrappableGrid<int, 2> and <int, 3>).  Do not edit. *)" % WG,
             "From Coq Require Import ZArith List.", "From Romea Require Import WrapGridImp.", "Import ListNotations.",
             "Local Open Scope Z_scope.", ""]
    errors = []
    try:
        with ThreadPoolExecutor(max_workers=2) as ex:
            f1 = ex.submit(clang_ast, repo, "romea::core::WrappableGrid")
            f2 = ex.submit(clang_ast, repo, "romea::core::Grid")
            wg_objs, g_objs = f1.result(), f2.result()
    except Exception as e:  # noqa
        return "\n".join(lines + ["(* NOT TRANSLATED: clang failed *)"]) + "\n", [(PID, "clang: %s" % str(e)[:300])]

    def emit(name, typ, fn):
        try:
            t, notes = fn()
            for nt in notes:
                lines.append("(* %s: %s *)" % (name, nt))
            lines.append("Definition %s : %s :=\n %s.\n" % (name, typ, t))
            return True
        except Unsupported as e:
            errors.append((PID, "%s: %s" % (name, e)))
            lines.append("(* %s: NOT TRANSLATED — %s *)\n" % (name, str(e).replace("*)", "* )").replace("(*", "( *")[:300]))
            return False
        except Exception as e:  # noqa — a translator bug or an unexpected AST: fail closed for this definition only
            errors.append((PID, "%s: unexpected AST (%r)" % (name, e)))
            lines.append("(* %s: NOT TRANSLATED — unexpected AST *)\n" % name)
            return False

    for dim in (2, 3):
        ms = methods_of(wg_objs, "WrappableGrid", dim)
        gms = methods_of(g_objs, "Grid", dim)
        lin = "src_linear_index_%dd" % dim
        param = ["(EVar (VArg %d))" % i for i in range(dim)]

        def lin_fn():
            node = one(ms.get("computeCellLinearIndex_", []), "computeCellLinearIndex_")
            ps = [c for c in kids(node) if c.get("kind") == "ParmVarDecl"]
            t = Tr(dim, None, ms)
            t.vecs[ps[0]["name"]] = ("exprs", param)
            return t.expr(return_expr(node)), t.notes
        have_lin = emit(lin, "expr", lin_fn)

        def cell_fn(const):
            def f():
                defs = [d for d in ms.get("operator()", []) if d["type"]["qualType"].rstrip().endswith("const") == const]
                node = one(defs, "operator()")
                ps = [c for c in kids(node) if c.get("kind") == "ParmVarDecl"]
                t = Tr(dim, lin if have_lin else None, ms)
                t.vecs[ps[0]["name"]] = ("exprs", param)
                r = t.strip(return_expr(node))
                if t.opname(r) != "operator[]" or t.member_name(kids(r)[1]) != "buffer_":
                    raise Unsupported("operator() does not return buffer_[..]")
                return t.expr(kids(r)[2]), t.notes
            return f
        emit("src_cell_index_%dd" % dim, "expr", cell_fn(False))
        emit("src_cell_index_const_%dd" % dim, "expr", cell_fn(True))

        def translate_fn():
            node = one(ms.get("translate", []), "translate")
            ps = [c for c in kids(node) if c.get("kind") == "ParmVarDecl"]
            if len(ps) != 2:
                raise Unsupported("translate: %d parameters" % len(ps))
            t = Tr(dim, lin if have_lin else None, ms)
            t.vecs[ps[0]["name"]] = ("var", "VPar")
            t.empty = ps[1]["name"]
            return t.stmt(body_of(node)), t.notes
        emit("src_translate_%dd" % dim, "stmt", translate_fn)

        def ctor_fn():
            node = one(ms.get("WrappableGrid", []), "constructor")
            t = Tr(dim, None, ms)
            out = []
            for c in kids(node):
                if c.get("kind") != "CXXCtorInitializer":
                    continue
                if "baseInit" in c:
                    continue                      # Grid<T, DIM>(numberOfCellAlongAxes): Grid::init, translated below
                m = c.get("anyInit", {}).get("name")
                if m not in MEMBERS:
                    raise Unsupported("initialiser of %s" % m)
                comps = t.vec_expr(kids(c)[0])
                out += ["(SSet (%s %d) %s)" % (MEMBERS[m], i, comps[i]) for i in range(dim)]
            if kids(body_of(node)):
                raise Unsupported("constructor body is not empty")
            return t.seq(out), t.notes
        emit("src_ctor_%dd" % dim, "stmt", ctor_fn)

        def init_fn():
            node = one(gms.get("init", []), "Grid::init")
            ps = [c for c in kids(node) if c.get("kind") == "ParmVarDecl"]
            t = Tr(dim, None, gms)
            t.vecs[ps[0]["name"]] = ("exprs", param)
            return t.stmt(body_of(node)), t.notes
        emit("src_init_%dd" % dim, "stmt", init_fn)
    return "\n".join(lines) + "\n", errors


def generate_to(gen_dir, repo="/repo"):
    try:
        text, errors = generate(repo)
    except Exception as e:  # noqa
        text, errors = "(* tr_C15_wrapgrid.py failed *)\n", [(PID, "translator failed: %r" % e)]
    os.makedirs(gen_dir, exist_ok=True)
    path = os.path.join(gen_dir, "SrcWrapGrid.v")
    old = open(path).read() if os.path.exists(path) else None
    if old != text:
        with open(path, "w") as f:
            f.write(text)
    return errors


if __name__ == "__main__":
    t, e = generate(os.environ.get("VERIF_REPO", "/repo"))
    print(t)
    for x in e:
        print("%s: %s" % x, file=sys.stderr)
    sys.exit(2 if e else 0)
