#!/usr/bin/env python3
"""tr_C03_ctor.py — plug-in translator of C03: the four CONSTRUCTORS of LambertConverter, regenerated from the clang JSON AST of
src/geodesy/LambertConverter.cpp (+ the class definition in LambertConverter.hpp) into coq/gen/SrcLambertCtor.v: which projection
constants and which eccentricity a converter built from secant / tangent parameters and an ellipsoid ends up holding.

    src_ctor_<which> N F_secant F_tangent <parameters> : T * T * T * T * T * T      = the data members, by name:
                                                                                      (c_, e_, longitude0_, n_, xs_, ys_)
  which = scalars     LambertConverter(longitude0, n, c, xs, ys, e)                  (member initialisers)
          projection  LambertConverter(const ProjectionParameters &, const double & e)          (delegates)
          secant      LambertConverter(const SecantProjectionParameters &, const EarthEllipsoid &)   (delegates)
          tangent     LambertConverter(const TangentProjectionParameters &, const EarthEllipsoid &)  (delegates)
The two static overloads of computeProjectionParameters are the function arguments F_secant / F_tangent (their bodies are
translated by srcfuns.py and tied in SrcTie.v: C03_source_tie_projection_parameters); coq/SrcTieC03Ctor.v instantiates them with
LambertModel.secant_projection / tangent_projection and proves the generated terms equal to the fields the model's converter has.

Symbolic execution: translate/imptrans.py used as a library (a private instance, its table of sorts extended; `Lam` subclasses
`Imp`).  Vocabulary: double -> T;  ProjectionParameters -> LambertModel.projection (longitude0, n, c, xs, ys = p_lon0, p_n, p_c,
p_xs, p_ys);  SecantProjectionParameters -> secant_params (sp_*);  TangentProjectionParameters -> tangent_params (tp_*);
EarthEllipsoid -> GeodesyModel.ellipsoid (a, b, e2, e = el_a, el_b, el_e2, el_e);  a delegating initialiser = the call of the
constructor clang resolved it to (by its parameter types).
Fails closed for C03 only: the class must have exactly the six double data members of the model (no base, nothing mutable /
in-class initialised) and exactly these four constructors; each constructor must initialise every member and read none."""
import importlib.util
import os
import re
import sys

HERE = os.path.dirname(os.path.abspath(__file__))
if HERE not in sys.path:
    sys.path.insert(0, HERE)
import srcfuns   # noqa: E402

_spec = importlib.util.spec_from_file_location("imptrans_c03", os.path.join(HERE, "imptrans.py"))
I = importlib.util.module_from_spec(_spec)
_spec.loader.exec_module(I)
Unsupported, Val = I.Unsupported, I.Val

PROP = "C03"
SRC = "src/geodesy/LambertConverter.cpp"
CLASS = "LambertConverter"
FILTER = "romea::core::LambertConverter"
OUT = "SrcLambertCtor.v"

I.COQTY.update({"proj": "(@projection T)", "sec": "(@secant_params T)", "tan": "(@tangent_params T)", "ell": "(@ellipsoid T)"})
I.RESERVED.update({"projection", "secant_params", "tangent_params", "ellipsoid", "F_secant", "F_tangent", "mkProj", "mkSec", "mkTan",
                   "p_lon0", "p_n", "p_c", "p_xs", "p_ys", "el_a", "el_b", "el_e", "el_e2",
                   "in", "at", "as", "let", "fun", "then", "match", "with", "end", "fix", "cofix", "forall", "exists", "exists2",
                   "Type", "Set", "Prop", "SProp", "using", "where", "IF", "mod"})
OVR = {}
for pre in ("LambertConverter::", ""):
    OVR[pre + "ProjectionParameters"] = "proj"
    OVR[pre + "SecantProjectionParameters"] = "sec"
    OVR[pre + "TangentProjectionParameters"] = "tan"
OVR["EarthEllipsoid"] = "ell"

FIELDS = ["c_", "e_", "longitude0_", "n_", "xs_", "ys_"]           # by name: the order of the generated tuples
READ = {("proj", "longitude0"): "p_lon0", ("proj", "n"): "p_n", ("proj", "c"): "p_c", ("proj", "xs"): "p_xs", ("proj", "ys"): "p_ys",
        ("sec", "longitude0"): "sp_lon0", ("sec", "latitude0"): "sp_lat0", ("sec", "latitude1"): "sp_lat1", ("sec", "latitude2"): "sp_lat2",
        ("sec", "x0"): "sp_x0", ("sec", "y0"): "sp_y0",
        ("tan", "latitude0"): "tp_lat0", ("tan", "longitude0"): "tp_lon0", ("tan", "k0"): "tp_k0", ("tan", "x0"): "tp_x0", ("tan", "y0"): "tp_y0",
        ("ell", "a"): "el_a", ("ell", "b"): "el_b", ("ell", "e2"): "el_e2", ("ell", "e"): "el_e"}
FPARAMS = {"F_secant": "(@secant_params T -> @ellipsoid T -> @projection T)", "F_tangent": "(@tangent_params T -> @ellipsoid T -> @projection T)"}
FARGS = " ".join(sorted(FPARAMS))
CTORS = {("T",) * 6: "scalars", ("proj", "T"): "projection", ("sec", "ell"): "secant", ("tan", "ell"): "tangent"}


class NotYet(Unsupported):
    pass


def sort_of(ty):
    return I.sort_of_type(ty, OVR)


def param_sorts(node):
    return tuple(sort_of(c.get("type", {}).get("qualType", "")) or "?" + c.get("type", {}).get("qualType", "")
                 for c in node.get("inner", []) if c.get("kind") == "ParmVarDecl")


def sorts_of_signature(qual):
    """'void (const A &, const double &)' -> sorts of the parameters"""
    m = re.match(r"^\s*void\s*\((.*)\)\s*(noexcept)?\s*$", qual or "")
    if not m:
        raise Unsupported("constructor type %s" % qual)
    inner = m.group(1).strip()
    if not inner:
        return ()
    return tuple(sort_of(a) or "?" + a.strip() for a in inner.split(","))


class Lam(I.Imp):
    def __init__(self, node, known):
        super().__init__(node, {}, OVR, {}, {})
        self.known_ctors = known
        self.fparams = dict(FPARAMS)
        for p, _ in self.params:
            if p in FIELDS or re.match(r"^(c|call|r)_\d+$", p) or p.startswith("l_") or \
                    any(re.match("^" + re.escape(f) + r"\d+$", p) for f in FIELDS):
                raise Unsupported("the name %s of a parameter is a field or looks like a generated name" % p)

    def loc(self, n, env):
        root, steps = self.path(n, env)
        if root == ("this",):
            if len(steps) != 1 or steps[0][0] != "field" or steps[0][1] not in FIELDS:
                raise Unsupported("access to %s through this" % (steps,))
            return steps[0][1], "T", None, "T"
        var, rest = root[1], tuple(steps)
        if var not in env:
            raise Unsupported("unknown variable %s" % var)
        vs = env[var].sort
        if not rest:
            return var, vs, None, vs
        if len(rest) == 1 and rest[0][0] == "field" and (vs, rest[0][1]) in READ:
            return var, vs, rest[0][1], "T"
        raise Unsupported("access path %s on a %s" % (rest, vs))

    def read(self, n, env):
        var, vs, comp, cs = self.loc(n, env)
        v = self.getvar(env, var, vs)
        return v if comp is None else Val("(%s %s)" % (READ[(vs, comp)], v.term), "T")

    def write(self, n, env, val):
        var, vs, comp, cs = self.loc(n, env)
        if comp is not None or var in dict(self.params):
            raise Unsupported("assignment to %s" % var)
        if val is None or val.sort != vs:
            raise Unsupported("a value of sort %s assigned to %s" % (getattr(val, "sort", None), var))
        self.assign(env, var, val)

    def ev(self, n, env):
        if n.get("kind") == "CallExpr" and self.callee_name(n) == "computeProjectionParameters":
            xs = [self.ev(a, env) for a in self.args_of(n, 1)]
            ss = [x.sort for x in xs]
            if ss == ["sec", "ell"]:
                return Val("(F_secant %s %s)" % (xs[0].term, xs[1].term), "proj")
            if ss == ["tan", "ell"]:
                return Val("(F_tangent %s %s)" % (xs[0].term, xs[1].term), "proj")
            raise Unsupported("computeProjectionParameters on %s" % ss)
        return super().ev(n, env)

    def mcall(self, n, env, want_value):
        raise Unsupported("member call in a constructor")

    def stmt(self, st, env):
        if st.get("kind") == "CXXCtorInitializer":
            inner = [c for c in st.get("inner", []) if isinstance(c, dict)]
            if len(inner) != 1:
                raise Unsupported("constructor initialiser shape")
            if "delegatingInit" in st:
                ce = inner[0]
                while ce.get("kind") in I.WRAPPERS and ce.get("inner"):
                    ce = ce["inner"][-1]
                if ce.get("kind") != "CXXConstructExpr":
                    raise Unsupported("delegating initialiser %s" % ce.get("kind"))
                key = sorts_of_signature(ce.get("ctorType", {}).get("qualType"))
                if key not in CTORS:
                    raise Unsupported("delegation to an unknown constructor %s" % (key,))
                if key not in self.known_ctors:
                    raise NotYet("delegation to the constructor %s, which is not translated" % CTORS[key])
                args = self.args_of(ce, 0)
                self.call_known(self.known_ctors[key], [self.ev(a, env) for a in args], env)
                return None
            if "anyInit" not in st:
                raise Unsupported("base-class initialiser")
            f = st["anyInit"].get("name")
            if f not in FIELDS:
                raise Unsupported("initialiser of the unknown field %s" % f)
            val = self.ev(inner[0], env)
            if val.sort != "T":
                raise Unsupported("initialiser of %s of sort %s" % (f, val.sort))
            self.assign(env, f, val)
            return None
        if st.get("kind") == "DeclStmt":
            for v in st.get("inner", []):
                if v.get("name") in FIELDS or v.get("storageClass") or v.get("tls"):
                    raise Unsupported("local %s (name of a field / static)" % v.get("name"))
        return super().stmt(st, env)


def check_class(objs):
    recs = [o for o in objs if o.get("kind") == "CXXRecordDecl" and o.get("name") == CLASS and o.get("completeDefinition")]
    if len(recs) != 1:
        raise Unsupported("%d definitions of class %s" % (len(recs), CLASS))
    rec = recs[0]
    if rec.get("bases"):
        raise Unsupported("class %s has a base class" % CLASS)
    fields, ctors = {}, {}
    for c in rec.get("inner", []):
        k = c.get("kind")
        if c.get("isImplicit"):
            continue
        if k == "FieldDecl":
            if c.get("mutable") or c.get("hasInClassInitializer"):
                raise Unsupported("field %s is mutable / has an in-class initialiser" % c.get("name"))
            fields[c.get("name")] = c.get("type", {}).get("qualType", "")
        elif k == "VarDecl":
            raise Unsupported("static data member %s" % c.get("name"))
        elif k == "CXXConstructorDecl":
            if c.get("explicitlyDefaulted") or c.get("explicitlyDeleted"):
                raise Unsupported("defaulted / deleted constructor")
            key = param_sorts(c)
            if key not in CTORS:
                raise Unsupported("unknown constructor %s%s" % (CLASS, c.get("type", {}).get("qualType", "")))
            ctors[c.get("id")] = key
    if sorted(fields) != FIELDS or any(t != "double" for t in fields.values()):
        raise Unsupported("the data members of %s are not the six doubles of the model: %s" % (CLASS, sorted(fields.items())))
    missing = sorted(CTORS[k] for k in set(CTORS) - set(ctors.values()))
    if missing:
        raise Unsupported("constructors not declared: %s" % missing)
    return ctors


def find_defs(objs, ids):
    defs = {}

    def walk(n):
        k = n.get("kind")
        if k == "CXXConstructorDecl" and not n.get("isImplicit") and n.get("name") == CLASS and I.has_body(n):
            key = ids.get(n.get("id")) or ids.get(n.get("previousDecl"))
            if key is None:
                raise Unsupported("definition of an unknown constructor")
            if key in defs:
                raise Unsupported("two definitions of the constructor %s" % CTORS[key])
            defs[key] = n
            return
        if k in ("CXXMethodDecl", "FunctionDecl", "ClassTemplateDecl", "FunctionTemplateDecl"):
            return
        for c in n.get("inner", []):
            if isinstance(c, dict):
                walk(c)
    for o in objs:
        walk(o)
    return defs


def ctor_node(node):
    inits = [c for c in node.get("inner", []) if c.get("kind") == "CXXCtorInitializer"]
    comp = [c for c in node.get("inner", []) if c.get("kind") == "CompoundStmt"]
    if len(comp) != 1:
        raise Unsupported("constructor without a body")
    return {"kind": "FunctionDecl", "name": node.get("name"),
            "inner": [c for c in node.get("inner", []) if c.get("kind") == "ParmVarDecl"] +
                     [{"kind": "CompoundStmt", "inner": inits + list(comp[0].get("inner", []))}]}


HEAD = """(* GENERATED by translate/tr_C03_ctor.py from the clang AST of the current %s. Do not edit.
   The four constructors of LambertConverter: arguments = F_secant, F_tangent (the two computeProjectionParameters overloads),
   the parameters; result = the data members by name (c_, e_, longitude0_, n_, xs_, ys_). *)
From Coq Require Import ZArith List Bool.
From Romea Require Import Num GeodesyModel LambertModel.
Import ListNotations.

""" % SRC


def generate(repo):
    objs = srcfuns.load_uncached(repo, SRC, FILTER, "")
    ids = check_class(objs)
    defs = find_defs(objs, ids)
    missing = sorted(CTORS[k] for k in set(CTORS) - set(defs))
    if missing:
        raise Unsupported("constructors without a definition: %s" % missing)
    out, errors, known, last = [HEAD], [], {}, {}
    pending = sorted(CTORS, key=lambda k: CTORS[k])
    progress = True
    while pending and progress:
        progress = False
        for key in list(pending):
            suffix, node = CTORS[key], defs[key]
            try:
                f = Lam(ctor_node(node), known)
                text, kn = f.translate("src_ctor_" + suffix, "%s  %s::%s%s" % (SRC, CLASS, CLASS, node.get("type", {}).get("qualType", "")))
                if kn.reads or list(kn.writes) != FIELDS or kn.ret_sort or kn.partial:
                    raise Unsupported("the constructor reads %s and initialises %s: every member must be initialised, none read"
                                      % ([r for r, _ in kn.reads], list(kn.writes)))
                head = "Definition src_ctor_%s " % suffix
                if text.count(head) != 1:
                    raise Unsupported("internal: definition header not found")
                out.append(text.replace(head, head + "{T : Type} (N : NumOps T) "))
                kn.coq = "(src_ctor_%s N %s)" % (suffix, FARGS)
                known[key] = kn
                pending.remove(key)
                progress = True
            except NotYet as e:
                last[key] = e
            except Unsupported as e:
                pending.remove(key)
                errors.append((PROP, "src_ctor_%s (%s): %s" % (suffix, SRC, e)))
                out.append(I.not_translated("src_ctor_" + suffix, SRC, e))
            except Exception as e:  # noqa — never raise
                pending.remove(key)
                errors.append((PROP, "src_ctor_%s (%s): internal error %r" % (suffix, SRC, e)))
                out.append(I.not_translated("src_ctor_" + suffix, SRC, "internal error %r" % (e,)))
    for key in pending:
        e = last.get(key, "not translated")
        errors.append((PROP, "src_ctor_%s (%s): %s" % (CTORS[key], SRC, e)))
        out.append(I.not_translated("src_ctor_" + CTORS[key], SRC, e))
    return "\n".join(out), errors


def generate_to(gen_dir, repo="/repo"):
    os.makedirs(gen_dir, exist_ok=True)
    try:
        text, errors = generate(repo)
    except Exception as e:  # noqa — nothing could be generated: leave no stale file behind
        I.emit_file(os.path.join(gen_dir, OUT), "(* NOT GENERATED: translate/tr_C03_ctor.py refused %s: %s *)\n"
                    % (SRC, str(e).replace("*)", "* )").replace("(*", "( *")[:600]))
        return [(PROP, "%s: %s" % (SRC, e) if isinstance(e, Unsupported) else "translator failed: %r" % (e,))]
    I.emit_file(os.path.join(gen_dir, OUT), text)
    return errors


if __name__ == "__main__":
    try:
        t, e = generate(os.environ.get("VERIF_REPO", "/repo"))
    except Unsupported as ex:
        print("refused: %s" % ex, file=sys.stderr)
        sys.exit(2)
    print(t)
    for x in e:
        print("%s: %s" % x, file=sys.stderr)
    sys.exit(2 if e else 0)
