#!/usr/bin/env python3
"""tr_C14_raycast.py — plug-in translator for C14: src/containers/grid/RayTracing.cpp -> coq/gen/SrcRayCast.v.

Regenerates, from the clang AST of the current sources, Gallina terms for
  * the four explicit specialisations RayCasting<float|double, 2|3>::next   (src_next_f2, src_next_d2, src_next_f3, src_next_d3:
    one term per specialisation — they are four separately written functions, a change in one of them must show), and
  * the template members computeRayNumberOfCells, setOriginPoint, setEndPoint, cast(), cast(end), cast(origin, end)
    (instantiations <float|double, 2|3>; the float and the double instantiation of the same template must give the same
    term, which is emitted once per DIM; the while loop of cast() becomes a local fix on a fuel argument),
    with the calls into GridIndexMapping (computeCellIndexes, computeCellCenterPosition, getCellResolution) inlined from
    src/containers/grid/GridIndexMapping.cpp.
coq/SrcTieC14.v / SrcTieC14Cast.v prove the generated terms equal to RayCastModel.next / ncells / set_origin / set_end /
cast_cells / after_cast for EVERY numeric dictionary.  Anything the symbolic executor (eigsym.py) cannot handle is left out and reported for C14 only."""
import os
import sys

HERE = os.path.dirname(os.path.abspath(__file__))
sys.path.insert(0, HERE)
import eigsym  # noqa: E402
from eigsym import Unsupported  # noqa: E402

RT = "src/containers/grid/RayTracing.cpp"
GM = "src/containers/grid/GridIndexMapping.cpp"
RT_H = "include/romea_core_common/containers/grid/RayTracing.hpp"
GM_H = "include/romea_core_common/containers/grid/GridIndexMapping.hpp"
INSTS = [("float", 2), ("double", 2), ("float", 3), ("double", 3)]
LETTER = {"float": "f", "double": "d"}
# (coq stem, method, number of parameters)
TEMPLATE_MEMBERS = [("src_ncells", "computeRayNumberOfCells", 0), ("src_setOrigin", "setOriginPoint", 1),
                    ("src_setEnd", "setEndPoint", 1), ("src_cast", "cast", 0), ("src_castE", "cast", 1), ("src_castOE", "cast", 2)]


def load(repo):
    from concurrent.futures import ThreadPoolExecutor
    with ThreadPoolExecutor(max_workers=2) as ex:
        a = ex.submit(eigsym.load_tu, repo, RT, "romea::core::RayCasting", (RT_H, GM_H))
        b = ex.submit(eigsym.load_tu, repo, GM, "romea::core::GridIndexMapping", (GM_H,))
        ra, rb = a.result(), b.result()
    return {"RayCasting": eigsym.TU(ra, "RayCasting", repo, RT), "GridIndexMapping": eigsym.TU(rb, "GridIndexMapping", repo, GM)}


def generate(repo):
    lines = [eigsym.HEAD % "tr_C14_raycast.py"]
    errors = []
    try:
        tus = load(repo)
    except Unsupported as e:
        return "\n".join(lines + ["(* NOT TRANSLATED: %s *)" % clean(str(e)), "End Src."]) + "\n", [("C14", str(e))]

    def emit(name, fn):
        try:
            text, comment = fn()
            lines.append("(* %s *)\n%s\n" % (comment, text))
        except Unsupported as e:
            errors.append(("C14", "%s: %s" % (name, e)))
            lines.append("(* %s: NOT TRANSLATED — %s *)\n" % (name, clean(str(e))))
        except Exception as e:  # noqa — a shape of AST the executor did not expect: fail closed for this function
            errors.append(("C14", "%s: internal error %r" % (name, e)))
            lines.append("(* %s: NOT TRANSLATED — internal error *)\n" % name)

    for sc, dim in INSTS:
        nm = "src_next_%s%d" % (LETTER[sc], dim)
        emit(nm, lambda sc=sc, dim=dim, nm=nm: annotate(eigsym.translate(tus, "RayCasting", "next", sc, dim, nm, nargs=1),
                                                          "%s: RayCasting<%s, %d>::next (explicit specialisation)" % (RT, sc, dim)))
    for stem, meth, na in TEMPLATE_MEMBERS:
        for dim in (2, 3):
            nm = "%s_%d" % (stem, dim)

            def both(meth=meth, na=na, dim=dim, nm=nm):
                tf = eigsym.translate(tus, "RayCasting", meth, "float", dim, nm, nargs=na)
                td = eigsym.translate(tus, "RayCasting", meth, "double", dim, nm, nargs=na)
                if tf != td:
                    raise Unsupported("the float and double instantiations give different terms")
                return annotate(td, "%s: RayCasting<Scalar, %d>::%s (template member; the <float> and <double> instantiations give this same term)" % (RT, dim, meth))
            emit(nm, both)
    return "\n".join(lines + ["End Src."]) + "\n", errors


def annotate(tc, what):
    return tc[0], what + "\n   " + tc[1]


def clean(s):
    return s.replace("*)", "* )").replace("(*", "( *")[:300]


def generate_to(gen_dir, repo):
    text, errors = generate(repo)
    os.makedirs(gen_dir, exist_ok=True)
    eigsym.write_if_changed(os.path.join(gen_dir, "SrcRayCast.v"), text)
    return errors


if __name__ == "__main__":
    t, e = generate(os.environ.get("VERIF_REPO", "/repo"))
    print(t)
    for x in e:
        print("%s: %s" % x, file=sys.stderr)
    sys.exit(2 if e else 0)
