#!/usr/bin/env python3
"""tr_C06_ransac.py — plug-in source translator of property C06: the scalar / control code of RANSAC and of the ICP loop
->  Gallina terms (coq/gen/SrcRansac.v), regenerated from the clang JSON AST of the current sources on every run.
coq/SrcTieC06.v proves the generated terms equal to the models the C06 theorems are about (RansacModel.v, IcpModel.v).

Units translated
  RansacIterations::RansacIterations / update / get    (src/regression/ransac/RansacIterations.cpp)
        an object is the tuple of its data members in initialisation order; a method maps the tuple (and its
        parameters) to the new tuple / to its return value
  Ransac::estimateModel                                 (src/regression/ransac/Ransac.cpp)
        a program over an abstract RansacModel: the object behind `ransacModel_` is a state `ms : S` threaded through the
        calls; each virtual method called becomes an argument of the generated function (const methods: S -> ret,
        the others: args -> S -> S * ret or S for void); `while` becomes a local fix on a fuel argument (None = still
        running when the fuel is exhausted); the result is option (return value * final object)
  FindRigidTransformationByICP::find, the block guarded by `if (ransac_.estimateModel())`  (exit logic)
        matrices are opaque values of type list T; `(A - B).array().abs().sum()` becomes mat_absdiff N A B; the
        accessors of ransacModel_ become arguments; the block's effect on the three loop variables plus "did it break".

Typed translation (this is what srcfuns.py does not do): size_t / int expressions live in Z, double / float in T;
  integer -> double conversion        nofZ N e
  double  -> integer conversion       ntruncZ N e                     (C++ truncation toward zero)
  integer -> float conversion         f32round e   (RansacModel.v)    a float holding an integer is represented by that
                                                                      integer; float -> integer is then the identity
  literal 1.0 / 0.0                   n_one N / nzero N               other floating literals: nofDec N m e
  std::max(a,b) / std::min(a,b)       nmax2 N a b / nmin2 N a b       numeric_limits<double>::epsilon(): nepsilon N
  std::ceil / std::floor              nceil N / nfloor N              log, pow, sqrt, ...: as in srcfuns.py
Anything else is refused (fail closed): the function is left out of the generated file, the tie lemma about it stops
compiling, and the error is reported for property C06 only.  Never raises."""
import os
import re
import sys

sys.path.insert(0, os.path.dirname(os.path.abspath(__file__)))
import srcfuns                                            # noqa: E402
from srcfuns import Unsupported, dec_pair, load           # noqa: E402

PID = "C06"
OUT = "SrcRansac.v"
IT_SRC = "src/regression/ransac/RansacIterations.cpp"
RS_SRC = "src/regression/ransac/Ransac.cpp"
ICP_SRC = "src/transform/estimation/FindRigidTransformationByICP.cpp"

PASS_KINDS = ("ParenExpr", "MaterializeTemporaryExpr", "ExprWithCleanups", "CXXBindTemporaryExpr", "ConstantExpr")
CAST_KINDS = ("ImplicitCastExpr", "CXXFunctionalCastExpr", "CXXStaticCastExpr", "CStyleCastExpr")
UNARY = dict(srcfuns.UNARY)
UNARY.update({"ceil": "nceil", "floor": "nfloor"})
BINARY = dict(srcfuns.BINARY)
ARITH_T = {"+": "nadd", "-": "nsub", "*": "nmul", "/": "ndiv"}
ARITH_Z = {"+": "Z.add", "-": "Z.sub", "*": "Z.mul"}


def zl(z):
    return "(%d)%%Z" % z


def ctype(qual):
    """C++ type -> 'Z' | 'T' | 'F' (float) | 'B' | ('obj', class) | None"""
    q = qual.replace("const", "").replace("&", "").replace("volatile", "").strip()
    q = re.sub(r"\s+", " ", q)
    if q in ("size_t", "std::size_t", "int", "unsigned int", "long", "unsigned long", "unsigned", "long long", "unsigned long long"):
        return "Z"
    if q == "double":
        return "T"
    if q == "float":
        return "F"
    if q in ("bool", "_Bool"):
        return "B"
    if q == "void":
        return "V"
    return ("obj", q)


def coq_ty(t):
    return {"Z": "Z", "T": "T", "F": "T", "ZF": "Z", "B": "bool"}[t]


def tup(xs):
    return xs[0] if len(xs) == 1 else "(" + ", ".join(xs) + ")"


def pat(xs):
    return xs[0] if len(xs) == 1 else "'(" + ", ".join(xs) + ")"


class Ctx:
    """what the translator knows about the translation unit"""

    def __init__(self, repo):
        self.repo = repo
        self.classes = {}       # class name -> {"fields": [(name, ty)], "methods": {name: (coq name, is_const, ret ty, [param tys])}}
        self.ifaces = {}        # member name (pointer to abstract class / model object) -> {"methods": {name: (const, ret, [ptys])}, "order": [...]}
        self.const_cache = {}

    def constant(self, src, name, decl_id, tr):
        key = (src, name)
        if key not in self.const_cache:
            vds = [o for o in load(self.repo, src, name) if o.get("kind") == "VarDecl" and o.get("name") == name]
            if decl_id is not None:
                same = [o for o in vds if o.get("id") == decl_id]
                vds = same or vds
            if len(vds) != 1 or not vds[0].get("inner"):
                raise Unsupported("constant %s: %d definitions" % (name, len(vds)))
            ty = ctype(vds[0].get("type", {}).get("qualType", ""))
            sub = Tr({"inner": []}, self, src)
            term, ety = sub.ex(vds[0]["inner"][-1], {})
            if sub.pre:
                raise Unsupported("constant %s with effects" % name)
            self.const_cache[key] = sub.coerce(term, ety, ty)
        return self.const_cache[key]


class Tr:
    def __init__(self, node, ctx, src, this_class=None, model_member=None):
        self.node, self.ctx, self.src = node, ctx, src
        self.this_class = this_class            # class whose members are the tuple state (method / ctor mode)
        self.model_member = model_member        # member that points to the abstract model object
        self.n = 0
        self.pre = []                            # (pattern, term) bindings to emit before the current statement
        self.free = {}                           # free member variables read: coq name -> coq type
        self.used_iface = []                     # interface methods called (names)
        self.partial = False
        self.ret_ty = None

    # -------------------------------------------------------------------------------------------- helpers
    def vtype(self, qual):
        return ctype(qual)

    def fresh(self, base):
        self.n += 1
        base = re.sub(r"[^A-Za-z0-9_]", "_", base).rstrip("_") or "v"
        return "%s_%d" % (base, self.n)

    def strip(self, n):
        while n.get("kind") in PASS_KINDS and n.get("inner"):
            n = n["inner"][-1]
        return n

    def strip_all(self, n):
        while n.get("kind") in PASS_KINDS + CAST_KINDS and n.get("inner"):
            n = n["inner"][-1]
        return n

    def coerce(self, term, have, want):
        """implicit reading of a value of representation `have` where `want` is declared"""
        if have == want or want is None:
            return term
        if have == "Z" and want in ("T",):
            return "(nofZ N %s)" % term
        if have == "F" and want == "T" or have == "T" and want == "F":
            return term
        if have == "ZF" and want == "F":
            return term
        raise Unsupported("conversion %s -> %s" % (have, want))

    def flush(self, body):
        """wrap the pending bindings around a term"""
        for p, t in reversed(self.pre):
            body = "let %s := %s in %s" % (p, t, body)
        self.pre = []
        return body

    # -------------------------------------------------------------------------------------------- expressions
    def ex(self, n, env):
        """-> (term, type) ; side effects are appended to self.pre and recorded in env"""
        n = self.strip(n)
        k = n.get("kind")
        if k in CAST_KINDS:
            ck = n.get("castKind")
            inner = n["inner"][-1]
            if ck in ("LValueToRValue", "NoOp", "IntegralCast", "FunctionToPointerDecay", "ConstructorConversion", "UserDefinedConversion"):
                if ck == "IntegralCast" and ctype(n.get("type", {}).get("qualType", "")) == "B":
                    raise Unsupported("integer used as a boolean")
                return self.ex(inner, env)
            t, ty = self.ex(inner, env)
            target = ctype(n.get("type", {}).get("qualType", ""))
            if ck == "IntegralToFloating":
                if ty != "Z":
                    raise Unsupported("IntegralToFloating of %s" % ty)
                return ("(f32round %s)" % t, "ZF") if target == "F" else ("(nofZ N %s)" % t, "T")
            if ck == "FloatingToIntegral":
                if ty == "ZF":
                    return t, "Z"
                if ty == "T":
                    return "(ntruncZ N %s)" % t, "Z"
                raise Unsupported("FloatingToIntegral of %s (a float that is not known to hold an integer)" % ty)
            if ck == "FloatingCast":
                if ty == "ZF":
                    return ("(nofZ N %s)" % t, "T") if target == "T" else (t, "ZF")
                return t, ("F" if target == "F" else "T")
            raise Unsupported("cast %s" % ck)
        if k == "IntegerLiteral":
            return zl(int(n["value"])), "Z"
        if k == "CXXBoolLiteralExpr":
            return ("true" if n.get("value") else "false"), "B"
        if k == "FloatingLiteral":
            if ctype(n.get("type", {}).get("qualType", "")) != "T":
                raise Unsupported("float literal")
            v = float(n["value"])
            if v == 1.0:
                return "(n_one N)", "T"
            if v == 0.0:
                return "(nzero N)", "T"
            m, e = dec_pair(repr(v))
            return "(nofDec N %s %s)" % (zl(m), zl(e)), "T"
        if k == "DeclRefExpr":
            rd = n["referencedDecl"]
            if rd.get("id") in env:
                return env[rd["id"]]
            if rd.get("kind") == "VarDecl":
                return self.ctx.constant(self.src, rd["name"], rd.get("id"), self), ctype(rd.get("type", {}).get("qualType", ""))
            raise Unsupported("reference to %s" % rd.get("name"))
        if k == "MemberExpr" and self.strip_all(n["inner"][0]).get("kind") == "CXXThisExpr":
            nm = n.get("name")
            key = "@m:" + nm
            if key in env:
                return env[key]
            ty = self.vtype(n.get("type", {}).get("qualType", ""))
            if ty not in ("Z", "T", "F", "B"):
                raise Unsupported("member %s of type %s used as a value" % (nm, ty))
            if self.this_class:
                raise Unsupported("member %s read before it is initialised" % nm)
            cn = "m_" + nm.rstrip("_")
            self.free[cn] = coq_ty(ty)
            return cn, ty
        if k == "UnaryOperator":
            op = n.get("opcode")
            if op in ("++", "--"):
                tgt = self.strip_all(n["inner"][0])
                key = self.lvalue_key(tgt, env)
                t, ty = env[key]
                if ty != "Z":
                    raise Unsupported("++ on %s" % ty)
                nm = self.fresh("inc")
                self.pre.append((nm, "(Z.%s %s %s)" % ("add" if op == "++" else "sub", t, zl(1))))
                env[key] = (nm, "Z")
                return (t if n.get("isPostfix") else nm), "Z"
            t, ty = self.ex(n["inner"][0], env)
            if op == "-":
                if ty == "T":
                    return "(nneg N %s)" % t, "T"
                if ty == "Z":
                    return "(Z.opp %s)" % t, "Z"
            if op == "+":
                return t, ty
            if op == "!" and ty == "B":
                return "(negb %s)" % t, "B"
            raise Unsupported("unary %s on %s" % (op, ty))
        if k == "BinaryOperator":
            op = n.get("opcode")
            if op == "=":
                key = self.lvalue_key(self.strip_all(n["inner"][0]), env)
                t, ty = self.ex(n["inner"][1], env)
                want = env[key][1]
                nm = self.fresh("a")
                self.pre.append((nm, self.coerce(t, ty, want)))
                env[key] = (nm, want)
                return nm, want
            if op in ("&&", "||"):
                a, ta = self.ex(n["inner"][0], env)
                npre = len(self.pre)
                b, tb = self.ex(n["inner"][1], env)
                if len(self.pre) != npre:
                    raise Unsupported("side effect in the right operand of %s" % op)
                if ta != "B" or tb != "B":
                    raise Unsupported("%s on non-booleans" % op)
                return "(%s %s %s)" % ("andb" if op == "&&" else "orb", a, b), "B"
            a, ta = self.ex(n["inner"][0], env)
            b, tb = self.ex(n["inner"][1], env)
            if ta == "F":
                ta = "T"
            if tb == "F":
                tb = "T"
            if ta != tb:
                raise Unsupported("operator %s on %s and %s" % (op, ta, tb))
            if op in ("<", ">", "<=", ">="):
                if ta == "T":
                    f = "nltb N" if op in ("<", ">") else "nleb N"
                elif ta in ("Z", "ZF"):
                    f = "Z.ltb" if op in ("<", ">") else "Z.leb"
                else:
                    raise Unsupported("comparison of %s" % ta)
                x, y = (a, b) if op in ("<", "<=") else (b, a)
                return "(%s %s %s)" % (f, x, y), "B"
            if op in ("==", "!="):
                if ta in ("Z", "ZF"):
                    e = "(Z.eqb %s %s)" % (a, b)
                elif ta == "T":
                    e = "(neqb N %s %s)" % (a, b)
                else:
                    raise Unsupported("equality of %s" % ta)
                return (e if op == "==" else "(negb %s)" % e), "B"
            if op in ARITH_T and ta == "T":
                return "(%s N %s %s)" % (ARITH_T[op], a, b), "T"
            if op in ARITH_Z and ta == "Z":
                return "(%s %s %s)" % (ARITH_Z[op], a, b), "Z"
            raise Unsupported("operator %s on %s" % (op, ta))
        if k == "CompoundAssignOperator":
            op = n.get("opcode")[0]
            key = self.lvalue_key(self.strip_all(n["inner"][0]), env)
            cur, want = env[key]
            t, ty = self.ex(n["inner"][1], env)
            if want == "Z" and ty == "Z" and op in ARITH_Z:
                new = "(%s %s %s)" % (ARITH_Z[op], cur, t)
            elif want == "T" and op in ARITH_T:
                new = "(%s N %s %s)" % (ARITH_T[op], cur, self.coerce(t, ty, "T"))
            else:
                raise Unsupported("compound assignment %s= on %s" % (op, want))
            nm = self.fresh("a")
            self.pre.append((nm, new))
            env[key] = (nm, want)
            return nm, want
        if k == "ConditionalOperator":
            c, a, b = n["inner"]
            tc, _ = self.ex(c, env)
            npre = len(self.pre)
            ta, ty1 = self.ex(a, env)
            tb, ty2 = self.ex(b, env)
            if len(self.pre) != npre or ty1 != ty2:
                raise Unsupported("conditional expression with effects / mixed types")
            return "(if %s then %s else %s)" % (tc, ta, tb), ty1
        if k == "CallExpr":
            callee = self.strip_all(n["inner"][0])
            rd = callee.get("referencedDecl", {})
            nm = rd.get("name")
            args = n["inner"][1:]
            if nm in ("max", "min") and len(args) == 2:
                (a, ta), (b, tb) = self.ex(args[0], env), self.ex(args[1], env)
                if ta != "T" or tb != "T":
                    raise Unsupported("std::%s on %s, %s" % (nm, ta, tb))
                return "(%s N %s %s)" % ("nmax2" if nm == "max" else "nmin2", a, b), "T"
            if len(args) == 0 and rd.get("kind") == "CXXMethodDecl" and nm in ("epsilon", "max", "min") and \
                    "double" in n.get("type", {}).get("qualType", ""):
                return {"epsilon": "(nepsilon N)", "max": "(nmaxval N)", "min": "(nminpos N)"}[nm], "T"
            if nm in UNARY and len(args) == 1:
                a, ta = self.ex(args[0], env)
                return "(%s N %s)" % (UNARY[nm], self.coerce(a, ta, "T")), "T"
            if nm in BINARY and len(args) == 2:
                (a, ta), (b, tb) = self.ex(args[0], env), self.ex(args[1], env)
                return "(%s N %s %s)" % (BINARY[nm], self.coerce(a, ta, "T"), self.coerce(b, tb, "T")), "T"
            raise Unsupported("call to %s" % nm)
        if k == "CXXMemberCallExpr":
            return self.member_call(n, env)
        raise Unsupported("expression %s" % k)

    def lvalue_key(self, n, env):
        if n.get("kind") == "DeclRefExpr" and n["referencedDecl"].get("id") in env:
            return n["referencedDecl"]["id"]
        if n.get("kind") == "MemberExpr" and self.strip_all(n["inner"][0]).get("kind") == "CXXThisExpr" and "@m:" + n.get("name") in env:
            return "@m:" + n.get("name")
        raise Unsupported("assignment target")

    def member_call(self, n, env):
        callee = self.strip_all(n["inner"][0])
        if callee.get("kind") != "MemberExpr":
            raise Unsupported("member call shape")
        meth = callee.get("name")
        obj = self.strip_all(callee["inner"][0])
        args = n["inner"][1:]
        # (1) a local object of a class whose methods were translated
        if obj.get("kind") == "DeclRefExpr" and obj["referencedDecl"].get("id") in env:
            key = obj["referencedDecl"]["id"]
            cur, ty = env[key]
            if not (isinstance(ty, tuple) and ty[1] in self.ctx.classes):
                raise Unsupported("method call on %s" % (ty,))
            ms = self.ctx.classes[ty[1]]["methods"]
            if meth not in ms:
                raise Unsupported("method %s::%s is not translated" % (ty[1], meth))
            cname, is_const, rty, ptys = ms[meth]
            if len(ptys) != len(args):
                raise Unsupported("arity of %s" % meth)
            ats = [self.coerce(*self.ex(a, env), want=p) for a, p in zip(args, ptys)]
            call = "(%s N %s%s)" % (cname, cur, "".join(" " + a for a in ats))
            if is_const:
                return call, rty
            if rty != "V":
                raise Unsupported("non-const method with a result")
            nm = self.fresh("o")
            self.pre.append((nm, call))
            env[key] = (nm, ty)
            return "tt", "V"
        # (2) the abstract model object behind a pointer / object member of this
        if obj.get("kind") == "MemberExpr" and obj.get("name") == self.model_member and \
                self.strip_all(obj["inner"][0]).get("kind") == "CXXThisExpr":
            iface = self.ctx.ifaces[self.model_member]
            if meth not in iface["methods"]:
                raise Unsupported("method %s of the model interface" % meth)
            is_const, rty, ptys = iface["methods"][meth]
            if len(ptys) != len(args):
                raise Unsupported("arity of %s" % meth)
            ats = [self.coerce(*self.ex(a, env), want=p) for a, p in zip(args, ptys)]
            if meth not in self.used_iface:
                self.used_iface.append(meth)
            cur = env["@ms"][0]
            call = "(%s%s %s)" % (meth, "".join(" " + a for a in ats), cur)
            if is_const:
                return call, rty
            nm = self.fresh("ms")
            if rty == "V":
                self.pre.append((nm, call))
                env["@ms"] = (nm, "S")
                return "tt", "V"
            r = self.fresh("r")
            self.pre.append(("'(%s, %s)" % (nm, r), call))
            env["@ms"] = (nm, "S")
            return r, rty
        raise Unsupported("member call on an object the translator does not track")

    # -------------------------------------------------------------------------------------------- statements
    def assigned(self, n, env, acc):
        """keys of env that the subtree may assign"""
        k = n.get("kind")
        if k in ("BinaryOperator", "CompoundAssignOperator") and n.get("opcode", "") in ("=", "+=", "-=", "*=", "/="):
            try:
                acc.add(self.lvalue_key(self.strip_all(n["inner"][0]), env))
            except Unsupported:
                pass
        if k == "UnaryOperator" and n.get("opcode") in ("++", "--"):
            try:
                acc.add(self.lvalue_key(self.strip_all(n["inner"][0]), env))
            except Unsupported:
                pass
        if k == "CXXMemberCallExpr":
            callee = self.strip_all(n["inner"][0])
            obj = self.strip_all(callee["inner"][0]) if callee.get("inner") else {}
            if obj.get("kind") == "DeclRefExpr" and obj["referencedDecl"].get("id") in env:
                ty = env[obj["referencedDecl"]["id"]][1]
                if isinstance(ty, tuple) and ty[1] in self.ctx.classes:
                    m = self.ctx.classes[ty[1]]["methods"].get(callee.get("name"))
                    if m is None or not m[1]:
                        acc.add(obj["referencedDecl"]["id"])
            if obj.get("kind") == "MemberExpr" and obj.get("name") == self.model_member and "@ms" in env:
                m = self.ctx.ifaces[self.model_member]["methods"].get(callee.get("name"))
                if m is None or not m[0]:
                    acc.add("@ms")
        for c in n.get("inner", []):
            if isinstance(c, dict):
                self.assigned(c, env, acc)

    def returns(self, st):
        """does the statement always end in a return?"""
        k = st.get("kind")
        if k == "ReturnStmt":
            return True
        if k == "CompoundStmt":
            inner = st.get("inner", [])
            return bool(inner) and self.returns(inner[-1])
        return False

    def has(self, n, kinds):
        return n.get("kind") in kinds or any(isinstance(c, dict) and self.has(c, kinds) for c in n.get("inner", []))

    def block(self, stmts, env, k):
        """term for the statement list, continuing with k(env)"""
        if not stmts:
            return k(env)
        st, rest = stmts[0], stmts[1:]
        kind = st.get("kind")
        if kind == "CompoundStmt":
            return self.block(st.get("inner", []) + rest, env, k)   # (scopes: declarations are keyed by decl id)
        if kind == "NullStmt":
            return self.block(rest, env, k)
        if kind == "DeclStmt":
            env = dict(env)
            for v in st.get("inner", []):
                if v.get("kind") != "VarDecl":
                    raise Unsupported("declaration %s" % v.get("kind"))
                ty = self.vtype(v.get("type", {}).get("qualType", ""))
                init = [c for c in v.get("inner", []) if isinstance(c, dict)]
                if not init:
                    raise Unsupported("uninitialised local %s" % v.get("name"))
                if isinstance(ty, tuple):
                    cls = ty[1].split("::")[-1]
                    ce = self.strip(init[0])
                    if cls not in self.ctx.classes or ce.get("kind") != "CXXConstructExpr":
                        raise Unsupported("local of type %s" % ty[1])
                    cname, ptys = self.ctx.classes[cls]["ctor"]
                    args = ce.get("inner", [])
                    if len(args) != len(ptys):
                        raise Unsupported("constructor arity")
                    ats = [self.coerce(*self.ex(a, env), want=p) for a, p in zip(args, ptys)]
                    term, ety = "(%s N%s)" % (cname, "".join(" " + a for a in ats)), ("obj", cls)
                else:
                    term, ety = self.ex(init[0], env)
                    if ty == "F" and ety == "ZF":
                        pass                                            # a float holding an integer
                    else:
                        term, ety = self.coerce(term, ety, ty), ty
                nm = self.fresh("l_" + v["name"])
                self.pre.append((nm, term))
                env[v["id"]] = (nm, ety)
            pre, self.pre = self.pre, []
            body = self.block(rest, env, k)
            self.pre = pre
            return self.flush(body)
        if kind == "ReturnStmt":
            env = dict(env)
            if st.get("inner"):
                t, ty = self.ex(st["inner"][0], env)
                t = self.coerce(t, ty, self.ret_ty)
            else:
                t = None
            return self.flush(self.on_return(t, env))
        if kind == "IfStmt":
            parts = [c for c in st.get("inner", []) if isinstance(c, dict)]
            if len(parts) not in (2, 3) or st.get("hasInit") or st.get("hasVar"):
                raise Unsupported("if statement shape")
            env = dict(env)
            c, cty = self.ex(parts[0], env)
            if cty != "B":
                raise Unsupported("condition of type %s" % cty)
            pre, self.pre = self.pre, []
            then_b = [parts[1]]
            else_b = [parts[2]] if len(parts) == 3 else []
            if self.returns(parts[1]) and not else_b:
                body = "if %s then %s else %s" % (c, self.block(then_b, env, None), self.block(rest, env, k))
            elif else_b and self.returns(parts[2]) and not self.returns(parts[1]):
                body = "if %s then %s else %s" % (c, self.block(then_b + rest, env, k), self.block(else_b, env, None))
            else:
                if self.has(st, ("ReturnStmt", "BreakStmt", "ContinueStmt", "GotoStmt")) and not \
                        (self.returns(parts[1]) and else_b and self.returns(parts[2])):
                    raise Unsupported("return / break in one branch of an if that also falls through")
                if else_b and self.returns(parts[1]) and self.returns(parts[2]):
                    body = "if %s then %s else %s" % (c, self.block(then_b, env, None), self.block(else_b, env, None))
                else:
                    acc = set()
                    self.assigned(parts[1], env, acc)
                    if else_b:
                        self.assigned(parts[2], env, acc)
                    mod = [key for key in env if key in acc]          # env order = declaration order
                    if not mod:
                        body = self.block(rest, env, k)               # branches without effect on the tracked state
                    else:
                        def join(e):
                            return tup([e[key][0] for key in mod])
                        t1 = self.block(then_b, env, join)
                        t2 = self.block(else_b, env, join)
                        env2 = dict(env)
                        names = []
                        for key in mod:
                            nm = self.fresh("j")
                            names.append(nm)
                            env2[key] = (nm, env[key][1])
                        body = "let %s := (if %s then %s else %s) in %s" % (pat(names), c, t1, t2, self.block(rest, env2, k))
            self.pre = pre
            return self.flush(body)
        if kind == "WhileStmt":
            parts = st.get("inner", [])
            if len(parts) != 2:
                raise Unsupported("while with a condition variable")
            cond_node, body_node = parts
            if self.has(body_node, ("ReturnStmt", "BreakStmt", "ContinueStmt", "GotoStmt")):
                raise Unsupported("return / break / continue inside a while loop")
            acc = set()
            self.assigned(body_node, env, acc)
            self.assigned(cond_node, env, acc)
            carried = [key for key in env if key in acc]
            if not carried:
                raise Unsupported("loop without loop-carried state")
            tag = self.fresh("loop")
            binders = [self.fresh("b") for _ in carried]
            envl = dict(env)
            for key, b in zip(carried, binders):
                envl[key] = (b, env[key][1])
            saved, self.pre = self.pre, []
            ec = dict(envl)
            c, cty = self.ex(cond_node, ec)
            if self.pre or cty != "B":
                raise Unsupported("loop condition with effects")
            body = self.block([body_node], envl, lambda e: "%s f %s" % (tag, " ".join(e[key][0] for key in carried)))
            self.pre = saved
            tys = [self.carried_ty(env[key][1]) for key in carried]
            fix = "((fix %s (fu : nat) %s {struct fu} : option (%s) := if %s then match fu with O => None | S f => %s end else Some %s) fuel %s)" % (
                tag, " ".join("(%s : %s)" % (b, t) for b, t in zip(binders, tys)), " * ".join(tys), c, body, tup(binders),
                " ".join(env[key][0] for key in carried))
            env2 = dict(env)
            outs = []
            for key in carried:
                nm = self.fresh("w")
                outs.append(nm)
                env2[key] = (nm, env[key][1])
            self.partial = True
            pre, self.pre = self.pre, []
            rest_t = self.block(rest, env2, k)
            self.pre = pre
            return self.flush("match %s with None => None | Some %s => %s end" % (fix, tup(outs), rest_t))
        # expression statement
        env = dict(env)
        self.ex(st, env)
        pre, self.pre = self.pre, []
        body = self.block(rest, env, k)
        self.pre = pre
        return self.flush(body)

    def carried_ty(self, ty):
        if ty == "S":
            return "St"
        if isinstance(ty, tuple):
            return "(" + " * ".join(coq_ty(t) for _, t in self.ctx.classes[ty[1]]["fields"]) + ")"
        return coq_ty(ty)


# ------------------------------------------------------------------------------------------------ the units
def class_methods(objs, cls):
    """virtual interface of a class: name -> (is_const, ret, [param types]) in declaration order"""
    out, order = {}, []
    for o in objs:
        if o.get("kind") == "CXXRecordDecl" and o.get("name") == cls and o.get("inner"):
            for c in o["inner"]:
                if c.get("kind") == "CXXMethodDecl" and not c.get("name", "").startswith("operator") and not c.get("isImplicit"):
                    q = c.get("type", {}).get("qualType", "")
                    m = re.match(r"^(.*?)\s*\((.*)\)\s*(const)?\s*(noexcept)?$", q)
                    if not m:
                        continue
                    ps = [p.strip() for p in m.group(2).split(",") if p.strip()]
                    out[c["name"]] = (bool(m.group(3)), ctype(m.group(1)), [ctype(p) for p in ps])
                    order.append(c["name"])
            if out:
                break
    return out, order


def only(defs, what):
    if len(defs) != 1:
        raise Unsupported("%s: %d definitions found" % (what, len(defs)))
    return defs[0]


def params_of(node):
    return [(c["name"], c["id"], ctype(c.get("type", {}).get("qualType", ""))) for c in node.get("inner", [])
            if c.get("kind") == "ParmVarDecl" and c.get("name")]


def gen_iterations(ctx, lines):
    """RansacIterations: constructor, update, get"""
    objs = load(ctx.repo, IT_SRC, "romea::core::RansacIterations")
    ctor = only(srcfuns.find_def(objs, "RansacIterations", ctor_params=3), "RansacIterations constructor")
    tr = Tr(ctor, ctx, IT_SRC, this_class="RansacIterations")
    comp = [c for c in ctor.get("inner", []) if c.get("kind") == "CompoundStmt"]
    if comp and comp[0].get("inner"):
        raise Unsupported("constructor with a non-empty body")
    ps = params_of(ctor)
    if any(t not in ("Z", "T", "F") for _, _, t in ps):
        raise Unsupported("constructor parameter type")
    env = {pid: (nm, "T" if t == "F" else t) for nm, pid, t in ps}
    fields, lets = [], []
    for c in ctor.get("inner", []):
        if c.get("kind") != "CXXCtorInitializer":
            continue
        nm = (c.get("anyInit") or {}).get("name")
        fty = ctype((c.get("anyInit") or {}).get("type", {}).get("qualType", ""))
        if not nm or fty not in ("Z", "T"):
            raise Unsupported("initialiser of a non-scalar member or base")
        t, ty = tr.ex(c["inner"][0], env)
        if tr.pre:
            raise Unsupported("initialiser with effects")
        cn = "m_" + nm.rstrip("_")
        lets.append((cn, tr.coerce(t, ty, fty)))
        env["@m:" + nm] = (cn, fty)
        fields.append((nm, fty))
    if not fields:
        raise Unsupported("constructor without member initialisers")
    sty = "(" + " * ".join(coq_ty(t) for _, t in fields) + ")%type"
    lines.append("(* %s  RansacIterations::RansacIterations — the object is the tuple of its members (%s) *)" % (IT_SRC, ", ".join(n for n, _ in fields)))
    lines.append("Definition src_iters_init {T : Type} (N : NumOps T) %s : %s :=\n%s  %s.\n" % (
        " ".join("(%s : %s)" % (nm, coq_ty("T" if t == "F" else t)) for nm, _, t in ps), sty,
        "".join("  let %s := %s in\n" % l for l in lets), tup(["m_" + n.rstrip("_") for n, _ in fields])))
    cls = {"fields": fields, "methods": {}, "ctor": ("src_iters_init", ["T" if t == "F" else t for _, _, t in ps])}
    ctx.classes["RansacIterations"] = cls

    def method(name, cname):
        node = only(srcfuns.find_def(objs, name), "RansacIterations::" + name)
        q = node.get("type", {}).get("qualType", "")
        is_const = bool(re.search(r"\)\s*const", q))
        rty = ctype(q.split("(")[0])
        t = Tr(node, ctx, IT_SRC, this_class="RansacIterations")
        t.ret_ty = rty
        mps = params_of(node)
        if any(x not in ("Z", "T", "F") for _, _, x in mps):
            raise Unsupported("parameter type of %s" % name)
        env = {}
        for fn, fty in fields:
            env["@m:" + fn] = ("m_" + fn.rstrip("_"), fty)
        for nm, pid, x in mps:
            env[pid] = (nm, "T" if x == "F" else x)
        state = lambda e: tup([e["@m:" + fn][0] for fn, _ in fields])   # noqa: E731
        if rty == "V":
            t.on_return = lambda val, e: state(e)
            end = state
            out_ty = sty
        else:
            if not is_const:
                raise Unsupported("non-const method with a result")
            t.on_return = lambda val, e: val
            def end(e):
                raise Unsupported("no return")
            out_ty = coq_ty(rty)
        comp = [c for c in node.get("inner", []) if c.get("kind") == "CompoundStmt"]
        body = t.block(comp[0].get("inner", []) if comp else [], env, end)
        if t.partial or t.free:
            raise Unsupported("loop / foreign member in %s" % name)
        lines.append("(* %s  RansacIterations::%s *)" % (IT_SRC, name))
        lines.append("Definition %s {T : Type} (N : NumOps T) (st : %s) %s : %s :=\n  let %s := st in\n  %s.\n" % (
            cname, sty, " ".join("(%s : %s)" % (nm, coq_ty("T" if x == "F" else x)) for nm, _, x in mps), out_ty,
            pat(["m_" + fn.rstrip("_") for fn, _ in fields]), body))
        cls["methods"][name] = (cname, is_const, rty, ["T" if x == "F" else x for _, _, x in mps])
    return method


def gen_estimate(ctx, lines):
    objs = load(ctx.repo, RS_SRC, "romea::core::Ransac::estimateModel")
    node = only(srcfuns.find_def(objs, "estimateModel"), "Ransac::estimateModel")
    meths, order = class_methods(load(ctx.repo, RS_SRC, "romea::core::RansacModel"), "RansacModel")
    if not meths:
        raise Unsupported("class RansacModel not found")
    ctx.ifaces["ransacModel_"] = {"methods": meths, "order": order}
    tr = Tr(node, ctx, RS_SRC, model_member="ransacModel_")
    tr.ret_ty = "B"
    tr.on_return = lambda val, e: "Some (%s, %s)" % (val, e["@ms"][0])

    def end(e):
        raise Unsupported("control reaches the end of a non-void function")
    comp = [c for c in node.get("inner", []) if c.get("kind") == "CompoundStmt"]
    body = tr.block(comp[0].get("inner", []), {"@ms": ("ms", "S")}, end)
    if not tr.partial:
        body = body                                                   # (no loop: still an option, always Some)
    sigs = []
    for m in order:
        if m in tr.used_iface:
            is_const, rty, ptys = meths[m]
            args = "".join(coq_ty(p) + " -> " for p in ptys)
            if is_const:
                sigs.append("(%s : %sSt -> %s)" % (m, args, coq_ty(rty)))
            elif rty == "V":
                sigs.append("(%s : %sSt -> St)" % (m, args))
            else:
                sigs.append("(%s : %sSt -> St * %s)" % (m, args, coq_ty(rty)))
    free = " ".join("(%s : %s)" % (nm, tr.free[nm]) for nm in sorted(tr.free))
    lines.append("(* %s  Ransac::estimateModel over an abstract RansacModel (state ms : S); interface methods called, in the order the\n"
                 "   class declares them: %s; members read: %s *)" % (RS_SRC, ", ".join(m for m in order if m in tr.used_iface), ", ".join(sorted(tr.free))))
    lines.append("Definition src_estimateModel {T : Type} (N : NumOps T) {St : Type} %s (fuel : nat) %s (ms : St) : option (bool * St) :=\n  %s.\n" % (" ".join(sigs), free, body))


def find_guarded_block(node, callee_member, method):
    """the then-branch of  if (<callee_member>.<method>()) { ... }  inside node (exactly one)"""
    found = []

    def strip_all(n):
        while n.get("kind") in PASS_KINDS + CAST_KINDS and n.get("inner"):
            n = n["inner"][-1]
        return n

    def walk(n):
        if n.get("kind") == "IfStmt":
            parts = [c for c in n.get("inner", []) if isinstance(c, dict)]
            c = strip_all(parts[0]) if parts else {}
            if c.get("kind") == "CXXMemberCallExpr":
                cal = strip_all(c["inner"][0])
                if cal.get("kind") == "MemberExpr" and cal.get("name") == method and \
                        strip_all(cal["inner"][0]).get("name") == callee_member:
                    parts = list(parts) + [n]
                    found.append(parts)
        for c in n.get("inner", []):
            if isinstance(c, dict):
                walk(c)
    walk(node)
    return found


class IcpTr(Tr):
    """the guarded block of FindRigidTransformationByICP::find (the class template's own definition: the AST is the
    dependent one — member calls are CallExpr over CXXDependentScopeMemberExpr, matrix assignments are BinaryOperator =).
    Matrices are opaque values (type M = list T); Scalar is read as T."""

    def __init__(self, node, ctx):
        Tr.__init__(self, node, ctx, ICP_SRC)
        self.accessors = []

    def vtype(self, qual):
        q = qual.replace("const", "").replace("&", "").strip()
        if q == "Scalar" or q.endswith("::Scalar"):
            return "T"
        if "TransformationMatrixType" in q:
            return "M"
        return ctype(qual)

    def dep_call(self, n):
        """obj.member()  in a dependent context -> (member, obj node) or None"""
        n = self.strip_all(n)
        if n.get("kind") == "CallExpr" and len(n.get("inner", [])) == 1:
            cal = self.strip_all(n["inner"][0])
            if cal.get("kind") == "CXXDependentScopeMemberExpr" and cal.get("inner"):
                return cal.get("member"), self.strip_all(cal["inner"][0])
        if n.get("kind") == "CXXMemberCallExpr" and len(n.get("inner", [])) == 1:
            cal = self.strip_all(n["inner"][0])
            if cal.get("kind") == "MemberExpr" and cal.get("inner"):
                return cal.get("name"), self.strip_all(cal["inner"][0])
        return None

    def model_accessor(self, n):
        dc = self.dep_call(n)
        if dc and dc[1].get("kind") == "MemberExpr" and dc[1].get("name") == "ransacModel_" and \
                self.strip_all(dc[1]["inner"][0]).get("kind") == "CXXThisExpr":
            return dc[0]
        return None

    def mat(self, n, env):
        """a matrix-valued expression: a tracked matrix local or ransacModel_.getTransformation()"""
        s = self.strip_all(n)
        if s.get("kind") == "DeclRefExpr" and s["referencedDecl"].get("id") in env and env[s["referencedDecl"]["id"]][1] == "M":
            return env[s["referencedDecl"]["id"]][0]
        if self.model_accessor(s) == "getTransformation":
            if "getTransformation" not in self.accessors:
                self.accessors.append("getTransformation")
            return "getTransformation"
        raise Unsupported("matrix expression %s" % s.get("kind"))

    def ex(self, n, env):
        s = self.strip_all(n)
        # (A - B).array().abs().sum()
        chain, cur = [], s
        while True:
            dc = self.dep_call(cur)
            if not dc:
                break
            chain.append(dc[0])
            cur = dc[1]
        if chain == ["sum", "abs", "array"]:
            if cur.get("kind") == "BinaryOperator" and cur.get("opcode") == "-":
                return "(mat_absdiff N %s %s)" % (self.mat(cur["inner"][0], env), self.mat(cur["inner"][1], env)), "T"
            if cur.get("kind") == "CXXOperatorCallExpr" and len(cur.get("inner", [])) == 3 and \
                    self.strip_all(cur["inner"][0]).get("referencedDecl", {}).get("name") == "operator-":
                return "(mat_absdiff N %s %s)" % (self.mat(cur["inner"][1], env), self.mat(cur["inner"][2], env)), "T"
            raise Unsupported("expression under .array().abs().sum()")
        acc = self.model_accessor(s)
        if acc == "getRootMeanSquareError":
            if acc not in self.accessors:
                self.accessors.append(acc)
            return "getRootMeanSquareError", "T"
        if acc is not None:
            raise Unsupported("accessor %s used as a scalar" % acc)
        # matrix assignment  X = <matrix>
        lhs = rhs = None
        if s.get("kind") == "BinaryOperator" and s.get("opcode") == "=":
            lhs, rhs = self.strip_all(s["inner"][0]), s["inner"][1]
        elif s.get("kind") == "CXXOperatorCallExpr" and len(s.get("inner", [])) == 3 and \
                self.strip_all(s["inner"][0]).get("referencedDecl", {}).get("name") == "operator=":
            lhs, rhs = self.strip_all(s["inner"][1]), s["inner"][2]
        if lhs is not None and lhs.get("kind") == "DeclRefExpr" and lhs["referencedDecl"].get("id") in env and \
                env[lhs["referencedDecl"]["id"]][1] == "M":
            key = lhs["referencedDecl"]["id"]
            nm = self.fresh("a")
            self.pre.append((nm, self.mat(rhs, env)))
            env[key] = (nm, "M")
            return nm, "M"
        return Tr.ex(self, n, env)

    def assigned(self, n, env, acc):
        if n.get("kind") == "CXXOperatorCallExpr" and len(n.get("inner", [])) == 3 and \
                self.strip_all(n["inner"][0]).get("referencedDecl", {}).get("name") == "operator=":
            lhs = self.strip_all(n["inner"][1])
            if lhs.get("kind") == "DeclRefExpr" and lhs["referencedDecl"].get("id") in env:
                acc.add(lhs["referencedDecl"]["id"])
        Tr.assigned(self, n, env, acc)

    def carried_ty(self, ty):
        return "list T" if ty == "M" else Tr.carried_ty(self, ty)


def all_nodes(n, kind):
    out = [n] if n.get("kind") == kind else []
    for c in n.get("inner", []):
        if isinstance(c, dict):
            out += all_nodes(c, kind)
    return out


def gen_icp(ctx, lines):
    """exit logic of FindRigidTransformationByICP<PointType>::find (the class template's own definition; the body of the
    `if (ransac_.estimateModel())` block and the statement the loop ends with)"""
    objs = load(ctx.repo, ICP_SRC, "romea::core::FindRigidTransformationByICP::find")
    defs = [d for d in srcfuns.find_def(objs, "find") if sum(1 for c in d.get("inner", []) if c.get("kind") == "ParmVarDecl") == 6]
    node = only(defs, "FindRigidTransformationByICP::find (6 parameters)")
    blocks = find_guarded_block(node, "ransac_", "estimateModel")
    if len(blocks) != 1:
        raise Unsupported("%d blocks guarded by ransac_.estimateModel()" % len(blocks))
    parts, guarded_if = blocks[0][:-1], blocks[0][-1]
    if len(parts) != 2:
        raise Unsupported("the estimateModel() test has an else branch")
    # the locals of find() the block may touch: every VarDecl of the function body declared outside the block
    body = [c for c in node.get("inner", []) if c.get("kind") == "CompoundStmt"][0]
    outer = {}

    def collect(n, stop):
        if n is stop:
            return
        if n.get("kind") == "VarDecl":
            vt = IcpTr(node, ctx).vtype(n.get("type", {}).get("qualType", ""))
            if vt in ("M", "T", "Z"):
                outer[n["id"]] = (n["name"], vt)
        for c in n.get("inner", []):
            if isinstance(c, dict):
                collect(c, stop)
    collect(body, parts[1])
    tr = IcpTr(node, ctx)
    env = {k: v for k, v in outer.items()}
    acc = set()
    tr.assigned(parts[1], env, acc)
    stmts = parts[1].get("inner", []) if parts[1].get("kind") == "CompoundStmt" else [parts[1]]
    # shape: ...; if (c) { break; } ; <tail>      — the block's result is (tracked state, did it break)
    bi = [i for i, s in enumerate(stmts) if tr.has(s, ("BreakStmt",))]
    if len(bi) != 1:
        raise Unsupported("%d statements with a break in the guarded block" % len(bi))
    bst = stmts[bi[0]]
    bparts = [c for c in bst.get("inner", []) if isinstance(c, dict)]
    if bst.get("kind") != "IfStmt" or len(bparts) != 2 or not (
            bparts[1].get("kind") == "BreakStmt" or (bparts[1].get("kind") == "CompoundStmt" and len(bparts[1].get("inner", [])) == 1
                                                     and bparts[1]["inner"][0].get("kind") == "BreakStmt")):
        raise Unsupported("the break is not of the form  if (c) { break; }")
    if tr.has({"inner": stmts[:bi[0]] + stmts[bi[0] + 1:]}, ("ReturnStmt", "ContinueStmt", "GotoStmt", "WhileStmt", "ForStmt", "DoStmt")):
        raise Unsupported("return / continue / loop in the guarded block")
    mod = [k for k in env if k in acc]
    names = [outer[k][0] for k in mod]

    def state(e):
        return tup([e[k][0] for k in mod])

    def after_break_test(e):
        e = dict(e)
        c, cty = tr.ex(bparts[0], e)
        if cty != "B" or tr.pre:
            raise Unsupported("break condition")
        return "if %s then (%s, true) else %s" % (c, state(e), tr.block(stmts[bi[0] + 1:], e, lambda e2: "(%s, false)" % state(e2)))
    term = tr.block(stmts[:bi[0]], env, after_break_test)
    # free variables: tracked locals read or written (by name, declaration order), members, accessors
    used = [k for k in env if re.search(r"\b%s\b" % re.escape(outer[k][0]), term)]
    argl = " ".join("(%s : %s)" % (outer[k][0], tr.carried_ty(outer[k][1])) for k in used)
    free = " ".join("(%s : %s)" % (nm, tr.free[nm]) for nm in sorted(tr.free))
    accs = " ".join("(%s : %s)" % (a, "list T" if a == "getTransformation" else "T") for a in sorted(tr.accessors))
    rty = "(" + " * ".join(tr.carried_ty(outer[k][1]) for k in mod) + ") * bool"
    lines.append("(* %s  FindRigidTransformationByICP::find — the block run when ransac_.estimateModel() succeeds.\n"
                 "   Result: (new values of the loop variables it assigns: %s; whether the loop is left by `break`).\n"
                 "   Arguments: locals of find() it uses: %s; members: %s; accessors of ransacModel_: %s *)" % (
                     ICP_SRC, ", ".join(names), ", ".join(outer[k][0] for k in used), ", ".join(sorted(tr.free)), ", ".join(sorted(tr.accessors))))
    # rename the locals' current values to their C++ names
    lines.append("Definition src_icp_block {T : Type} (N : NumOps T) %s %s %s : %s :=\n  %s.\n" % (accs, free, argl, rty, term))
    # the loop header and the return statement
    loops = []

    def find_for(n):
        if n.get("kind") == "ForStmt" and tr.has(n, ("BreakStmt",)) and find_guarded_block(n, "ransac_", "estimateModel"):
            loops.append(n)
            return
        for c in n.get("inner", []):
            if isinstance(c, dict):
                find_for(c)
    find_for(body)
    if len(loops) != 1:
        raise Unsupported("%d for loops around the estimateModel() test" % len(loops))
    fparts = loops[0].get("inner", [])
    if len(fparts) != 5 or fparts[0] or fparts[1]:
        raise Unsupported("for loop with an init statement / condition variable")
    # the rest of the loop body (projection, matching, filtering, loading the RANSAC model) must leave the loop variables
    # alone: outside the guarded block they may only be read as operands of a non-assigning binary operator
    counter = [k for k in outer if tr.has(fparts[3], ("DeclRefExpr",)) and
               any(d.get("referencedDecl", {}).get("id") == k for d in all_nodes(fparts[3], "DeclRefExpr"))]
    watched = set(mod) | set(counter)

    def check(n, parent):
        if n is guarded_if:
            return
        if n.get("kind") == "DeclRefExpr" and n.get("referencedDecl", {}).get("id") in watched:
            if not (parent is not None and parent.get("kind") == "BinaryOperator" and
                    parent.get("opcode") in ("+", "-", "*", "/", "<", ">", "<=", ">=", "==", "!=")):
                raise Unsupported("loop variable %s is used outside the estimateModel() block in a way that may modify it"
                                  % n["referencedDecl"].get("name"))
        for c in n.get("inner", []):
            if isinstance(c, dict):
                check(c, parent if n.get("kind") in PASS_KINDS + CAST_KINDS else n)
    check(fparts[4], None)
    envh = {k: (outer[k][0], outer[k][1]) for k in outer}
    th = IcpTr(node, ctx)
    c, cty = th.ex(fparts[2], dict(envh))
    e2 = dict(envh)
    th.ex(fparts[3], e2)
    incs = [(outer[k][0], th.flush(e2[k][0])) for k in envh if e2[k] != envh[k]]
    if len(incs) != 1 or th.free.keys() - {"m_maximalNumberOfIterations"}:
        raise Unsupported("loop header shape")
    rets = [s for s in body.get("inner", []) if s.get("kind") == "ReturnStmt"]
    if len(rets) != 1 or body["inner"][-1] is not rets[0] or body["inner"][-2] is not loops[0]:
        raise Unsupported("find() does not end with the loop followed by one return")
    r, rty2 = th.ex(rets[0]["inner"][0], dict(envh))
    if th.pre or rty2 != "B":
        raise Unsupported("return expression")
    cv = incs[0][0]
    lines.append("(* loop header  for (; %s; ++)  and the return statement of find() *)" % cv)
    lines.append("Definition src_icp_continue (m_maximalNumberOfIterations : Z) (%s : Z) : bool := %s." % (cv, c))
    lines.append("Definition src_icp_next (%s : Z) : Z := %s." % (cv, incs[0][1]))
    lines.append("Definition src_icp_return (m_maximalNumberOfIterations : Z) (%s : Z) : bool := %s.\n" % (cv, r))


def generate(repo):
    head = ["(* GENERATED by translate/tr_C06_ransac.py from the clang AST of the current sources. Do not edit. *)",
            "From Coq Require Import ZArith List.", "From Romea Require Import Num RansacModel IcpModel.",
            "Local Open Scope Z_scope.", ""]
    lines, errors = list(head), []
    ctx = Ctx(repo)

    def unit(name, fn):
        mark = len(lines)
        try:
            fn()
        except Unsupported as e:
            del lines[mark:]
            errors.append((PID, "%s: %s" % (name, e)))
            lines.append("(* %s: NOT TRANSLATED — %s *)\n" % (name, str(e).replace("*)", "* )").replace("(*", "( *")[:300]))
        except Exception as e:  # noqa  (fail closed, never raise)
            del lines[mark:]
            errors.append((PID, "%s: translator error %r" % (name, e)))
            lines.append("(* %s: NOT TRANSLATED — translator error *)\n" % name)
    holder = {}
    unit("RansacIterations constructor", lambda: holder.setdefault("m", gen_iterations(ctx, lines)))
    if "m" in holder:
        unit("RansacIterations::update", lambda: holder["m"]("update", "src_iters_update"))
        unit("RansacIterations::get", lambda: holder["m"]("get", "src_iters_get"))
    unit("Ransac::estimateModel", lambda: gen_estimate(ctx, lines))
    unit("FindRigidTransformationByICP::find exit logic", lambda: gen_icp(ctx, lines))
    return "\n".join(lines) + "\n", errors


def generate_to(gen_dir, repo):
    try:
        text, errors = generate(repo)
    except Exception as e:  # noqa
        return [(PID, "translator error %r" % (e,))]
    os.makedirs(gen_dir, exist_ok=True)
    path = os.path.join(gen_dir, OUT)
    old = open(path).read() if os.path.exists(path) else None
    if old != text:
        with open(path, "w") as f:
            f.write(text)
    return errors


if __name__ == "__main__":
    t, e = generate(os.environ.get("VERIF_REPO", "/repo"))
    print(t)
    for x in e:
        print("%s: %s" % x, file=sys.stderr)
    sys.exit(2 if e else 0)
