#!/usr/bin/env python3
"""tr_C16_stats.py — plug-in translator for C16: member functions of OnlineAverage, OnlineVariance and
RingOfEigenVector  ->  Gallina state transformers (coq/gen/SrcStats.v), regenerated from the clang JSON AST of the
current sources on every run.  coq/SrcTieC16.v proves the generated transformers step-for-step equal to
coq/OnlineStatsModel.v (the model the C16 theorems are about).

State = a record of the data members of the class (base-class members first, declaration order; std::mutex members are
left out: locking has no effect on the sequential semantics and belongs to C19).  Member types:
  size_t / unsigned long -> Z reduced mod 2^64 (wrapU64)      long long -> Z, wrapS64      int -> Z, wrapS32
  double                 -> option T  (None = quiet_NaN())      std::vector<integer> -> list Z
  a vector of class-type elements (VectorOfEigenVector<V>) -> list A   (A abstract)
The vocabulary (wrap*, vec_*) is defined in coq/StatsSem.v.

Accepted C++ (anything else: the member function is left out, an error tagged C16 is returned — fail closed):
  constructors: member initialisers (in the order clang lists them = execution order), base-class and delegating
    initialisers (inlined), default-constructed vectors, then the body;
  statements: `member = e;`, `member op= e;`, `++member;`, `vec[i] = e;`, `vec.push_back(e);`, `vec.clear();`,
    `vec.reserve(n);` (no effect), scalar local declarations and assignments, if / else (merged per variable),
    nested blocks, `std::lock_guard / unique_lock / scoped_lock` declarations (skipped), `return e;` as last statement;
  expressions: integer and floating literals, parameters, locals, members (also through the base class), + - * / %,
    comparisons, && || !, ?:, every implicit / static / functional cast between the types above (integral casts wrap,
    int -> double is nofZ, double -> int is ntruncZ), `vec.size()`, `vec[i]`, `std::numeric_limits<double>::quiet_NaN()`.
Every assignment becomes a `let`; the new state is the record of the last values.  A harmless rewrite (renamed local,
hoisted sub-expression, `x = x + e` for `x += e`, independent statements reordered, `==`/else swapped for `!=`) yields a
term the tie lemmas still prove equal to the model; a change of meaning does not."""
import os
import re
import sys

HERE = os.path.dirname(os.path.abspath(__file__))
if HERE not in sys.path:
    sys.path.insert(0, HERE)
import srcfuns  # noqa: E402
from srcfuns import Unsupported, dec_pair  # noqa: E402

PROP = "C16"
RING_HPP = "include/romea_core_common/containers/Eigen/RingOfEigenVector.hpp"
RING_TU = "template class romea::core::RingOfEigenVector<Eigen::Matrix<double, 2, 1>>;\n"
LOCKS = ("std::lock_guard", "std::unique_lock", "std::scoped_lock", "lock_guard", "unique_lock", "scoped_lock")

INT_TYPES = {"unsigned long": "u64", "size_t": "u64", "std::size_t": "u64", "unsigned long long": "u64",
             "std::vector::size_type": "u64", "long long": "s64", "long": "s64", "int": "s32", "long long int": "s64"}
WRAP = {"u64": "wrapU64", "s64": "wrapS64", "s32": "wrapS32"}
RANGE = {"u64": (0, 2**64), "s64": (-2**63, 2**63), "s32": (-2**31, 2**31)}
RANK = {"s32": 1, "s64": 2, "u64": 3}


def clean(q):
    q = re.sub(r"\bconst\b", "", q).replace("&", "").strip()
    return re.sub(r"\s+", " ", q)


def classify(tdict):
    """C++ type of an AST node -> 'u64' | 's64' | 's32' | 'f64' | 'bool' | ('vecZ', elt) | 'vecA' | 'lock' | 'mutex' | None"""
    if not tdict:
        return None
    for key in ("desugaredQualType", "qualType"):
        q = tdict.get(key)
        if not q:
            continue
        q = clean(q)
        if q in INT_TYPES:
            return INT_TYPES[q]
        if q == "double":
            return "f64"
        if q in ("bool", "_Bool"):
            return "bool"
        if q.startswith("std::mutex") or q == "mutex":
            return "mutex"
        if any(q.startswith(l) for l in LOCKS):
            return "lock"
        m = re.match(r"std::vector<\s*([^,<>]+?)\s*(,.*)?>$", q)
        if m and clean(m.group(1)) in INT_TYPES:
            return ("vecZ", INT_TYPES[clean(m.group(1))])
        if q.startswith("VectorOfEigenVector<") or q.startswith("romea::core::VectorOfEigenVector<") or \
                (q.startswith("std::vector<") and "aligned_allocator" in q):
            return "vecA"
    return None


def is_vec(kind):
    return kind == "vecA" or isinstance(kind, tuple)


def wrap_const(v, ty):
    lo, hi = RANGE[ty]
    return (v - lo) % (hi - lo) + lo


def zlit(v):
    return "%d" % v if v >= 0 else "(%d)" % v


class Val:
    """a translated expression: Coq term, kind ('u64','s64','s32','f64','bool','optf','elem','optelem'), constant value"""
    def __init__(self, term, ty, const=None):
        self.term, self.ty, self.const = term, ty, const


class ClassInfo:
    def __init__(self, name, prefix):
        self.name, self.prefix = name, prefix
        self.fields = []          # [(name, kind)] in declaration order, base-class fields first; mutexes left out
        self.methods = {}         # name -> [CXXMethodDecl with body]
        self.ctors = []           # CXXConstructorDecl with body
        self.base = None

    def kind(self, f):
        for n, k in self.fields:
            if n == f:
                return k
        return None


def walk_decls(objs, cls_name, info, spec=False):
    """collect fields (from the class definition) and out-of-line / in-class member definitions with a body"""
    def visit(n, inside):
        k = n.get("kind")
        if k in ("CXXRecordDecl", "ClassTemplateSpecializationDecl") and n.get("name") == cls_name and \
                (k == "ClassTemplateSpecializationDecl") == spec and n.get("completeDefinition", True) and \
                any(c.get("kind") == "FieldDecl" for c in n.get("inner", [])):
            for c in n.get("inner", []):
                if c.get("kind") == "FieldDecl":
                    kind = classify(c.get("type"))
                    if kind == "mutex":
                        continue
                    if kind is None or kind in ("lock", "bool"):
                        raise Unsupported("data member %s::%s of type %s" % (cls_name, c.get("name"), c.get("type", {}).get("qualType")))
                    if c["name"] not in [f for f, _ in info.fields]:
                        info.fields.append((c["name"], kind))
            for c in n.get("inner", []):
                visit(c, True)
            return
        if k == "ClassTemplateDecl" and spec:
            for c in n.get("inner", []):
                if c.get("kind") == "ClassTemplateSpecializationDecl":
                    visit(c, False)
            return
        if k == "ClassTemplateDecl":
            return
        has_body = any(c.get("kind") == "CompoundStmt" for c in n.get("inner", []))
        if k == "CXXConstructorDecl" and has_body and not n.get("isImplicit"):
            if n not in info.ctors:
                info.ctors.append(n)
        elif k == "CXXMethodDecl" and has_body and not n.get("isImplicit"):
            info.methods.setdefault(n.get("name"), [])
            if n not in info.methods[n["name"]]:
                info.methods[n["name"]].append(n)
    for o in objs:
        if spec and o.get("kind") in ("CXXMethodDecl", "CXXConstructorDecl"):
            continue      # the uninstantiated pattern of a template member: only the specialisation is translated
        visit(o, False)


class Exec:
    """symbolic execution of one member function over the record of class `info`"""
    def __init__(self, info, classes, state="s", elem="A"):
        self.info, self.classes = info, classes
        self.state = state
        self.lets = []           # (name, term)
        self.k = 0
        self.env = {}            # field / local / parameter name -> Val
        self.scopes = [set()]    # names of locals per open block
        self.result = None
        self.used_T = False

    # ---------------------------------------------------------------- helpers
    def fresh(self, base):
        self.k += 1
        return "%s_%d" % (re.sub(r"[^A-Za-z0-9_]", "_", base).rstrip("_") or "v", self.k)

    def bind(self, base, val):
        """let-bind a value (constants and plain names are not re-bound)"""
        if val.const is not None or re.match(r"^[A-Za-z_][A-Za-z0-9_']*$", val.term):
            return val
        nm = self.fresh(base)
        self.lets.append((nm, val.term))
        return Val(nm, val.ty, val.const)

    def strip(self, n):
        while n.get("kind") in ("ParenExpr", "MaterializeTemporaryExpr", "ExprWithCleanups", "CXXBindTemporaryExpr", "ConstantExpr") and n.get("inner"):
            n = n["inner"][-1]
        return n

    def convert(self, v, to):
        """integral conversion (wraps unless value-preserving), int <-> double"""
        if v.ty == to:
            return v
        if v.ty in WRAP and to in WRAP:
            if v.const is not None:
                c = wrap_const(v.const, to)
                return Val(zlit(c), to, c)
            if to != "u64" and v.ty != "u64" and RANK[v.ty] <= RANK[to]:
                return Val(v.term, to)                       # int -> long long: value preserved
            return Val("(%s %s)" % (WRAP[to], v.term), to)
        if v.ty == "bool" and to in WRAP:
            return Val("(if %s then 1 else 0)" % v.term, to)
        if v.ty in WRAP and to == "bool":
            return Val("(negb (Z.eqb %s 0))" % v.term, "bool")
        if v.ty in WRAP and to == "f64":
            self.used_T = True
            return Val("(nofZ N %s)" % v.term, "f64")
        if v.ty == "f64" and to in WRAP:
            if v.const is not None and v.const == int(v.const):
                c = int(v.const)
                return Val(zlit(c), to, c)
            return Val("(ntruncZ N %s)" % v.term, to)         # out-of-range conversion is undefined in C++: kept exact
        raise Unsupported("conversion %s -> %s" % (v.ty, to))

    def member_name(self, n):
        """`this->f` (possibly through a derived-to-base cast of this) -> 'f' ; else None"""
        n = self.strip(n)
        if n.get("kind") != "MemberExpr":
            return None
        b = n["inner"][0]
        while b.get("kind") in ("ImplicitCastExpr", "ParenExpr") and b.get("castKind", "UncheckedDerivedToBase") in ("UncheckedDerivedToBase", "DerivedToBase", "NoOp"):
            b = b["inner"][0]
        if b.get("kind") != "CXXThisExpr":
            return None
        return n.get("name")

    def lvalue(self, n):
        """('field', name) | ('local', name) | ('elt', vecfield, indexVal)"""
        n = self.strip(n)
        while n.get("kind") == "ImplicitCastExpr" and n.get("castKind") == "NoOp":
            n = self.strip(n["inner"][0])
        f = self.member_name(n)
        if f is not None:
            if self.info.kind(f) is None:
                raise Unsupported("member %s is not a translated data member" % f)
            return ("field", f)
        if n.get("kind") == "DeclRefExpr" and n["referencedDecl"].get("kind") == "VarDecl":
            nm = n["referencedDecl"]["name"]
            if nm in self.env:
                return ("local", nm)
            raise Unsupported("assignment to non-local variable %s" % nm)
        if n.get("kind") == "CXXOperatorCallExpr" and len(n.get("inner", [])) == 3:
            callee = n["inner"][0]
            while callee.get("kind") == "ImplicitCastExpr":
                callee = callee["inner"][0]
            if callee.get("referencedDecl", {}).get("name") == "operator[]":
                vf = self.member_name(n["inner"][1])
                if vf is None or not is_vec(self.info.kind(vf)):
                    raise Unsupported("operator[] on something that is not a vector member")
                idx = self.convert(self.expr(n["inner"][2]), "u64")
                return ("elt", vf, idx)
        raise Unsupported("assignment target %s" % n.get("kind"))

    def read(self, name):
        if name not in self.env:
            raise Unsupported("read of %s before it is initialised" % name)
        return self.env[name]

    # ---------------------------------------------------------------- expressions
    def expr(self, n):
        n = self.strip(n)
        k = n.get("kind")
        if k == "IntegerLiteral":
            ty = classify(n.get("type")) or "s32"
            v = int(n["value"])
            return Val(zlit(v), ty, v)
        if k == "CXXBoolLiteralExpr":
            return Val("true" if n.get("value") else "false", "bool")
        if k == "FloatingLiteral":
            self.used_T = True
            m, e = dec_pair(repr(float(n["value"])))
            return Val("(nofDec N (%d)%%Z (%d)%%Z)" % (m, e), "f64", float(n["value"]))
        if k in ("ImplicitCastExpr", "CXXStaticCastExpr", "CXXFunctionalCastExpr", "CStyleCastExpr"):
            ck = n.get("castKind")
            inner = n["inner"][-1]
            if ck in ("LValueToRValue", "NoOp", "UncheckedDerivedToBase", "DerivedToBase"):
                return self.expr(inner)
            if ck in ("IntegralCast", "IntegralToFloating", "FloatingToIntegral", "IntegralToBoolean"):
                to = classify(n.get("type"))
                if to is None or isinstance(to, tuple):
                    raise Unsupported("cast to %s" % n.get("type", {}).get("qualType"))
                return self.convert(self.expr(inner), to)
            raise Unsupported("cast %s" % ck)
        if k == "DeclRefExpr":
            nm = n["referencedDecl"]["name"]
            if n["referencedDecl"].get("kind") in ("ParmVarDecl", "VarDecl") and nm in self.env:
                return self.env[nm]
            raise Unsupported("reference to %s %s" % (n["referencedDecl"].get("kind"), nm))
        if k == "MemberExpr":
            f = self.member_name(n)
            if f is None:
                raise Unsupported("member access that is not this->member")
            kind = self.info.kind(f)
            if kind is None:
                raise Unsupported("member %s is not a translated data member" % f)
            return self.read(f)
        if k == "UnaryOperator":
            op = n.get("opcode")
            a = self.expr(n["inner"][0])
            if op == "+":
                return a
            if op == "-" and a.ty == "f64":
                return Val("(nneg N %s)" % a.term, "f64", None if a.const is None else -a.const)
            if op == "-" and a.ty in WRAP:
                ty = classify(n.get("type")) or a.ty
                a = self.convert(a, ty)
                if a.const is not None:
                    c = wrap_const(-a.const, ty)
                    return Val(zlit(c), ty, c)
                return Val("(%s (- %s))" % (WRAP[ty], a.term), ty)
            if op == "!" and a.ty == "bool":
                return Val("(negb %s)" % a.term, "bool")
            raise Unsupported("unary %s on %s" % (op, a.ty))
        if k == "BinaryOperator":
            op = n.get("opcode")
            if op in ("&&", "||"):
                a, b = self.expr(n["inner"][0]), self.expr(n["inner"][1])
                if a.ty != "bool" or b.ty != "bool":
                    raise Unsupported("logical operator on non-bool")
                return Val("(%s %s %s)" % ("andb" if op == "&&" else "orb", a.term, b.term), "bool")
            if op in ("=", ",") or (op.endswith("=") and op not in ("==", "!=", "<=", ">=")):
                raise Unsupported("assignment / comma used as an expression")
            a, b = self.expr(n["inner"][0]), self.expr(n["inner"][1])
            return self.binop(op, a, b, classify(n.get("type")))
        if k == "ConditionalOperator":
            c, a, b = (self.expr(x) for x in n["inner"])
            if c.ty != "bool" or a.ty != b.ty:
                raise Unsupported("conditional operator types")
            return Val("(if %s then %s else %s)" % (c.term, a.term, b.term), a.ty)
        if k == "CXXMemberCallExpr":
            callee = n["inner"][0]
            if callee.get("kind") == "MemberExpr" and callee.get("name") == "size" and len(n["inner"]) == 1:
                vf = self.member_name(self.unnoop(callee["inner"][0]))
                if vf is not None and is_vec(self.info.kind(vf)):
                    return Val("(vec_size %s)" % self.read(vf).term, "u64")
            raise Unsupported("member call %s" % callee.get("name"))
        if k == "CXXOperatorCallExpr":
            callee = n["inner"][0]
            while callee.get("kind") == "ImplicitCastExpr":
                callee = callee["inner"][0]
            if callee.get("referencedDecl", {}).get("name") == "operator[]" and len(n["inner"]) == 3:
                vf = self.member_name(self.unnoop(n["inner"][1]))
                kind = self.info.kind(vf) if vf else None
                idx = self.convert(self.expr(n["inner"][2]), "u64")
                if isinstance(kind, tuple):
                    return Val("(vec_getZ %s %s)" % (self.read(vf).term, idx.term), kind[1])
                if kind == "vecA":
                    return Val("(vec_get %s %s)" % (self.read(vf).term, idx.term), "optelem")
            raise Unsupported("operator call %s" % callee.get("referencedDecl", {}).get("name"))
        if k == "CallExpr":
            callee = n["inner"][0]
            while callee.get("kind") == "ImplicitCastExpr":
                callee = callee["inner"][0]
            if callee.get("referencedDecl", {}).get("name") == "quiet_NaN" and len(n["inner"]) == 1 and classify(n.get("type")) == "f64":
                self.used_T = True
                return Val("None", "optf")
            raise Unsupported("call to %s" % callee.get("referencedDecl", {}).get("name"))
        raise Unsupported("expression %s" % k)

    def unnoop(self, n):
        n = self.strip(n)
        while n.get("kind") == "ImplicitCastExpr" and n.get("castKind") in ("NoOp", "LValueToRValue"):
            n = self.strip(n["inner"][0])
        return n

    def binop(self, op, a, b, rty):
        cmpops = {"==", "!=", "<", ">", "<=", ">="}
        if a.ty == "f64" and b.ty == "f64":
            self.used_T = True
            if op in ("+", "-", "*", "/"):
                return Val("(%s N %s %s)" % ({"+": "nadd", "-": "nsub", "*": "nmul", "/": "ndiv"}[op], a.term, b.term), "f64")
            if op in cmpops:
                t = {"<": "(nltb N %s %s)" % (a.term, b.term), ">": "(nltb N %s %s)" % (b.term, a.term),
                     "<=": "(nleb N %s %s)" % (a.term, b.term), ">=": "(nleb N %s %s)" % (b.term, a.term),
                     "==": "(neqb N %s %s)" % (a.term, b.term), "!=": "(negb (neqb N %s %s))" % (a.term, b.term)}[op]
                return Val(t, "bool")
            raise Unsupported("floating operator %s" % op)
        if a.ty in WRAP and b.ty in WRAP:
            if a.ty != b.ty:
                raise Unsupported("integer operands of different types %s %s (expected clang's usual conversions)" % (a.ty, b.ty))
            ty = a.ty
            if op in cmpops:
                t = {"==": "(Z.eqb %s %s)", "!=": "(negb (Z.eqb %s %s))", "<": "(Z.ltb %s %s)", "<=": "(Z.leb %s %s)"}.get(op)
                if t is not None:
                    return Val(t % (a.term, b.term), "bool")
                t = {">": "(Z.ltb %s %s)", ">=": "(Z.leb %s %s)"}[op]
                return Val(t % (b.term, a.term), "bool")
            if rty is not None and rty != ty:
                raise Unsupported("integer operator result type %s on %s operands" % (rty, ty))
            if op in ("+", "-", "*"):
                if a.const is not None and b.const is not None:
                    c = wrap_const({"+": a.const + b.const, "-": a.const - b.const, "*": a.const * b.const}[op], ty)
                    return Val(zlit(c), ty, c)
                return Val("(%s (%s %s %s))" % (WRAP[ty], a.term, op, b.term), ty)
            if op in ("%", "/"):
                if ty == "u64":
                    return Val("(%s %s %s)" % ("Z.modulo" if op == "%" else "Z.div", a.term, b.term), ty)
                return Val("(%s (%s %s %s))" % (WRAP[ty], "Z.rem" if op == "%" else "Z.quot", a.term, b.term), ty)
            raise Unsupported("integer operator %s" % op)
        if a.ty == "bool" and b.ty == "bool" and op in ("==", "!="):
            t = "(Bool.eqb %s %s)" % (a.term, b.term)
            return Val(t if op == "==" else "(negb %s)" % t, "bool")
        raise Unsupported("operator %s on %s, %s" % (op, a.ty, b.ty))

    # ---------------------------------------------------------------- statements
    def store_field(self, f, v):
        kind = self.info.kind(f)
        if kind == "f64":
            if v.ty == "f64":
                v = Val("(Some %s)" % v.term, "optf")
            if v.ty != "optf":
                raise Unsupported("store of %s into double member %s" % (v.ty, f))
            self.used_T = True
            self.env[f] = self.bind(f, v)
        elif kind in WRAP:
            self.env[f] = self.bind(f, self.convert(v, kind))
        else:
            raise Unsupported("assignment to member %s" % f)

    def assign(self, lhs, v):
        if lhs[0] == "field":
            self.store_field(lhs[1], v)
        elif lhs[0] == "local":
            ty = self.env[lhs[1]].ty
            self.env[lhs[1]] = self.bind(lhs[1], self.convert(v, ty))
        else:
            _, vf, idx = lhs
            kind = self.info.kind(vf)
            if isinstance(kind, tuple):
                v = self.convert(v, kind[1])
            elif v.ty != "elem":
                raise Unsupported("store of %s into an element of %s" % (v.ty, vf))
            self.env[vf] = self.bind(vf, Val("(vec_set %s %s %s)" % (self.read(vf).term, idx.term, v.term), self.read(vf).ty))

    def current(self, lhs):
        if lhs[0] in ("field", "local"):
            v = self.read(lhs[1])
            if v.ty == "optf":
                raise Unsupported("compound assignment on a double member that may hold NaN")
            return v
        _, vf, idx = lhs
        kind = self.info.kind(vf)
        if not isinstance(kind, tuple):
            raise Unsupported("compound assignment on a vector element of class type")
        return Val("(vec_getZ %s %s)" % (self.read(vf).term, idx.term), kind[1])

    def stmt(self, st, last=False):
        st0 = st
        st = self.strip(st)
        k = st.get("kind")
        if k == "CompoundStmt":
            self.block(st.get("inner", []), last)
        elif k == "NullStmt":
            pass
        elif k == "DeclStmt":
            for v in st.get("inner", []):
                if v.get("kind") != "VarDecl":
                    raise Unsupported("declaration %s" % v.get("kind"))
                kind = classify(v.get("type"))
                if kind == "lock":
                    continue                       # std::lock_guard<std::mutex> lock(mutex_): no sequential effect (C19)
                init = [c for c in v.get("inner", []) if isinstance(c, dict)]
                if kind not in ("u64", "s64", "s32", "f64", "bool") or not init:
                    raise Unsupported("local %s of type %s" % (v.get("name"), v.get("type", {}).get("qualType")))
                val = self.convert(self.expr(init[0]), kind)
                self.env[v["name"]] = self.bind(v["name"], val)
                self.scopes[-1].add(v["name"])
        elif k == "BinaryOperator" and st.get("opcode") == "=":
            lhs = self.lvalue(st["inner"][0])
            self.assign(lhs, self.expr(st["inner"][1]))
        elif k == "CompoundAssignOperator":
            op = st.get("opcode", "")[:-1]
            lhs = self.lvalue(st["inner"][0])
            cl, cr = classify(st.get("computeLHSType")), classify(st.get("computeResultType"))
            if cl is None or cr is None or cl != cr or isinstance(cl, tuple):
                raise Unsupported("compound assignment computed at %s / %s" % (cl, cr))
            a = self.convert(self.current(lhs), cl)
            b = self.convert(self.expr(st["inner"][1]), cl)
            self.assign(lhs, self.binop(op, a, b, cr))
        elif k == "UnaryOperator" and st.get("opcode") in ("++", "--"):
            lhs = self.lvalue(st["inner"][0])
            a = self.current(lhs)
            if a.ty not in WRAP:
                raise Unsupported("++ / -- on %s" % a.ty)
            self.assign(lhs, self.binop("+" if st["opcode"] == "++" else "-", a, Val("1", a.ty, 1), a.ty))
        elif k == "CXXOperatorCallExpr":
            callee = st["inner"][0]
            while callee.get("kind") == "ImplicitCastExpr":
                callee = callee["inner"][0]
            if callee.get("referencedDecl", {}).get("name") == "operator=" and len(st["inner"]) == 3:
                lhs = self.lvalue(st["inner"][1])
                if lhs[0] != "elt":
                    raise Unsupported("class-type assignment to something that is not a vector element")
                self.assign(lhs, self.elem(st["inner"][2]))
            else:
                raise Unsupported("operator call statement %s" % callee.get("referencedDecl", {}).get("name"))
        elif k == "CXXMemberCallExpr":
            callee = st["inner"][0]
            args = st["inner"][1:]
            vf = self.member_name(self.unnoop(callee["inner"][0])) if callee.get("kind") == "MemberExpr" else None
            kind = self.info.kind(vf) if vf else None
            if not is_vec(kind):
                raise Unsupported("member call statement %s" % callee.get("name"))
            nm = callee.get("name")
            if nm == "push_back" and len(args) == 1:
                v = self.convert(self.expr(args[0]), kind[1]) if isinstance(kind, tuple) else self.elem(args[0])
                self.env[vf] = self.bind(vf, Val("(vec_push %s %s)" % (self.read(vf).term, v.term), self.read(vf).ty))
            elif nm == "clear" and not args:
                self.env[vf] = Val("nil", self.read(vf).ty, const=())
            elif nm == "reserve" and len(args) == 1:
                self.expr(args[0])                 # capacity only; the argument must still be translatable
            else:
                raise Unsupported("vector operation %s" % nm)
        elif k == "IfStmt":
            parts = [c for c in st.get("inner", []) if isinstance(c, dict) and c]
            if len(parts) not in (2, 3) or st.get("hasInit") or st.get("hasVar"):
                raise Unsupported("if statement shape")
            c = self.expr(parts[0])
            if c.ty != "bool":
                c = self.convert(c, "bool")
            c = self.bind("c", c)
            before = dict(self.env)
            self.scopes.append(set())
            self.stmt(parts[1])
            e1 = self.drop_scope()
            self.env = dict(before)
            if len(parts) == 3:
                self.scopes.append(set())
                self.stmt(parts[2])
                e2 = self.drop_scope()
            else:
                e2 = dict(before)
            self.env = dict(before)
            for nm in before:
                a, b = e1[nm], e2[nm]
                if a.term != b.term:
                    self.env[nm] = self.bind(nm, Val("(if %s then %s else %s)" % (c.term, a.term, b.term), a.ty))
        elif k == "ReturnStmt":
            if not last:
                raise Unsupported("return that is not the last statement")
            inner = [c for c in st.get("inner", []) if isinstance(c, dict)]
            if inner:
                self.result = self.retval(inner[0])
        elif k in ("CStyleCastExpr", "CXXStaticCastExpr", "CXXFunctionalCastExpr") and st.get("type", {}).get("qualType") == "void":
            pass
        else:
            raise Unsupported("statement %s" % st0.get("kind"))

    def drop_scope(self):
        env = dict(self.env)
        for nm in self.scopes.pop():
            env.pop(nm, None)
        return env

    def block(self, stmts, last=False):
        self.scopes.append(set())
        for i, s in enumerate(stmts):
            if self.result is not None:
                raise Unsupported("statement after return")
            self.stmt(s, last and i == len(stmts) - 1)
        self.env = self.drop_scope()

    def elem(self, n):
        """an expression of the element type of a class-type vector: a parameter of that type"""
        n = self.unnoop(n)
        if n.get("kind") == "DeclRefExpr" and n["referencedDecl"].get("kind") == "ParmVarDecl":
            v = self.env.get(n["referencedDecl"]["name"])
            if v is not None and v.ty == "elem":
                return v
        raise Unsupported("element expression %s" % n.get("kind"))

    def retval(self, n):
        return self.expr(n)

    # ---------------------------------------------------------------- whole functions
    def params(self, decl, args=None):
        """bind the parameters: to fresh Coq binders (args None) or to given values (inlined constructor call)"""
        binders = []
        ps = [c for c in decl.get("inner", []) if c.get("kind") == "ParmVarDecl"]
        if args is not None and len(args) != len(ps):
            raise Unsupported("constructor call with %d arguments for %d parameters" % (len(args), len(ps)))
        new = {}
        for i, p in enumerate(ps):
            kind = classify(p.get("type"))
            nm = p.get("name") or "arg%d" % i
            if kind in ("u64", "s64", "s32", "bool"):
                cty = "Z" if kind != "bool" else "bool"
            elif kind == "f64":
                cty = "T"
                self.used_T = True
            elif kind is None and self.info.kind_elem_param(p):
                kind, cty = "elem", "A"
            else:
                raise Unsupported("parameter %s of type %s" % (nm, p.get("type", {}).get("qualType")))
            if args is None:
                new[nm] = Val("p_" + nm, kind)
                binders.append("(p_%s : %s)" % (nm, cty))
            else:
                new[nm] = self.convert(args[i], kind) if kind != "elem" else args[i]
        return new, binders

    def run_ctor(self, decl, args=None, depth=0):
        """execute a constructor: initialisers (base / delegating ones inlined), then the body"""
        if depth > 4:
            raise Unsupported("constructor delegation too deep")
        new, binders = self.params(decl, args)
        saved = {k: v for k, v in self.env.items() if self.info.kind(k) is None}
        fields = {k: v for k, v in self.env.items() if self.info.kind(k) is not None}
        self.env = dict(fields)
        self.env.update(new)
        for ini in decl.get("inner", []):
            if ini.get("kind") != "CXXCtorInitializer":
                continue
            e = [c for c in ini.get("inner", []) if isinstance(c, dict)]
            if "anyInit" in ini:
                f = ini["anyInit"].get("name")
                kind = self.info.kind(f)
                if kind is None:
                    if classify(ini["anyInit"].get("type")) == "mutex" or (e and classify(e[0].get("type")) == "mutex"):
                        continue
                    raise Unsupported("initialiser of untranslated member %s" % f)
                if kind == "vecA" or isinstance(kind, tuple):
                    x = self.strip(e[0]) if e else {}
                    if x.get("kind") == "CXXConstructExpr" and not [c for c in x.get("inner", []) if isinstance(c, dict)]:
                        self.env[f] = Val("nil", "vec", const=())
                    else:
                        raise Unsupported("vector member %s not default-constructed" % f)
                else:
                    self.store_field(f, self.expr(e[0]))
            elif "baseInit" in ini or "delegatingInit" in ini:
                tname = clean((ini.get("baseInit") or ini.get("delegatingInit")).get("desugaredQualType") or
                              (ini.get("baseInit") or ini.get("delegatingInit")).get("qualType", ""))
                cname = tname.replace("romea::core::", "").split("::")[0].split("<")[0]
                target_cls = self.classes.get(cname)
                x = self.strip(e[0]) if e else {}
                if target_cls is None or x.get("kind") != "CXXConstructExpr":
                    raise Unsupported("base / delegating initialiser for %s" % tname)
                cargs = [self.expr(a) for a in x.get("inner", []) if isinstance(a, dict)]
                cands = [c for c in target_cls.ctors if len([p for p in c.get("inner", []) if p.get("kind") == "ParmVarDecl"]) == len(cargs)
                         and not self.is_copy_ctor(c, cname)]
                if len(cands) != 1:
                    raise Unsupported("%d candidate constructors of %s with %d parameters" % (len(cands), cname, len(cargs)))
                self.run_ctor(cands[0], cargs, depth + 1)
            else:
                raise Unsupported("constructor initialiser kind")
        body = [c for c in decl.get("inner", []) if c.get("kind") == "CompoundStmt"]
        self.block(body[0].get("inner", []) if body else [])
        fields = {k: v for k, v in self.env.items() if self.info.kind(k) is not None}
        self.env = dict(saved)
        self.env.update(fields)
        return binders

    def is_copy_ctor(self, c, cname):
        ps = [p for p in c.get("inner", []) if p.get("kind") == "ParmVarDecl"]
        return len(ps) == 1 and cname in ps[0].get("type", {}).get("qualType", "") and "&" in ps[0].get("type", {}).get("qualType", "")

    def record(self):
        missing = [f for f, _ in self.info.fields if f not in self.env]
        if missing:
            raise Unsupported("members left uninitialised: %s" % ", ".join(missing))
        return "{| " + "; ".join("%s%s := %s" % (self.info.prefix, f, self.env[f].term) for f, _ in self.info.fields) + " |}"

    def text(self, result):
        return "".join("  let %s := %s in\n" % (nm, t) for nm, t in self.lets) + "  " + result


def kind_elem_param(self, p):
    q = p.get("type", {}).get("qualType", "")
    return self.elem_type is not None and clean(q) == clean(self.elem_type)


ClassInfo.kind_elem_param = kind_elem_param
ClassInfo.elem_type = None

COQTY = {"u64": "Z", "s64": "Z", "s32": "Z", "f64": "option T", "vecA": "list A"}
RET = {"u64": "Z", "s64": "Z", "s32": "Z", "bool": "bool", "f64": "T", "optf": "option T", "optelem": "option A", "elem": "A"}


def coq_field_type(kind):
    return "list Z" if isinstance(kind, tuple) else COQTY[kind]


def gen_method(info, classes, coq_name, decl, out, errors, src):
    try:
        ex = Exec(info, classes)
        for f, kind in info.fields:
            ex.env[f] = Val("(%s%s s)" % (info.prefix, f), "optf" if kind == "f64" else (kind if kind in WRAP else "vec"))
        new, binders = ex.params(decl)
        ex.env.update(new)
        body = [c for c in decl.get("inner", []) if c.get("kind") == "CompoundStmt"][0]
        ex.block(body.get("inner", []), last=True)
        is_const = decl.get("type", {}).get("qualType", "").rstrip().endswith("const")
        rtype = clean(decl.get("type", {}).get("qualType", "").split("(")[0])
        if rtype == "void" and ex.result is None:
            txt, rty = ex.text(ex.record()), info.prefix + "state"
        elif ex.result is not None and is_const:
            for f, _ in info.fields:
                if ex.env[f].term != "(%s%s s)" % (info.prefix, f):
                    raise Unsupported("const member function modifies %s" % f)
            txt, rty = ex.text(ex.result.term), RET[ex.result.ty]
        else:
            raise Unsupported("member function that both returns a value and may modify the object")
        out.append("(* %s  %s::%s *)" % (src, info.name, decl.get("name")))
        out.append("Definition %s (s : %sstate)%s : %s :=\n%s.\n" % (coq_name, info.prefix, "".join(" " + b for b in binders), rty, txt))
        return True
    except Unsupported as e:
        errors.append((PROP, "%s (%s::%s in %s): %s" % (coq_name, info.name, decl.get("name"), src, e)))
        out.append("(* %s: NOT TRANSLATED from %s — %s *)\n" % (coq_name, src, str(e).replace("*)", "* )").replace("(*", "( *")[:300]))
        return False
    except (KeyError, IndexError, TypeError, AttributeError, ValueError) as e:      # unexpected AST shape: fail closed
        errors.append((PROP, "%s (%s::%s in %s): unexpected AST shape (%r)" % (coq_name, info.name, decl.get("name"), src, e)))
        out.append("(* %s: NOT TRANSLATED from %s — unexpected AST shape *)\n" % (coq_name, src))
        return False


def gen_ctor(info, classes, coq_name, decl, out, errors, src):
    try:
        ex = Exec(info, classes)
        binders = ex.run_ctor(decl)
        txt = ex.text(ex.record())
        out.append("(* %s  constructor %s(%s) *)" % (src, info.name, decl.get("type", {}).get("qualType", "")))
        out.append("Definition %s%s : %sstate :=\n%s.\n" % (coq_name, "".join(" " + b for b in binders), info.prefix, txt))
        return True
    except Unsupported as e:
        errors.append((PROP, "%s (constructor of %s in %s): %s" % (coq_name, info.name, src, e)))
        out.append("(* %s: NOT TRANSLATED from %s — %s *)\n" % (coq_name, src, str(e).replace("*)", "* )").replace("(*", "( *")[:300]))
        return False
    except (KeyError, IndexError, TypeError, AttributeError, ValueError) as e:
        errors.append((PROP, "%s (constructor of %s in %s): unexpected AST shape (%r)" % (coq_name, info.name, src, e)))
        out.append("(* %s: NOT TRANSLATED from %s — unexpected AST shape *)\n" % (coq_name, src))
        return False


def record_decl(info, out):
    out.append("Record %sstate := mk_%sstate {\n%s\n}.\n" % (
        info.prefix, info.prefix, ";\n".join("  %s%s : %s" % (info.prefix, f, coq_field_type(k)) for f, k in info.fields)))


def pick_ctor(info, nparams):
    c = [d for d in info.ctors if len([p for p in d.get("inner", []) if p.get("kind") == "ParmVarDecl"]) == nparams
         and not Exec(info, {}).is_copy_ctor(d, info.name)]
    if len(c) != 1:
        raise Unsupported("%d constructors of %s with %d parameters" % (len(c), info.name, nparams))
    return c[0]


def generate(repo):
    """returns (text, [(property, error)])"""
    from concurrent.futures import ThreadPoolExecutor
    errors = []
    reqs = [("src/monitoring/OnlineAverage.cpp", "romea::core::OnlineAverage", ""),
            ("src/monitoring/OnlineVariance.cpp", "romea::core::OnlineVariance", ""),
            (RING_HPP, "romea::core::RingOfEigenVector", RING_TU)]

    def one(r):
        try:
            return srcfuns.load_uncached(repo, *r)
        except Unsupported as e:
            return e
        except Exception as e:  # noqa  (clang missing, time-out, ...)
            return Unsupported(repr(e))
    with ThreadPoolExecutor(max_workers=3) as tp:
        asts = list(tp.map(one, reqs))

    head = ["(* GENERATED by translate/tr_C16_stats.py from the clang AST of the current sources"
            " (OnlineAverage.cpp, OnlineVariance.cpp, RingOfEigenVector.hpp). Do not edit. *)",
            "From Coq Require Import ZArith List Bool.", "From Romea Require Import Num OnlineStatsModel StatsSem.",
            "Local Open Scope Z_scope.", ""]
    out = list(head)
    classes = {}

    # ---- OnlineAverage, OnlineVariance
    out += ["Section SrcStats.", "Context {T : Type} (N : NumOps T).", ""]
    avg = ClassInfo("OnlineAverage", "avg_")
    var = ClassInfo("OnlineVariance", "var_")
    ok_avg = ok_var = False
    if isinstance(asts[0], Unsupported):
        errors.append((PROP, "OnlineAverage.cpp: %s" % asts[0]))
    else:
        try:
            walk_decls(asts[0], "OnlineAverage", avg)
            if not avg.fields:
                raise Unsupported("class OnlineAverage: no data members found")
            classes["OnlineAverage"] = avg
            ok_avg = True
        except Unsupported as e:
            errors.append((PROP, "OnlineAverage: %s" % e))
    if ok_avg:
        record_decl(avg, out)
        src = "src/monitoring/OnlineAverage.cpp"
        for nm, k in (("src_avg_ctor2", 2), ("src_avg_ctor1", 1)):
            try:
                gen_ctor(avg, classes, nm, pick_ctor(avg, k), out, errors, src)
            except Unsupported as e:
                errors.append((PROP, "%s: %s" % (nm, e)))
        for m in ("setWindowSize", "update", "reset", "isAvailable", "getAverage"):
            ds = avg.methods.get(m, [])
            if len(ds) != 1:
                errors.append((PROP, "src_avg_%s: %d definitions of OnlineAverage::%s" % (m, len(ds), m)))
                continue
            gen_method(avg, classes, "src_avg_" + m, ds[0], out, errors, src)
    if isinstance(asts[1], Unsupported):
        errors.append((PROP, "OnlineVariance.cpp: %s" % asts[1]))
    elif ok_avg:
        try:
            var.fields = list(avg.fields)
            walk_decls(asts[1], "OnlineVariance", var)
            if len(var.fields) == len(avg.fields):
                raise Unsupported("class OnlineVariance: no data members found")
            classes["OnlineVariance"] = var
            ok_var = True
        except Unsupported as e:
            errors.append((PROP, "OnlineVariance: %s" % e))
    if ok_var:
        record_decl(var, out)
        src = "src/monitoring/OnlineVariance.cpp"
        for nm, k in (("src_var_ctor2", 2), ("src_var_ctor1", 1)):
            try:
                gen_ctor(var, classes, nm, pick_ctor(var, k), out, errors, src)
            except Unsupported as e:
                errors.append((PROP, "%s: %s" % (nm, e)))
        for m in ("setWindowSize", "update", "reset", "getVariance"):
            ds = var.methods.get(m, [])
            if len(ds) != 1:
                errors.append((PROP, "src_var_%s: %d definitions of OnlineVariance::%s" % (m, len(ds), m)))
                continue
            gen_method(var, classes, "src_var_" + m, ds[0], out, errors, src)
        for m in ("isAvailable", "getAverage"):          # inherited, not overridden: the base-class body on the derived record
            if m in var.methods:
                errors.append((PROP, "src_var_%s: OnlineVariance now overrides %s" % (m, m)))
                continue
            ds = avg.methods.get(m, [])
            if len(ds) == 1:
                gen_method(var, classes, "src_var_" + m, ds[0], out, errors, "src/monitoring/OnlineAverage.cpp (inherited)")
    out += ["End SrcStats.", ""]

    # ---- RingOfEigenVector<V>, element type abstract
    out += ["Section SrcRing.", "Context {A : Type}.", ""]
    ring = ClassInfo("RingOfEigenVector", "ring_")
    if isinstance(asts[2], Unsupported):
        errors.append((PROP, "RingOfEigenVector.hpp: %s" % asts[2]))
    else:
        try:
            walk_decls(asts[2], "RingOfEigenVector", ring, spec=True)
            if not ring.fields:
                raise Unsupported("class RingOfEigenVector: no data members found in the instantiation")
            ring.elem_type = "Eigen::Matrix<double, 2, 1, 0>"
            classes["RingOfEigenVector"] = ring
            record_decl(ring, out)
            try:
                gen_ctor(ring, classes, "src_ring_ctor", pick_ctor(ring, 1), out, errors, RING_HPP)
            except Unsupported as e:
                errors.append((PROP, "src_ring_ctor: %s" % e))
            for m, nm in (("append", "append"), ("operator[]", "get"), ("size", "size"), ("clear", "clear")):
                ds = [d for d in ring.methods.get(m, [])]
                if len(ds) != 1:
                    errors.append((PROP, "src_ring_%s: %d definitions of RingOfEigenVector::%s" % (nm, len(ds), m)))
                    continue
                gen_method(ring, classes, "src_ring_" + nm, ds[0], out, errors, RING_HPP)
        except Unsupported as e:
            errors.append((PROP, "RingOfEigenVector: %s" % e))
    out += ["End SrcRing."]
    return "\n".join(out) + "\n", errors


def generate_to(gen_dir, repo):
    try:
        text, errors = generate(repo)
    except Exception as e:  # noqa — never raise: a failure here concerns C16 only
        text, errors = "(* GENERATED by translate/tr_C16_stats.py — translation failed: nothing generated *)\n", [(PROP, "translator failed: %r" % (e,))]
    os.makedirs(gen_dir, exist_ok=True)
    path = os.path.join(gen_dir, "SrcStats.v")
    old = open(path).read() if os.path.exists(path) else None
    if old != text:
        with open(path, "w") as f:
            f.write(text)
    return errors


if __name__ == "__main__":
    t, e = generate(os.environ.get("VERIF_REPO", "/repo"))
    print(t)
    if e:
        print("\n".join("%s: %s" % x for x in e), file=sys.stderr)
        sys.exit(2)
