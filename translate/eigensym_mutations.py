#!/usr/bin/env python3
"""eigensym_mutations.py — self-test of the syntactic Eigen tie (translate/eigensym.py + tr_C10/C11/C12_eigensym.py).

Usage:  VERIF_REPO=<scratch git worktree of /repo>  python3 translate/eigensym_mutations.py [C12|C11|C10 ...]
For every edit below the source file in $VERIF_REPO is changed, coq/gen/SrcEigen<id>.v is regenerated and
coq/SrcTie<id>*.v are recompiled (coqc, not the whole bin/check); the edit is then reverted with `git checkout`.
A BREAKING edit must end in TIE-BROKEN (a tie lemma no longer proves) or TRANSLATOR-REFUSED, a HARMLESS one in TIE-OK.
The script never touches /repo or /verif: it refuses to run unless $VERIF_REPO is set to something else."""
import os
import subprocess
import sys

HERE = os.path.dirname(os.path.abspath(__file__))
COQ = os.path.join(HERE, "..", "coq")
P3 = "src/geometry/Pose3D.cpp"
SM = "src/transform/SmartRotation3D.cpp"
MH = "include/romea_core_common/math/Matrix.hpp"
EA = "include/romea_core_common/math/EulerAngles.hpp"
PC = "include/romea_core_common/coordinates/PolarCoordinates.hpp"
SC = "include/romea_core_common/coordinates/SphericalCoordinates.hpp"
T3 = "src/geometry/Twist3D.cpp"

# (property, kind, name, [(file, old, new), ...])
EDITS = [
    ("C12", "BREAKING", "sign of J(4,3+k)", [(P3, "J(4, 3 + k) = a20 * dRotation(2, 0);", "J(4, 3 + k) = -a20 * dRotation(2, 0);")]),
    ("C12", "BREAKING", "swapped index in J(5,3+k)", [(P3, "a10 * dRotation(1, 0) - a00", "a10 * dRotation(0, 1) - a00")]),
    ("C12", "BREAKING", "R * dSdAngle[k] -> dSdAngle[k] * R", [(P3, "dRotation = R * dSdAngle[k];", "dRotation = dSdAngle[k] * R;")]),
    ("C12", "BREAKING", "S.col(2) <-> S.col(1)", [(P3, "S.col(2), -S.col(1);", "S.col(1), -S.col(2);")]),
    ("C12", "BREAKING", "a20 = 1/sqrt", [(P3, "double a20 = -1. / std::sqrt", "double a20 = 1. / std::sqrt")]),
    ("C12", "BREAKING", "dropped .transpose()", [(P3, "pose3D.covariance * J.transpose();", "pose3D.covariance * J;")]),
    ("C12", "BREAKING", "Rz*Ry*Rx -> Rx*Ry*Rz", [(SM, "R_ = Rz_ * Ry_ * Rx_;", "R_ = Rx_ * Ry_ * Rz_;")]),
    ("C12", "BREAKING", "dRxdAngleX_ starts as Zero (repairs the leftover: the model must follow)",
     [(SM, "dRxdAngleX_(Eigen::Matrix3d::Identity())", "dRxdAngleX_(Eigen::Matrix3d::Zero())")]),
    ("C12", "BREAKING", "dRdAngleY_ = Rz*dRy*Ry", [(SM, "dRdAngleY_ = Rz_ * dRydAngleY_ * Rx_;", "dRdAngleY_ = Rz_ * dRydAngleY_ * Ry_;")]),
    ("C12", "BREAKING", "sign of dS/dz rows", [(P3, "<< -S.row(1), S.row(0),", "<< S.row(1), -S.row(0),")]),
    ("C12", "BREAKING", "position block = rotation (the original defect)", [(P3, "J.block<3, 3>(0, 0) = R;", "J.block<3, 3>(0, 0) = rotation;")]),
    ("C12", "BREAKING", "position = R*p - T", [(P3, "R * pose3D.position + T;", "R * pose3D.position - T;")]),
    ("C12", "HARMLESS", "re-associated products in init", [(SM, "R_ = Rz_ * Ry_ * Rx_;", "R_ = Rz_ * (Ry_ * Rx_);"),
                                                           (SM, "dRdAngleX_ = Rz_ * Ry_ * dRxdAngleX_;", "dRdAngleX_ = Rz_ * (Ry_ * dRxdAngleX_);")]),
    ("C12", "HARMLESS", "hoisted denominator, 1/den, reordered J(3,.) expression, k <= 2; k++",
     [(P3, "  double a21 = r22 / (r21 * r21 + r22 * r22);\n  double a22 = r21 / (r21 * r21 + r22 * r22);\n",
       "  const double den = r22 * r22 + r21 * r21;\n  double a21 = r22 / den;\n  double a22 = r21 * (1. / den);\n"),
      (P3, "J(3, 3 + k) = a21 * dRotation(2, 1) - a22 * dRotation(2, 2);", "J(3, 3 + k) = -(a22 * dRotation(2, 2)) + dRotation(2, 1) * a21;"),
      (P3, "for (int k = 0; k < 3; ++k) {", "for (int k = 0; k <= 2; k++) {")]),
    ("C12", "HARMLESS", "explicit column vector, J*(C*J^T), T + R*p, orientation assigned first",
     [(P3, "Eigen::Vector3d::Zero(), S.col(2), -S.col(1);", "Eigen::Vector3d::Zero(), Eigen::Vector3d(S(0, 2), S(1, 2), S(2, 2)), -S.col(1);"),
      (P3, "J * pose3D.covariance * J.transpose();", "J * (pose3D.covariance * J.transpose());"),
      (P3, "  result.position = R * pose3D.position + T;\n  result.orientation = rotation3DToEulerAngles(rotation);\n",
       "  result.orientation = rotation3DToEulerAngles(rotation);\n  result.position = T + R * pose3D.position;\n")]),
    ("C12", "HARMLESS", "covariance through a 6x6 local: JC = J*C; JC * J^T",
     [(P3, "  result.covariance = J * pose3D.covariance * J.transpose();",
       "  const Eigen::Matrix6d JC = J * pose3D.covariance;\n  result.covariance = JC * J.transpose();")]),
    ("C12", "BREAKING", "covariance through a 6x6 local, transpose dropped",
     [(P3, "  result.covariance = J * pose3D.covariance * J.transpose();",
       "  const Eigen::Matrix6d JC = J * pose3D.covariance;\n  result.covariance = JC * J;")]),
    ("C12", "HARMLESS", "renamed locals", [(P3, "Eigen::Matrix6d J = ", "Eigen::Matrix6d jac = "), (P3, "  J.block<3, 3>", "  jac.block<3, 3>"),
                                           (P3, "    J(3, 3 + k)", "    jac(3, 3 + k)"), (P3, "    J(4, 3 + k)", "    jac(4, 3 + k)"),
                                           (P3, "    J(5, 3 + k)", "    jac(5, 3 + k)"),
                                           (P3, "J * pose3D.covariance * J.transpose();", "jac * pose3D.covariance * jac.transpose();")]),
    ("C11", "BREAKING", "toSe2Covariance reads column 4", [(MH, "se2Covariance(1, 2) = se3Covariance(1, 5);", "se2Covariance(1, 2) = se3Covariance(1, 4);")]),
    ("C11", "BREAKING", "yaw taken from pitch", [(P3, "pose2d.yaw = pose3d.orientation.z();", "pose2d.yaw = pose3d.orientation.y();")]),
    ("C11", "BREAKING", "toPosition3D takes the angular block", [(P3, "pose3d.covariance.block<3, 3>(0, 0);", "pose3d.covariance.block<3, 3>(3, 3);")]),
    ("C11", "BREAKING", "vy taken from vx", [(T3, "twist2d.linearSpeeds.y() = twist3d.linearSpeeds.y();", "twist2d.linearSpeeds.y() = twist3d.linearSpeeds.x();")]),
    ("C11", "BREAKING", "toSe3Covariance transposed entry", [(MH, "se3Covariance(5, 0) = se2Covariance(2, 0);", "se3Covariance(5, 0) = se2Covariance(0, 2);")]),
    ("C11", "HARMLESS", "head<2>() column copy, loop, position via head<2>()",
     [(MH, "  se2Covariance(0, 2) = se3Covariance(0, 5);\n  se2Covariance(1, 2) = se3Covariance(1, 5);\n",
       "  se2Covariance.col(2).template head<2>() = se3Covariance.col(5).template head<2>();\n"),
      (MH, "  se2Covariance(2, 0) = se3Covariance(5, 0);\n  se2Covariance(2, 1) = se3Covariance(5, 1);\n  se2Covariance(2, 2) = se3Covariance(5, 5);\n",
       "  se2Covariance(2, 2) = se3Covariance(5, 5);\n  for (int j = 0; j < 2; ++j) {\n    se2Covariance(2, j) = se3Covariance(5, j);\n  }\n"),
      (P3, "  pose2d.position.x() = pose3d.position.x();\n  pose2d.position.y() = pose3d.position.y();\n", "  pose2d.position = pose3d.position.head<2>();\n")]),
    ("C10", "BREAKING", "yaw axis fed with angle 0", [(EA, "Eigen::AngleAxis<Scalar>(eulerAngles(2), Eigen::Matrix<Scalar, 3, 1>::UnitZ())",
                                                       "Eigen::AngleAxis<Scalar>(eulerAngles(0), Eigen::Matrix<Scalar, 3, 1>::UnitZ())")]),
    ("C10", "BREAKING", "2D rotation transposed", [(EA, "std::cos(eulerAngle), -std::sin(eulerAngle),", "std::cos(eulerAngle), std::sin(eulerAngle),"),
                                                   (EA, "         std::sin(eulerAngle), std::cos(eulerAngle)).finished();",
                                                    "         -std::sin(eulerAngle), std::cos(eulerAngle)).finished();")]),
    ("C10", "BREAKING", "dropped normalized()", [(EA, "quaternion.normalized().toRotationMatrix()", "quaternion.toRotationMatrix()")]),
    ("C10", "BREAKING", "polar azimut = atan2(x, y)", [(PC, "    return std::atan2(point.y(), point.x());\n  }\n\n  template<typename Scalar>\n  static Scalar azimut(const HomogeneousCoordinates2",
                                                      "    return std::atan2(point.x(), point.y());\n  }\n\n  template<typename Scalar>\n  static Scalar azimut(const HomogeneousCoordinates2")]),
    ("C10", "BREAKING", "spherical constructor passes (range, elevation) to the polar base",
     [(SC, ": PolarCoordinates<Scalar>(range, azimut),", ": PolarCoordinates<Scalar>(range, elevation),")]),
    ("C10", "HARMLESS", "local quaternion + toRotationMatrix(); 2D builder with locals",
     [(EA, "  return Eigen::Matrix<Scalar, 3, 3>(eulerAnglesToQuaternion(eulerAngles));",
       "  const Eigen::Quaternion<Scalar> q = eulerAnglesToQuaternion(eulerAngles);\n  return q.toRotationMatrix();"),
      (EA, "  return (Eigen::Matrix<Scalar, 2, 2>() << std::cos(eulerAngle), -std::sin(eulerAngle),\n         std::sin(eulerAngle), std::cos(eulerAngle)).finished();",
       "  const Scalar c = std::cos(eulerAngle);\n  const Scalar s = std::sin(eulerAngle);\n  Eigen::Matrix<Scalar, 2, 2> m;\n  m << c, -s, s, c;\n  return m;")]),
]


def regen_and_compile(pid, repo):
    sys.path.insert(0, HERE)
    for m in [m for m in sys.modules if m.startswith("tr_C1") or m == "eigensym"]:
        del sys.modules[m]
    mod = __import__("tr_%s_eigensym" % pid)
    errs = mod.generate_to(os.path.join(COQ, "gen"), repo)
    files = ["gen/SrcEigen%s.v" % pid] + sorted(f for f in os.listdir(COQ) if f.startswith("SrcTie%s" % pid) and f.endswith(".v"))
    for f in files:
        p = subprocess.run(["timeout", "900", "coqc", "-q", "-Q", ".", "Romea", f], cwd=COQ, capture_output=True, text=True)
        if p.returncode != 0:
            msg = " ".join((p.stdout + p.stderr).split())[:260]
            return ("TRANSLATOR-REFUSED (%s); " % "; ".join(e for _, e in errs) if errs else "") + "TIE-BROKEN in %s: %s" % (f, msg)
    return "TRANSLATOR-REFUSED: %s" % "; ".join(e for _, e in errs) if errs else "TIE-OK"


def main():
    repo = os.environ.get("VERIF_REPO", "")
    if not repo or os.path.realpath(repo) in ("/repo", "/verif"):
        sys.exit("set VERIF_REPO to a scratch worktree of /repo")
    want = sys.argv[1:] or ["C12", "C11", "C10"]
    bad = 0
    for pid, kind, name, edits in EDITS:
        if pid not in want:
            continue
        try:
            for f, old, new in edits:
                path = os.path.join(repo, f)
                s = open(path).read()
                if old not in s:
                    raise RuntimeError("text to edit not found in %s: %r" % (f, old[:50]))
                open(path, "w").write(s.replace(old, new))
            res = regen_and_compile(pid, repo)
        except RuntimeError as e:
            res = "SKIPPED: %s" % e
        finally:
            subprocess.run(["git", "-C", repo, "checkout", "--", "."], check=True)
        ok = res.startswith("SKIPPED") or (res.startswith("TIE-OK") if kind == "HARMLESS" else not res.startswith("TIE-OK"))
        bad += 0 if ok else 1
        print("%s %-8s %-70s %s%s" % (pid, kind, name, "" if ok else "UNEXPECTED ", res), flush=True)
    for pid in want:
        print("%s restored tree: %s" % (pid, regen_and_compile(pid, repo)), flush=True)
    sys.exit(1 if bad else 0)


if __name__ == "__main__":
    main()
