#!/usr/bin/env python3
"""tr_C07_ls.py — plug-in translator for C07 (and through it C05 / C12): the class template romea::core::LeastSquares<RealType>
(src/regression/leastsquares/LeastSquares.cpp, explicitly instantiated there for float and double)  ->  coq/gen/SrcLs.v.

The clang JSON AST of the INSTANTIATED members of LeastSquares<double> is executed symbolically and yields, on every run,
  * the record [src_ls] of the data members, in declaration order (int -> nat, Vector -> list T, Matrix -> dmat);
  * one Gallina state transformer per member function:
      src_new0 / src_new1 / src_new2 (the three constructors), src_setEstimateSize, src_setDataSize, src_setPreconditionner2 (Ac, Bc),
      src_setPreconditionner1 (Ac), src_getJ / src_getY / src_getW (+ src_get?_put: what a store through the returned reference
      does), src_computeJTJ_, src_computeJTY_, src_weightJAndY_, src_estimateUsingCholeskyDecomposition, src_estimateUsingSVD,
      src_weightedEstimate, src_computeEstimateCovariance;
    a void method is [params -> src_ls -> src_ls], a value-returning one [params -> src_ls -> src_ls * value], a constructor
    [params -> src_ls];
  * the float instantiation is translated too and must give the same text (the class is one template: a `if constexpr`-like
    divergence between the two would show).
coq/SrcTieLs.v (reading of the record as the model's state, covariance) and coq/SrcTieC07.v prove every generated transformer equal to
the operation of coq/LsModel.v the theorems of Properties_C07.v are about, for every numeric dictionary; coq/SrcTieC12Ls.v ties
computeEstimateCovariance to PoseCovModel.ls_covariance for C12.

TRUSTED VOCABULARY (coq/SrcEigenDyn.v; each Eigen operation is mapped to ONE named operation there):
  Matrix() Vector() -> dm_empty dv_empty;  Matrix::Zero(r,c) Identity(r,c) Constant(r,c,x) -> dm_zero dm_identity dm_const;
  Vector::Zero(n) Ones(n) Constant(n,x) -> dv_zero dv_ones dv_const;  m.resize(r,c) v.resize(n) -> dm_resize fill, dv_resize fill
  (destructive, contents = the Section variable [fill]);  conservativeResize -> dm_cresize / dv_cresize;  setConstant(x) setZero() ->
  dv_const / dm_const over the current size;  rows() cols() size() -> dm_nrows dm_cols length;  m(i,j) v(i) with RUN-TIME indices ->
  dm_get dv_get (read) dm_set dv_set (write);  col(i) -> dm_col / dm_set_col;  head(k) -> dv_head / dv_set_head;  dot -> dv_dot;
  transpose() -> dm_transpose;  A*B A*v A*s s*A v*s -> dm_mul dm_mulv dm_scale dv_scale;  + - -> dm_add dv_add dv_sub;
  .array() / .matrix() switch * between coefficient-wise (dv_cwise_mul, also cwiseProduct) and matrix product; `a op= b` = `a = a op b`;
  v.asDiagonal() -> dm_of_diag;  A.ldlt().solve(B) -> the ORACLE Section variable ldlt_solve A B;
  Eigen::JacobiSVD<Matrix> svd(A, ComputeThinU | ComputeThinV) (or ComputeFullU | ComputeFullV) -> the ORACLE jacobi_svd A, read by
  singularValues() matrixU() matrixV() = svd_sigma svd_U svd_V;   std::numeric_limits<RealType>::epsilon() -> nepsilon N;
  floating literal m*10^e -> nofDec N m e;  integer used as a scalar -> nofZ N;  scalar + - * / unary- < <= > >= -> the dictionary.
Integers (int, size_t, Eigen::Index) are [nat]: + * and comparisons only; subtraction, negation and negative literals are refused, so
every integer is a size or index >= 0 (conversions are the identity; wrap-around at 2^31 is not modelled).
Statements: member / local assignment (a chained `a = b = e` stores e in b, then in a), local declarations, `if` with or without
`return` (without: the variables it changes are merged, `let x := if c then .. else ..`), `return`, calls of other members of the
class (their generated transformer is applied to the current state), NDEBUG asserts skipped, and COUNTED LOOPS
`for (int i = a; i < b; ++i) body` (also <=, i++, i += 1) with a run-time bound that the body does not change: a [fold_left] over
[seq a (b - a)] whose accumulator is the tuple of the variables the body assigns.  Anything else raises Unsupported: the function is left
out of the generated file and reported for C07 only (fail closed)."""
import os
import re
import sys

HERE = os.path.dirname(os.path.abspath(__file__))
if HERE not in sys.path:
    sys.path.insert(0, HERE)
from srcfuns import Unsupported, dec_pair  # noqa: E402
import eigsym  # noqa: E402  (only its cached clang loader and write_if_changed)

PROP = "C07"
SRC = "src/regression/leastsquares/LeastSquares.cpp"
HDR = "include/romea_core_common/regression/leastsquares/LeastSquares.hpp"
CLS = "LeastSquares"

WRAPPERS = ("ParenExpr", "MaterializeTemporaryExpr", "ExprWithCleanups", "CXXBindTemporaryExpr", "ConstantExpr")
CASTS = ("ImplicitCastExpr", "CXXStaticCastExpr", "CStyleCastExpr", "CXXFunctionalCastExpr")
TRANSPARENT = {"NoOp", "LValueToRValue", "IntegralCast", "UncheckedDerivedToBase", "DerivedToBase", "FunctionToPointerDecay",
               "ConstructorConversion"}
INT_TYPES = {"int", "long", "long long", "unsigned long", "unsigned int", "unsigned long long", "size_t", "Eigen::Index", "Index",
             "std::size_t", "std::ptrdiff_t", "ptrdiff_t"}
COQTY = {"nat": "nat", "T": "T", "bool": "bool", "vec": "(list T)", "mat": "(@dmat T)", "svd": "(@svd_res T)"}
RESERVED = {"N", "T", "fill", "ldlt_solve", "jacobi_svd", "s", "nat", "list", "seq", "fold_left", "fst", "snd", "true", "false",
            "length", "if", "then", "else", "let", "in", "fun", "S", "O"}

HEAD = """(* GENERATED by translate/%s from the clang AST of src/regression/leastsquares/LeastSquares.cpp
   (members of romea::core::LeastSquares<double>, checked identical for <float>) — DO NOT EDIT; regenerated on every run.
   Vocabulary: coq/SrcEigenDyn.v.  [fill] = the unspecified contents after Eigen's resize; [ldlt_solve] / [jacobi_svd] = Eigen's LDLT solve and
   JacobiSVD (oracles). *)
From Coq Require Import List Arith Bool ZArith.
From Romea Require Import Num LinAlgBModel SrcEigenDyn.
Import ListNotations.

Section Src.
Context {T : Type} (N : NumOps T).
Variable fill : T.
Variable ldlt_solve : @dmat T -> @dmat T -> @dmat T.
Variable jacobi_svd : @dmat T -> @svd_res T.
"""


def clean(s):
    return str(s).replace("*)", "* )").replace("(*", "( *")[:400]


class Val:
    def __init__(self, term, sort, arr=False, lit=None):
        self.term, self.sort, self.arr, self.lit = term, sort, arr, lit

    def same(self, o):
        return self.term == o.term and self.sort == o.sort


class Scope:
    def __init__(self):
        self.lets = []

    def wrap(self, body):
        return "".join("let %s := %s in\n  " % (p, t) for p, t in self.lets) + body


def tup(xs):
    return xs[0] if len(xs) == 1 else "(" + ", ".join(xs) + ")"


def pat(xs):
    return xs[0] if len(xs) == 1 else "'(" + ", ".join(xs) + ")"


def sort_of_type(t):
    """sort of a clang type dictionary (or None)"""
    if not isinstance(t, dict):
        return None
    for key in ("desugaredQualType", "qualType"):
        q = t.get(key)
        if not q:
            continue
        q = q.replace("const ", "").replace("&", "").strip()
        if re.search(r"JacobiSVD<", q):
            return "svd"
        if re.match(r"^(Eigen::)?Matrix<(double|float), -1, -1(, 0)?(, -1, -1)?>$", q) or q.endswith("::Matrix"):
            return "mat"
        if re.match(r"^(Eigen::)?Matrix<(double|float), -1, 1(, 0)?(, -1, 1)?>$", q) or q.endswith("::Vector"):
            return "vec"
        if q in ("double", "float", "RealType") or q.endswith("::Scalar") or q.endswith("::RealScalar") or q.endswith("CoeffReturnType"):
            return "T"
        if q == "bool":
            return "bool"
        if q in INT_TYPES:
            return "nat"
    return None


def contains(n, kinds):
    if not isinstance(n, dict):
        return False
    if n.get("kind") in kinds:
        return True
    return any(contains(c, kinds) for c in n.get("inner", []))


def vars_read(n, out):
    """names of the members of *this and of the locals / parameters an expression mentions"""
    if not isinstance(n, dict):
        return out
    if n.get("kind") == "MemberExpr" and n.get("inner") and n["inner"][0].get("kind") == "CXXThisExpr":
        out.add(n.get("name"))
    elif n.get("kind") == "DeclRefExpr":
        out.add(n.get("referencedDecl", {}).get("name"))
    elif n.get("kind") in ("CXXMemberCallExpr",) and n.get("inner") and n["inner"][0].get("kind") == "MemberExpr" \
            and n["inner"][0].get("inner") and n["inner"][0]["inner"][0].get("kind") == "CXXThisExpr":
        out.add("*")     # a call of a member of the class may read anything
    for c in n.get("inner", []):
        vars_read(c, out)
    return out


class Method:
    """a translated member: how to call it"""

    def __init__(self, coq, params, ret_sort, kind):
        self.coq, self.params, self.ret_sort, self.kind = coq, params, ret_sort, kind


class Exec:
    def __init__(self, fields, node, known, coqname):
        self.fields = fields            # [(name, sort)] in declaration order
        self.fsort = dict(fields)
        self.node = node
        self.known = known              # C++ member name -> {nparams: Method}
        self.coqname = coqname
        self.n = 0
        self.params = []
        self.is_ctor = node.get("kind") == "CXXConstructorDecl"
        self.names = set(RESERVED) | {f for f, _ in fields}

    # ------------------------------------------------------------------ helpers
    def fresh(self, base):
        base = re.sub(r"[^A-Za-z0-9_]", "", base).rstrip("_") or "x"
        while True:
            self.n += 1
            nm = "%s_%d" % (base, self.n)
            if nm not in self.names:
                self.names.add(nm)
                return nm

    def strip(self, n):
        while isinstance(n, dict):
            k = n.get("kind")
            if k in WRAPPERS and n.get("inner"):
                n = n["inner"][-1]
            elif k in CASTS and n.get("castKind") in TRANSPARENT and n.get("inner"):
                n = n["inner"][-1]
            else:
                return n
        return n

    def is_this(self, n):
        return self.strip(n).get("kind") == "CXXThisExpr"

    def callee(self, n):
        c = self.strip(n["inner"][0])
        return c.get("referencedDecl", {}).get("name") or c.get("name")

    def bind(self, sc, base, term, sort, arr=False):
        nm = self.fresh(base)
        sc.lets.append((nm, term))
        return Val(nm, sort, arr)

    def need(self, v, sort, what):
        if v.sort != sort:
            raise Unsupported("%s: expected %s, got %s" % (what, sort, v.sort))
        return v

    # ------------------------------------------------------------------ places (lvalues)
    def place_of(self, n, env, sc):
        n = self.strip(n)
        k = n.get("kind")
        if k == "MemberExpr" and n.get("inner") and self.is_this(n["inner"][0]):
            if n.get("name") not in self.fsort:
                raise Unsupported("member %s" % n.get("name"))
            return ("var", n["name"])
        if k == "DeclRefExpr":
            nm = n.get("referencedDecl", {}).get("name")
            if nm in env and nm not in self.fsort:
                return ("var", nm)
            raise Unsupported("store to %s" % nm)
        if k == "CXXOperatorCallExpr" and self.callee(n) == "operator()":
            idx = [self.need(self.ev(a, env, sc), "nat", "index") for a in n["inner"][2:]]
            return ("elem", self.place_of(n["inner"][1], env, sc), idx)
        if k == "CXXMemberCallExpr":
            me = n["inner"][0]
            nm, obj, args = me.get("name"), me["inner"][0], n["inner"][1:]
            if nm in ("array", "matrix") and not args:
                return ("arr", self.place_of(obj, env, sc), nm == "array")
            if nm == "head" and len(args) == 1:
                return ("head", self.place_of(obj, env, sc), self.need(self.ev(args[0], env, sc), "nat", "head size"))
            if nm == "col" and len(args) == 1:
                return ("col", self.place_of(obj, env, sc), self.need(self.ev(args[0], env, sc), "nat", "column index"))
        raise Unsupported("store through %s" % k)

    def read(self, p, env):
        if p[0] == "var":
            return env[p[1]]
        base = self.read(p[1], env)
        if p[0] == "elem":
            return self.get(base, p[2])
        if p[0] == "arr":
            return Val(base.term, base.sort, p[2])
        if p[0] == "head":
            self.need(base, "vec", "head")
            return Val("(dv_head %s %s)" % (p[2].term, base.term), "vec", base.arr)
        if p[0] == "col":
            self.need(base, "mat", "col")
            return Val("(dm_col N %s %s)" % (base.term, p[2].term), "vec", base.arr)
        raise Unsupported("place")

    def write(self, p, v, env, sc):
        if p[0] == "var":
            want = env[p[1]].sort if p[1] in env else self.fsort.get(p[1])
            if want != v.sort:
                raise Unsupported("store of a %s into %s (%s)" % (v.sort, p[1], want))
            env[p[1]] = self.bind(sc, p[1], v.term, v.sort)
            return
        base = self.read(p[1], env)
        if p[0] == "elem":
            self.need(v, "T", "element store")
            if base.sort == "mat" and len(p[2]) == 2:
                t = "(dm_set %s %s %s %s)" % (base.term, p[2][0].term, p[2][1].term, v.term)
            elif base.sort == "vec" and len(p[2]) == 1:
                t = "(dv_set %s %s %s)" % (base.term, p[2][0].term, v.term)
            else:
                raise Unsupported("element store into a %s with %d indices" % (base.sort, len(p[2])))
            return self.write(p[1], Val(t, base.sort), env, sc)
        if p[0] == "arr":
            return self.write(p[1], Val(v.term, v.sort), env, sc)
        if p[0] == "head":
            self.need(v, "vec", "head store")
            return self.write(p[1], Val("(dv_set_head %s %s %s)" % (p[2].term, base.term, v.term), "vec"), env, sc)
        if p[0] == "col":
            self.need(v, "vec", "column store")
            return self.write(p[1], Val("(dm_set_col N %s %s %s)" % (base.term, p[2].term, v.term), "mat"), env, sc)
        raise Unsupported("place")

    def get(self, base, idx):
        if base.sort == "mat" and len(idx) == 2:
            return Val("(dm_get N %s %s %s)" % (base.term, idx[0].term, idx[1].term), "T")
        if base.sort == "vec" and len(idx) == 1:
            return Val("(dv_get N %s %s)" % (base.term, idx[0].term), "T")
        raise Unsupported("operator() on a %s with %d indices" % (base.sort, len(idx)))

    # ------------------------------------------------------------------ expressions
    def arith(self, op, a, b):
        s = (a.sort, b.sort)
        if s == ("nat", "nat"):
            if op == "+":
                return Val("(%s + %s)" % (a.term, b.term), "nat")
            if op == "*":
                return Val("(%s * %s)" % (a.term, b.term), "nat")
            raise Unsupported("integer operator %s (only + and * keep an integer a natural number)" % op)
        if s == ("T", "T"):
            f = {"+": "nadd", "-": "nsub", "*": "nmul", "/": "ndiv"}.get(op)
            if f:
                return Val("(%s N %s %s)" % (f, a.term, b.term), "T")
        if op == "*":
            if a.arr or b.arr:
                if s == ("vec", "vec") and a.arr and b.arr:
                    return Val("(dv_cwise_mul N %s %s)" % (a.term, b.term), "vec", True)
                if s == ("vec", "T"):
                    return Val("(dv_scale N %s %s)" % (a.term, b.term), "vec", True)
                raise Unsupported("array product of %s and %s" % s)
            if s == ("mat", "mat"):
                return Val("(dm_mul N %s %s)" % (a.term, b.term), "mat")
            if s == ("mat", "vec"):
                return Val("(dm_mulv N %s %s)" % (a.term, b.term), "vec")
            if s == ("mat", "T"):
                return Val("(dm_scale N %s %s)" % (a.term, b.term), "mat")
            if s == ("vec", "T"):
                return Val("(dv_scale N %s %s)" % (a.term, b.term), "vec")
        if op == "+" and s == ("vec", "vec"):
            return Val("(dv_add N %s %s)" % (a.term, b.term), "vec", a.arr and b.arr)
        if op == "-" and s == ("vec", "vec"):
            return Val("(dv_sub N %s %s)" % (a.term, b.term), "vec", a.arr and b.arr)
        if op == "+" and s == ("mat", "mat") and not (a.arr or b.arr):
            return Val("(dm_add N %s %s)" % (a.term, b.term), "mat")
        raise Unsupported("operator %s on %s and %s" % (op, a.sort, b.sort))

    def compare(self, op, a, b):
        if (a.sort, b.sort) == ("nat", "nat"):
            t = {"<": "(Nat.ltb %s %s)", "<=": "(Nat.leb %s %s)", ">": "(Nat.ltb %s %s)", ">=": "(Nat.leb %s %s)",
                 "==": "(Nat.eqb %s %s)", "!=": "(negb (Nat.eqb %s %s))"}[op]
            x, y = (b, a) if op in (">", ">=") else (a, b)
            return Val(t % (x.term, y.term), "bool")
        if (a.sort, b.sort) == ("T", "T") and op in ("<", "<=", ">", ">="):
            f = "nltb" if op in ("<", ">") else "nleb"
            x, y = (b, a) if op in (">", ">=") else (a, b)
            return Val("(%s N %s %s)" % (f, x.term, y.term), "bool")
        raise Unsupported("comparison %s on %s and %s" % (op, a.sort, b.sort))

    def pure(self, n, env, sc):
        """evaluate an expression that must not change the store"""
        before = dict(env)
        v = self.ev(n, env, sc)
        if set(before) != set(env) or any(not before[k].same(env[k]) for k in before):
            raise Unsupported("side effect inside a conditional / loop bound")
        return v

    def static_ctor(self, name, n, args, env, sc):
        q = self.strip(n["inner"][0]).get("type", {}).get("qualType", "")
        isvec = re.search(r"Matrix<(double|float), -1, 1", q) is not None
        ismat = re.search(r"Matrix<(double|float), -1, -1", q) is not None
        a = [self.ev(x, env, sc) for x in args]
        if isvec and name in ("Zero", "Ones") and len(a) == 1 and a[0].sort == "nat":
            return Val("(%s N %s)" % ({"Zero": "dv_zero", "Ones": "dv_ones"}[name], a[0].term), "vec")
        if isvec and name == "Constant" and len(a) == 2 and (a[0].sort, a[1].sort) == ("nat", "T"):
            return Val("(dv_const %s %s)" % (a[0].term, a[1].term), "vec")
        if ismat and name in ("Zero", "Identity") and len(a) == 2 and (a[0].sort, a[1].sort) == ("nat", "nat"):
            return Val("(%s N %s %s)" % ({"Zero": "dm_zero", "Identity": "dm_identity"}[name], a[0].term, a[1].term), "mat")
        if ismat and name == "Constant" and len(a) == 3 and (a[0].sort, a[1].sort, a[2].sort) == ("nat", "nat", "T"):
            return Val("(dm_const %s %s %s)" % (a[0].term, a[1].term, a[2].term), "mat")
        raise Unsupported("%s with %d arguments on %s" % (name, len(a), q[:60]))

    def ev(self, n, env, sc):
        n = self.strip(n)
        k = n.get("kind")
        if k == "IntegerLiteral":
            return Val(str(int(n["value"])), "nat", lit=int(n["value"]))
        if k == "FloatingLiteral":
            m, e = dec_pair(n["value"])
            return Val("(nofDec N (%d)%%Z (%d)%%Z)" % (m, e), "T")
        if k == "CXXBoolLiteralExpr":
            return Val("true" if n.get("value") else "false", "bool")
        if k == "ImplicitValueInitExpr":
            s = sort_of_type(n.get("type"))
            if s == "nat":
                return Val("0", "nat", lit=0)
            raise Unsupported("value initialisation of %s" % n.get("type", {}).get("qualType"))
        if k in CASTS:
            ck = n.get("castKind")
            if ck == "IntegralToFloating":
                v = self.need(self.ev(n["inner"][-1], env, sc), "nat", "integer to floating")
                return Val("(nofZ N (%d)%%Z)" % v.lit if v.lit is not None else "(nofZ N (Z.of_nat %s))" % v.term, "T")
            if ck == "FloatingCast" and self.strip(n["inner"][-1]).get("kind") == "FloatingLiteral":
                return self.ev(n["inner"][-1], env, sc)     # a decimal literal converted to RealType: read as that decimal (nofDec)
            raise Unsupported("cast %s" % ck)
        if k == "DeclRefExpr":
            nm = n.get("referencedDecl", {}).get("name")
            if nm in env and nm not in self.fsort:
                return env[nm]
            raise Unsupported("name %s" % nm)
        if k == "MemberExpr":
            if n.get("inner") and self.is_this(n["inner"][0]) and n.get("name") in self.fsort:
                return env[n["name"]]
            raise Unsupported("member access %s" % n.get("name"))
        if k == "UnaryOperator":
            op = n.get("opcode")
            v = self.ev(n["inner"][0], env, sc)
            if op == "-" and v.sort == "T":
                return Val("(nneg N %s)" % v.term, "T")
            if op == "!" and v.sort == "bool":
                return Val("(negb %s)" % v.term, "bool")
            if op == "+" and v.sort in ("T", "nat"):
                return v
            raise Unsupported("unary %s on %s" % (op, v.sort))
        if k == "BinaryOperator":
            return self.binop(n, env, sc)
        if k == "CompoundAssignOperator":
            op = n.get("opcode", "")[:-1]
            p = self.place_of(n["inner"][0], env, sc)
            v = self.arith(op, self.read(p, env), self.ev(n["inner"][1], env, sc))
            self.write(p, v, env, sc)
            return self.read(p, env)
        if k == "ConditionalOperator":
            c = self.need(self.pure(n["inner"][0], env, sc), "bool", "condition")
            a, b = self.pure(n["inner"][1], env, sc), self.pure(n["inner"][2], env, sc)
            if a.sort != b.sort:
                raise Unsupported("conditional of %s and %s" % (a.sort, b.sort))
            return Val("(if %s then %s else %s)" % (c.term, a.term, b.term), a.sort)
        if k in ("CXXConstructExpr", "CXXTemporaryObjectExpr"):
            args = [c for c in n.get("inner", []) if isinstance(c, dict) and c.get("kind") != "CXXDefaultArgExpr"]
            s = sort_of_type(n.get("type"))
            if not args and s == "mat":
                return Val("dm_empty", "mat")
            if not args and s == "vec":
                return Val("dv_empty", "vec")
            if len(args) == 1 and s in ("mat", "vec"):
                v = self.ev(args[0], env, sc)
                if s == "mat" and v.sort == "vec" and v.term.startswith("(DIAG "):
                    return Val("(dm_of_diag N %s)" % v.term[6:-1], "mat")
                if v.sort == s:
                    return Val(v.term, s)
            raise Unsupported("construction of %s from %d arguments" % (n.get("type", {}).get("qualType"), len(args)))
        if k == "CallExpr":
            nm = self.callee(n)
            args = n["inner"][1:]
            if nm == "epsilon" and not args and sort_of_type(n.get("type")) == "T":
                return Val("(nepsilon N)", "T")
            if nm in ("Zero", "Ones", "Identity", "Constant"):
                return self.static_ctor(nm, n, args, env, sc)
            raise Unsupported("call of %s" % nm)
        if k == "CXXMemberCallExpr":
            return self.member_call(n, env, sc)
        if k == "CXXOperatorCallExpr":
            return self.op_call(n, env, sc)
        raise Unsupported("expression %s" % k)

    def binop(self, n, env, sc):
        op = n.get("opcode")
        if op == "=":
            v = self.ev(n["inner"][1], env, sc)          # C++17: the right operand is sequenced first
            p = self.place_of(n["inner"][0], env, sc)
            if v.sort == "T" and p[0] == "elem" and not re.match(r"^[A-Za-z0-9_]+$", v.term):
                v = self.bind(sc, "d", v.term, "T")      # the stored value is named: a chained assignment stores it twice
            self.write(p, v, env, sc)
            return v
        if op in ("&&", "||"):
            a = self.need(self.pure(n["inner"][0], env, sc), "bool", op)
            b = self.need(self.pure(n["inner"][1], env, sc), "bool", op)
            return Val("(%s %s %s)" % ("andb" if op == "&&" else "orb", a.term, b.term), "bool")
        a = self.ev(n["inner"][0], env, sc)
        b = self.ev(n["inner"][1], env, sc)
        if op in ("<", "<=", ">", ">=", "==", "!="):
            return self.compare(op, a, b)
        if op in ("+", "-", "*", "/"):
            return self.arith(op, a, b)
        raise Unsupported("binary operator %s" % op)

    def op_call(self, n, env, sc):
        nm = self.callee(n)
        ops = n["inner"][1:]
        if nm == "operator()":
            base = self.ev(ops[0], env, sc)
            idx = [self.need(self.ev(a, env, sc), "nat", "index") for a in ops[1:]]
            return self.get(base, idx)
        if nm == "operator=" and len(ops) == 2:
            v = self.ev(ops[1], env, sc)
            p = self.place_of(ops[0], env, sc)
            tgt = self.read(p, env)
            if tgt.sort == "mat" and v.sort == "vec" and v.term.startswith("(DIAG "):
                v = Val("(dm_of_diag N %s)" % v.term[6:-1], "mat")
            if v.term.startswith("(DIAG "):
                raise Unsupported("asDiagonal() outside an assignment to a matrix")
            self.write(p, Val(v.term, v.sort), env, sc)
            return self.read(p, env)
        if nm in ("operator*=", "operator+=", "operator-=", "operator/=") and len(ops) == 2:
            p = self.place_of(ops[0], env, sc)
            cur = self.read(p, env)
            v = self.arith(nm[8], cur, self.ev(ops[1], env, sc))
            self.write(p, v, env, sc)
            return self.read(p, env)
        if nm in ("operator*", "operator+", "operator-", "operator/") and len(ops) == 2:
            a, b = self.ev(ops[0], env, sc), self.ev(ops[1], env, sc)
            if a.term.startswith("(DIAG ") or b.term.startswith("(DIAG "):
                raise Unsupported("asDiagonal() inside a product")
            if nm == "operator*" and (a.sort, b.sort) in (("T", "mat"), ("T", "vec")):       # scalar * object: entry = scalar * entry
                return Val("(%s N %s %s)" % ("dm_scale_l" if b.sort == "mat" else "dv_scale_l", a.term, b.term), b.sort, b.arr)
            return self.arith(nm[8], a, b)
        raise Unsupported("operator call %s with %d operands" % (nm, len(ops)))

    def member_call(self, n, env, sc):
        me = n["inner"][0]
        if me.get("kind") != "MemberExpr":
            raise Unsupported("member call through %s" % me.get("kind"))
        nm, obj, args = me.get("name"), me["inner"][0], n["inner"][1:]
        if self.is_this(obj):
            return self.this_call(nm, args, env, sc)
        # mutating calls on a place
        if nm in ("resize", "conservativeResize", "setConstant", "setZero", "setOnes"):
            p = self.place_of(obj, env, sc)
            cur = self.read(p, env)
            a = [self.ev(x, env, sc) for x in args]
            so = tuple(x.sort for x in a)
            if nm == "resize" and cur.sort == "mat" and so == ("nat", "nat"):
                v = Val("(dm_resize fill %s %s)" % (a[0].term, a[1].term), "mat")
            elif nm == "resize" and cur.sort == "vec" and so == ("nat",):
                v = Val("(dv_resize fill %s)" % a[0].term, "vec")
            elif nm == "conservativeResize" and cur.sort == "mat" and so == ("nat", "nat"):
                v = Val("(dm_cresize N fill %s %s %s)" % (a[0].term, a[1].term, cur.term), "mat")
            elif nm == "conservativeResize" and cur.sort == "vec" and so == ("nat",):
                v = Val("(dv_cresize N fill %s %s)" % (a[0].term, cur.term), "vec")
            elif nm == "setConstant" and cur.sort == "vec" and so == ("T",):
                v = Val("(dv_const (length %s) %s)" % (cur.term, a[0].term), "vec")
            elif nm == "setConstant" and cur.sort == "mat" and so == ("T",):
                v = Val("(dm_const (dm_nrows %s) (dm_cols %s) %s)" % (cur.term, cur.term, a[0].term), "mat")
            elif nm == "setZero" and cur.sort == "vec" and so == ():
                v = Val("(dv_zero N (length %s))" % cur.term, "vec")
            elif nm == "setZero" and cur.sort == "mat" and so == ():
                v = Val("(dm_zero N (dm_nrows %s) (dm_cols %s))" % (cur.term, cur.term), "mat")
            elif nm == "setOnes" and cur.sort == "vec" and so == ():
                v = Val("(dv_ones N (length %s))" % cur.term, "vec")
            else:
                raise Unsupported("%s on a %s with arguments %s" % (nm, cur.sort, so))
            self.write(p, v, env, sc)
            return self.read(p, env)
        o = self.ev(obj, env, sc)
        a = [self.ev(x, env, sc) for x in args]
        so = tuple(x.sort for x in a)
        if o.term.startswith("(DIAG "):
            raise Unsupported("member %s of asDiagonal()" % nm)
        if nm in ("rows", "size") and o.sort == "vec" and not a:
            return Val("(length %s)" % o.term, "nat")
        if nm == "rows" and o.sort == "mat" and not a:
            return Val("(dm_nrows %s)" % o.term, "nat")
        if nm == "cols" and o.sort == "mat" and not a:
            return Val("(dm_cols %s)" % o.term, "nat")
        if nm in ("array", "matrix") and not a and o.sort in ("vec", "mat"):
            return Val(o.term, o.sort, nm == "array")
        if nm == "col" and o.sort == "mat" and so == ("nat",):
            return Val("(dm_col N %s %s)" % (o.term, a[0].term), "vec", o.arr)
        if nm == "head" and o.sort == "vec" and so == ("nat",):
            return Val("(dv_head %s %s)" % (a[0].term, o.term), "vec", o.arr)
        if nm == "dot" and o.sort == "vec" and so == ("vec",) and not o.arr:
            return Val("(dv_dot N %s %s)" % (o.term, a[0].term), "T")
        if nm == "cwiseProduct" and o.sort == "vec" and so == ("vec",):
            return Val("(dv_cwise_mul N %s %s)" % (o.term, a[0].term), "vec", o.arr)
        if nm == "transpose" and o.sort == "mat" and not a and not o.arr:
            return Val("(dm_transpose N %s)" % o.term, "mat")
        if nm == "asDiagonal" and o.sort == "vec" and not a:
            return Val("(DIAG %s)" % o.term, "vec")       # only legal as the source of an assignment to / construction of a Matrix
        if nm == "ldlt" and o.sort == "mat" and not a:
            return Val(o.term, "ldlt")
        if nm == "solve" and o.sort == "ldlt" and so == ("mat",):
            return Val("(ldlt_solve %s %s)" % (o.term, a[0].term), "mat")
        if o.sort == "svd" and not a and nm in ("singularValues", "matrixU", "matrixV"):
            f, s = {"singularValues": ("svd_sigma", "vec"), "matrixU": ("svd_U", "mat"), "matrixV": ("svd_V", "mat")}[nm]
            return Val("(%s %s)" % (f, o.term), s)
        raise Unsupported("member function %s on a %s with arguments %s" % (nm, o.sort, so))

    def state_term(self, env):
        m = None
        for f, _ in self.fields:
            r = re.match(r"^\((%s) ([A-Za-z0-9_]+)\)$" % re.escape(f), env[f].term)
            if not r or (m is not None and r.group(2) != m):
                return "(mk_src " + " ".join(env[f].term for f, _ in self.fields) + ")"
            m = r.group(2)
        return m

    def this_call(self, nm, args, env, sc):
        cands = self.known.get(nm, {})
        if len(args) not in cands:
            raise Unsupported("call of member %s with %d arguments (not translated)" % (nm, len(args)))
        k = cands[len(args)]
        a = [self.ev(x, env, sc) for x in args]
        for (pn, ps), v in zip(k.params, a):
            if ps != v.sort:
                raise Unsupported("argument %s of %s: %s for %s" % (pn, nm, v.sort, ps))
        call = "(%s %s)" % (k.coq, " ".join([x.term for x in a] + [self.state_term(env)]))
        if k.kind == "getter":
            return Val(call, k.ret_sort)
        r = self.bind(sc, "s" if k.ret_sort is None else "r", call, "state")
        st = r.term if k.ret_sort is None else "(fst %s)" % r.term
        if k.ret_sort is not None:
            st = self.bind(sc, "s", st, "state").term
        for f, s in self.fields:
            env[f] = Val("(%s %s)" % (f, st), s)
        return Val("(snd %s)" % r.term, k.ret_sort) if k.ret_sort is not None else Val("tt", "unit")

    # ------------------------------------------------------------------ statements
    def exec_stmt(self, st, env, sc):
        k = st.get("kind")
        if k is None or k == "NullStmt":
            return
        s = self.strip(st)
        if s.get("kind") in CASTS and s.get("castKind") == "ToVoid":
            return                                           # ((void)0): an assert under NDEBUG
        if k == "CompoundStmt":
            for c in st.get("inner", []):
                self.exec_stmt(c, env, sc)
            return
        if k == "DeclStmt":
            for d in st.get("inner", []):
                self.decl(d, env, sc)
            return
        if k == "IfStmt":
            return self.exec_if(st, env, sc)
        if k == "ForStmt":
            return self.exec_for(st, env, sc)
        if k in ("ReturnStmt", "BreakStmt", "ContinueStmt", "WhileStmt", "DoStmt", "SwitchStmt", "GotoStmt", "CXXForRangeStmt", "CXXTryStmt"):
            raise Unsupported("%s here" % k)
        self.ev(st, env, sc)

    def decl(self, d, env, sc):
        if d.get("kind") != "VarDecl" or not d.get("name"):
            raise Unsupported("declaration %s" % d.get("kind"))
        nm = d["name"]
        if nm in env:
            raise Unsupported("redeclaration of %s" % nm)
        s = sort_of_type(d.get("type"))
        init = [c for c in d.get("inner", []) if isinstance(c, dict) and c.get("kind")]
        if s == "svd":
            c = self.strip(init[0]) if init else {}
            args = [x for x in c.get("inner", []) if isinstance(x, dict) and x.get("kind") != "CXXDefaultArgExpr"]
            if c.get("kind") != "CXXConstructExpr" or len(args) != 2:
                raise Unsupported("JacobiSVD must be constructed from (matrix, options)")
            opts = sorted(self.strip(x).get("referencedDecl", {}).get("name", "?") for x in self.strip(args[1]).get("inner", [])) \
                if self.strip(args[1]).get("opcode") == "|" else []
            if opts not in (["ComputeThinU", "ComputeThinV"], ["ComputeFullU", "ComputeFullV"]):
                raise Unsupported("JacobiSVD options %s (need U and V)" % opts)
            m = self.need(self.ev(args[0], env, sc), "mat", "JacobiSVD argument")
            env[nm] = self.bind(sc, nm, "(jacobi_svd %s)" % m.term, "svd")
            return
        if s is None or not init:
            raise Unsupported("declaration of %s : %s" % (nm, d.get("type", {}).get("qualType")))
        v = self.ev(init[0], env, sc)
        if v.sort != s:
            raise Unsupported("initialiser of %s: %s for %s" % (nm, v.sort, s))
        env[nm] = self.bind(sc, nm, v.term, s)

    def changed(self, base, envs):
        return [v for v in base if any(not e[v].same(base[v]) for e in envs)]

    def exec_if(self, st, env, sc):
        parts = st["inner"]
        if st.get("hasInit") or st.get("hasVar"):
            raise Unsupported("if with initialiser")
        c = self.need(self.pure(parts[0], env, sc), "bool", "if condition")
        ea, sa = dict(env), Scope()
        self.exec_stmt(parts[1], ea, sa)
        eb, sb = dict(env), Scope()
        if len(parts) > 2:
            self.exec_stmt(parts[2], eb, sb)
        w = self.changed(env, [ea, eb])
        if not w:
            return
        names = [self.fresh(v) for v in w]
        sc.lets.append((pat(names), "(if %s then (%s) else (%s))" % (c.term, sa.wrap(tup([ea[v].term for v in w])),
                                                                     sb.wrap(tup([eb[v].term for v in w])))))
        for v, nm in zip(w, names):
            env[v] = Val(nm, env[v].sort)

    def exec_for(self, st, env, sc):
        init, _cv, cond, inc, body = (st["inner"] + [{}] * 5)[:5]
        if contains(body, ("ReturnStmt", "BreakStmt", "ContinueStmt", "GotoStmt")):
            raise Unsupported("return / break / continue inside a loop")
        ds = init.get("inner", []) if init.get("kind") == "DeclStmt" else []
        if len(ds) != 1 or ds[0].get("kind") != "VarDecl" or sort_of_type(ds[0].get("type")) != "nat" or not ds[0].get("inner"):
            raise Unsupported("loop initialisation is not `int i = a`")
        iv = ds[0]["name"]
        if iv in env:
            raise Unsupported("loop variable %s shadows" % iv)
        a = self.need(self.pure(ds[0]["inner"][0], env, sc), "nat", "loop start")
        cn = self.strip(cond)
        if cn.get("kind") != "BinaryOperator" or cn.get("opcode") not in ("<", "<=", "!="):
            raise Unsupported("loop condition is not `i < b`")
        lhs = self.strip(cn["inner"][0])
        if lhs.get("kind") != "DeclRefExpr" or lhs.get("referencedDecl", {}).get("name") != iv:
            raise Unsupported("loop condition does not test the loop variable on the left")
        if cn.get("opcode") == "!=" and a.lit != 0:
            raise Unsupported("loop condition != with a start other than 0")
        b = self.need(self.pure(cn["inner"][1], env, sc), "nat", "loop bound")
        bound_reads = vars_read(cn["inner"][1], set())
        ic = self.strip(inc)
        ok = ic.get("kind") == "UnaryOperator" and ic.get("opcode") == "++" and \
            self.strip(ic["inner"][0]).get("referencedDecl", {}).get("name") == iv
        if not ok and ic.get("kind") == "CompoundAssignOperator" and ic.get("opcode") == "+=":
            r = self.strip(ic["inner"][1])
            ok = self.strip(ic["inner"][0]).get("referencedDecl", {}).get("name") == iv and r.get("kind") == "IntegerLiteral" and int(r["value"]) == 1
        if not ok:
            raise Unsupported("loop increment is not ++i / i++ / i += 1")
        hi = "(S %s)" % b.term if cn.get("opcode") == "<=" else b.term
        count = hi if a.lit == 0 else "(%s - %s)" % (hi, a.term)
        ivn = self.fresh(iv)
        # pass 1: which variables does the body assign?
        saved_n, saved_names = self.n, set(self.names)
        e1 = {v: Val("?%s" % v, x.sort) for v, x in env.items()}
        base1 = dict(e1)
        e1[iv] = Val(ivn, "nat")
        self.exec_stmt(body, e1, Scope())
        if not e1[iv].same(Val(ivn, "nat")):
            raise Unsupported("the loop body assigns the loop variable")
        w = self.changed(base1, [e1])
        self.n, self.names = saved_n, saved_names
        if not w:
            return
        if "*" in bound_reads or any(v in bound_reads for v in w):
            raise Unsupported("the loop body changes its own bound")
        accs = [self.fresh(v) for v in w]
        e2 = dict(env)
        for v, nm in zip(w, accs):
            e2[v] = Val(nm, env[v].sort)
        e2[iv] = Val(ivn, "nat")
        s2 = Scope()
        self.exec_stmt(body, e2, s2)
        res = s2.wrap(tup([e2[v].term for v in w]))
        accn = accs[0] if len(w) == 1 else self.fresh("acc")
        inner = res if len(w) == 1 else "let %s := %s in %s" % (pat(accs), accn, res)
        term = "(fold_left (fun %s %s =>\n    %s)\n    (seq %s %s) %s)" % (accn, ivn, inner, a.term, count, tup([env[v].term for v in w]))
        outs = [self.fresh(v) for v in w]
        sc.lets.append((pat(outs), term))
        for v, nm in zip(w, outs):
            env[v] = Val(nm, env[v].sort)

    def final(self, env, val, ret_sort):
        st = self.state_term(env)
        if self.is_ctor or ret_sort is None:
            return st
        return "(%s, %s)" % (st, val.term)

    def exec_fn(self, stmts, env, sc, ret_sort):
        stmts = list(stmts)
        while stmts:
            st = stmts.pop(0)
            k = st.get("kind")
            if k == "CompoundStmt":
                stmts = list(st.get("inner", [])) + stmts
                continue
            if k == "ReturnStmt":
                val = None
                if st.get("inner"):
                    val = self.ev(st["inner"][0], env, sc)
                    if val.term.startswith("(DIAG "):
                        raise Unsupported("asDiagonal() returned")
                    if val.sort != ret_sort:
                        raise Unsupported("returns a %s, declared %s" % (val.sort, ret_sort))
                elif ret_sort is not None:
                    raise Unsupported("return without a value")
                return sc.wrap(self.final(env, val, ret_sort))
            if k == "IfStmt" and contains(st, ("ReturnStmt",)):
                parts = st["inner"]
                c = self.need(self.pure(parts[0], env, sc), "bool", "if condition")
                ta = self.exec_fn([parts[1]] + stmts, dict(env), Scope(), ret_sort)
                tb = self.exec_fn(([parts[2]] if len(parts) > 2 else []) + stmts, dict(env), Scope(), ret_sort)
                return sc.wrap("if %s then (%s) else (%s)" % (c.term, ta, tb))
            self.exec_stmt(st, env, sc)
        if ret_sort is not None and not self.is_ctor:
            raise Unsupported("control reaches the end of a value-returning function")
        return sc.wrap(self.final(env, None, ret_sort))

    # ------------------------------------------------------------------ a whole member
    def translate(self):
        node = self.node
        env, sc = {}, Scope()
        for c in node.get("inner", []):
            if c.get("kind") == "ParmVarDecl":
                s = sort_of_type(c.get("type"))
                if s is None or not c.get("name"):
                    raise Unsupported("parameter %s : %s" % (c.get("name"), c.get("type", {}).get("qualType")))
                nm = c["name"]
                cn = nm if nm not in self.names else "p_" + nm
                self.names.add(cn)
                self.params.append((cn, s))
                env[nm] = Val(cn, s)
        rt = node.get("type", {}).get("qualType", "")
        ret_decl = rt.split("(")[0].strip()
        body = [c for c in node.get("inner", []) if c.get("kind") == "CompoundStmt"]
        if not body:
            raise Unsupported("no body")
        if self.is_ctor:
            ret_sort = None
            done = []
            for c in node.get("inner", []):
                if c.get("kind") != "CXXCtorInitializer":
                    continue
                f = c.get("anyInit", {}).get("name")
                if f not in self.fsort or not c.get("inner"):
                    raise Unsupported("constructor initialiser of %s" % f)
                v = self.ev(c["inner"][0], env, sc)
                if v.sort != self.fsort[f]:
                    raise Unsupported("initialiser of %s: %s for %s" % (f, v.sort, self.fsort[f]))
                env[f] = self.bind(sc, f, v.term, v.sort)
                done.append(f)
            if done != [f for f, _ in self.fields]:
                raise Unsupported("the constructor does not initialise every member in declaration order: %s" % done)
            sig = "".join(" (%s : %s)" % (p, COQTY[s]) for p, s in self.params)
            rty = "src_ls"
        else:
            if ret_decl == "void":
                ret_sort = None
            else:
                ret_sort = sort_of_type({"qualType": ret_decl})
                if ret_sort is None:
                    raise Unsupported("return type %s" % ret_decl)
            for f, s in self.fields:
                env[f] = Val("(%s s)" % f, s)
            sig = "".join(" (%s : %s)" % (p, COQTY[s]) for p, s in self.params) + " (s : src_ls)"
            rty = "src_ls" if ret_sort is None else "src_ls * %s" % COQTY[ret_sort]
        term = self.exec_fn(body[0].get("inner", []), env, sc, ret_sort)
        text = "Definition %s%s : %s :=\n  %s." % (self.coqname, sig, rty, term)
        return text, Method(self.coqname, self.params, ret_sort, "ctor" if self.is_ctor else "method")


# ------------------------------------------------------------------------------------------------ the class
def spec_of(objs, scalar):
    for o in objs:
        if o.get("kind") == "ClassTemplateSpecializationDecl" and o.get("name") == CLS:
            targs = [c.get("type", {}).get("qualType") for c in o.get("inner", []) if c.get("kind") == "TemplateArgument"]
            if targs == [scalar] and any(c.get("kind") == "FieldDecl" for c in o.get("inner", [])):
                return o
    raise Unsupported("no instantiation %s<%s> with members in %s" % (CLS, scalar, SRC))


def members(spec, name, nparams, const=None):
    res = []
    for c in spec.get("inner", []):
        if c.get("kind") in ("CXXMethodDecl", "CXXConstructorDecl") and c.get("name") == name and not c.get("isImplicit") \
                and any(x.get("kind") == "CompoundStmt" for x in c.get("inner", [])):
            np_ = sum(1 for x in c.get("inner", []) if x.get("kind") == "ParmVarDecl")
            isconst = c.get("type", {}).get("qualType", "").rstrip().endswith("const")
            if np_ == nparams and (const is None or const == isconst):
                res.append(c)
    return res


# (coq name, C++ member, number of parameters) in dependency order
TARGETS = [("src_new0", CLS, 0), ("src_new1", CLS, 1), ("src_new2", CLS, 2),
           ("src_setEstimateSize", "setEstimateSize", 1), ("src_setDataSize", "setDataSize", 1),
           ("src_setPreconditionner2", "setPreconditionner", 2), ("src_setPreconditionner1", "setPreconditionner", 1),
           ("src_computeJTJ_", "computeJTJ_", 0), ("src_computeJTY_", "computeJTY_", 0), ("src_weightJAndY_", "weightJAndY_", 0),
           ("src_estimateUsingCholeskyDecomposition", "estimateUsingCholeskyDecomposition", 0),
           ("src_estimateUsingSVD", "estimateUsingSVD", 0), ("src_weightedEstimate", "weightedEstimate", 0),
           ("src_computeEstimateCovariance", "computeEstimateCovariance", 1)]
GETTERS = [("src_getJ", "getJ"), ("src_getY", "getY"), ("src_getW", "getW")]


def translate_class(spec):
    """-> (record text, {coq name: text}, {coq name: error})"""
    fields = []
    for c in spec.get("inner", []):
        if c.get("kind") == "FieldDecl":
            s = sort_of_type(c.get("type"))
            if s not in ("nat", "vec", "mat", "T", "bool"):
                raise Unsupported("data member %s : %s" % (c.get("name"), c.get("type", {}).get("qualType")))
            fields.append((c["name"], s))
    if any(c.get("kind") == "CXXRecordDecl" and not c.get("isImplicit") for c in spec.get("inner", [])) or spec.get("bases"):
        raise Unsupported("the class has base classes or nested classes")
    rec = "Record src_ls : Type := mk_src {\n" + ";\n".join("  %s : %s" % (f, COQTY[s]) for f, s in fields) + " }."
    defs, errs, known = {}, {}, {}
    for coq, name, npar in TARGETS:
        try:
            ms = members(spec, name, npar)
            if len(ms) != 1:
                raise Unsupported("%d definitions of %s with %d parameters" % (len(ms), name, npar))
            ex = Exec(fields, ms[0], known, coq)
            text, k = ex.translate()
            defs[coq] = text
            known.setdefault(name, {})[npar] = k
        except Unsupported as e:
            errs[coq] = str(e)
        except Exception as e:  # noqa — an AST shape the executor did not expect: fail closed for this member
            errs[coq] = "internal error %r" % (e,)
    for coq, name in GETTERS:
        try:
            ms = members(spec, name, 0)
            if len(ms) != 2:
                raise Unsupported("%d definitions of %s (a const and a non-const overload expected)" % (len(ms), name))
            target = set()
            for m in ms:
                body = [c for c in m.get("inner", []) if c.get("kind") == "CompoundStmt"][0].get("inner", [])
                if len(body) != 1 or body[0].get("kind") != "ReturnStmt":
                    raise Unsupported("%s is not a single return" % name)
                r = body[0]["inner"][0]
                while r.get("kind") in WRAPPERS + CASTS and r.get("inner"):
                    r = r["inner"][-1]
                if r.get("kind") != "MemberExpr" or not r.get("inner") or r["inner"][0].get("kind") != "CXXThisExpr":
                    raise Unsupported("%s does not return a data member" % name)
                if "&" not in m.get("type", {}).get("qualType", "").split("(")[0]:
                    raise Unsupported("%s does not return a reference" % name)
                target.add(r.get("name"))
            if len(target) != 1 or list(target)[0] not in dict(fields):
                raise Unsupported("the overloads of %s return different members" % name)
            f = list(target)[0]
            s = dict(fields)[f]
            defs[coq] = "Definition %s (s : src_ls) : %s := %s s.\nDefinition %s_put (s : src_ls) (v : %s) : src_ls :=\n  mk_src %s." % (
                coq, COQTY[s], f, coq, COQTY[s], " ".join("v" if g == f else "(%s s)" % g for g, _ in fields))
        except Unsupported as e:
            errs[coq] = str(e)
        except Exception as e:  # noqa
            errs[coq] = "internal error %r" % (e,)
    return rec, defs, errs


def generate(repo):
    lines = [HEAD % "tr_C07_ls.py"]
    errors = []
    try:
        objs = eigsym.load_tu(repo, SRC, "romea::core::" + CLS, (HDR,))
        rec, defs, errs = translate_class(spec_of(objs, "double"))
        try:
            recf, defsf, errsf = translate_class(spec_of(objs, "float"))
        except Unsupported as e:
            recf, defsf, errsf = None, {}, {"*": str(e)}
    except Unsupported as e:
        return "\n".join(lines + ["(* NOT TRANSLATED: %s *)" % clean(e), "End Src."]) + "\n", [(PROP, str(e))]
    except Exception as e:  # noqa
        return "\n".join(lines + ["(* NOT TRANSLATED: internal error *)", "End Src."]) + "\n", [(PROP, "internal error %r" % (e,))]
    lines.append("(* the data members of LeastSquares<RealType>, in declaration order (%s) *)\n%s\n" % (HDR, rec))
    if recf != rec:
        errors.append((PROP, "the data members of LeastSquares<float> and LeastSquares<double> differ"))
    for coq in [t[0] for t in TARGETS] + [g[0] for g in GETTERS]:
        if coq in defs and defsf.get(coq) == defs[coq]:
            lines.append("(* %s: LeastSquares<RealType>::%s *)\n%s\n" % (SRC, dict([(t[0], t[1]) for t in TARGETS] + GETTERS)[coq], defs[coq]))
        else:
            why = errs.get(coq) or errsf.get(coq) or errsf.get("*") or "the float and double instantiations give different terms"
            errors.append((PROP, "%s: %s" % (coq, why)))
            lines.append("(* %s: NOT TRANSLATED — %s *)\n" % (coq, clean(why)))
    return "\n".join(lines + ["End Src."]) + "\n", errors


def generate_to(gen_dir, repo):
    try:
        text, errors = generate(repo)
    except Exception as e:  # noqa — never raise
        text, errors = HEAD % "tr_C07_ls.py" + "(* NOT TRANSLATED: translator failed *)\nEnd Src.\n", [(PROP, "translator failed: %r" % (e,))]
    os.makedirs(gen_dir, exist_ok=True)
    eigsym.write_if_changed(os.path.join(gen_dir, "SrcLs.v"), text)
    return errors


if __name__ == "__main__":
    t, e = generate(os.environ.get("VERIF_REPO", "/repo"))
    print(t)
    for x in e:
        print("%s: %s" % x, file=sys.stderr)
    sys.exit(2 if e else 0)
