#!/usr/bin/env python3
"""tr_C18_diag.py — plug-in translator of C18: the check-ups and the status algebra, regenerated from the clang AST of
  include/romea_core_common/diagnostic/Checkup.hpp               Checkup<double>::setDiagnostic_ / setValue_ / getStatus_ / timeout
  include/romea_core_common/diagnostic/CheckupEqualTo.hpp        CheckupEqualTo<double>::evaluate
  include/romea_core_common/diagnostic/CheckupGreaterThan.hpp    CheckupGreaterThan<double>::evaluate
  include/romea_core_common/diagnostic/CheckupLowerThan.hpp      CheckupLowerThan<double>::evaluate
        (class templates: the instantiation at double, forced by an explicit instantiation in the translation unit)
  src/diagnostics/CheckupReliability.cpp                          CheckupReliability::setDiagnostic_ / setRelabilityValue_ / evaluate
  src/diagnostics/DiagnosticStatus.cpp                            worse
  src/diagnostics/Diagnostic.cpp                                  worseStatus (the iterator loop), allOK
  src/diagnostics/DiagnosticReport.cpp                            operator+=
into coq/gen/SrcDiag.v (see imptrans.py for the vocabulary: the report of a check-up is DiagModel.creport, message endings are
DiagModel.suffix by a fixed table, statuses are DiagModel.status ordered by the enumerator values of RepoConstants.v).
Fails closed for C18 only."""
import os
import sys

HERE = os.path.dirname(os.path.abspath(__file__))
if HERE not in sys.path:
    sys.path.insert(0, HERE)
import imptrans as I   # noqa: E402

PROP = "C18"
D = "include/romea_core_common/diagnostic/"
S = "src/diagnostics/"
OVR = {"DiagnosticReport": "creport"}
TU = ("template class romea::core::Checkup<double>;\ntemplate class romea::core::CheckupEqualTo<double>;\n"
      "template class romea::core::CheckupGreaterThan<double>;\ntemplate class romea::core::CheckupLowerThan<double>;\n")
ALLHDR = D + "CheckupLowerThan.hpp"


def generate(repo):
    errors, out = [], [I.HEAD % "tr_C18_diag.py"]
    tu_inc = "#include \"%sCheckupEqualTo.hpp\"\n#include \"%sCheckupGreaterThan.hpp\"\n" % (D, D)
    loaded = I.load_all(repo, {
        "base": (ALLHDR, "romea::core::Checkup", tu_inc + TU),
        "rel": (S + "CheckupReliability.cpp", "romea::core::CheckupReliability::", ""),
        "worse": (S + "DiagnosticStatus.cpp", "romea::core::worse", ""),
        "diag": (S + "Diagnostic.cpp", "romea::core::", ""),
        "rep": (S + "DiagnosticReport.cpp", "romea::core::operator+=", "")})

    def objs(key):
        v = loaded[key]
        if isinstance(v, I.Unsupported):
            raise v
        return v

    def one(cname, key, src, meth, known, cls=None, spec=None, register=None, ovr=OVR, nparams=None):
        try:
            defs = I.find_method(objs(key), meth, cls, spec, nparams)
            if len(defs) != 1:
                raise I.Unsupported("%d definitions of %s found" % (len(defs), meth))
            f = I.Imp(defs[0], known, ovr, None, {})
            text, k = f.translate(cname, "%s  %s%s" % (src, (cls + "<double>::") if cls else "", meth))
            out.append(text)
            if register:
                known[register] = k
        except I.Unsupported as e:
            errors.append((PROP, "%s (%s): %s" % (cname, src, e)))
            out.append(I.not_translated(cname, src, e))
        except Exception as e:  # noqa — an AST shape the library did not expect: same treatment, never raise
            errors.append((PROP, "%s (%s): internal error %r" % (cname, src, e)))
            out.append(I.not_translated(cname, src, "internal error %r" % (e,)))

    # the helpers of Checkup<double>, then the three evaluate functions that call them
    kb = {}
    for meth, cn in (("setDiagnostic_", "setDiagnostic"), ("setValue_", "setValue"), ("getStatus_", "getStatus")):
        one("src_checkup_" + cn, "base", D + "Checkup.hpp", meth, kb, cls="Checkup", spec="double", register=meth)
    one("src_checkup_timeout", "base", D + "Checkup.hpp", "timeout", kb, cls="Checkup", spec="double")
    one("src_equal_to_evaluate", "base", D + "CheckupEqualTo.hpp", "evaluate", kb, cls="CheckupEqualTo", spec="double")
    one("src_greater_than_evaluate", "base", D + "CheckupGreaterThan.hpp", "evaluate", kb, cls="CheckupGreaterThan", spec="double")
    one("src_lower_than_evaluate", "base", D + "CheckupLowerThan.hpp", "evaluate", kb, cls="CheckupLowerThan", spec="double")
    kr = {}
    for meth, cn in (("setDiagnostic_", "setDiagnostic"), ("setRelabilityValue_", "setValue")):
        one("src_reliability_" + cn, "rel", S + "CheckupReliability.cpp", meth, kr, register=meth)
    one("src_reliability_evaluate", "rel", S + "CheckupReliability.cpp", "evaluate", kr)
    ks = {}
    one("src_worse", "worse", S + "DiagnosticStatus.cpp", "worse", ks, register="worse")
    one("src_worseStatus", "diag", S + "Diagnostic.cpp", "worseStatus", ks, register="worseStatus")
    one("src_allOK", "diag", S + "Diagnostic.cpp", "allOK", ks)
    one("src_report_append", "rep", S + "DiagnosticReport.cpp", "operator+=", {}, ovr={})
    out.append("End Src.\n")
    return "\n".join(out), errors


def generate_to(gen_dir, repo="/repo"):
    try:
        text, errors = generate(repo)
    except Exception as e:  # noqa — nothing could be generated: leave no stale file behind
        os.makedirs(gen_dir, exist_ok=True)
        I.emit_file(os.path.join(gen_dir, "SrcDiag.v"), "(* NOT GENERATED: translator failed: %s *)\n" % repr(e).replace("*)", "* )").replace("(*", "( *"))
        return [(PROP, "translator failed: %r" % (e,))]
    os.makedirs(gen_dir, exist_ok=True)
    I.emit_file(os.path.join(gen_dir, "SrcDiag.v"), text)
    return errors


if __name__ == "__main__":
    t, e = generate(os.environ.get("VERIF_REPO", "/repo"))
    print(t)
    for x in e:
        print("%s: %s" % x, file=sys.stderr)
    sys.exit(2 if e else 0)
