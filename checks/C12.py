"""C12 — analytic derivatives and propagated covariances match the maps they describe."""
import math
from fractions import Fraction
import numpy as np
from mpmath import mp, mpf, matrix as mpm
from vcommon import hexf, parse_num

mp.dps = 40
TWO_PI = 2 * mp.pi
H_ANGLE = 2.0 ** -17
H_POS = 1.0
PITCH_LIM = math.pi / 2 - 0.05

KEY_DR = "c12-smartrotation-dRdAngle-identity-leftover"
KEY_DRT = "c12-smartrotation-dRTdAngles-identity-leftover"
KEY_POSE = "c12-pose3d-covariance-jacobian"


# ------------------------------------------------------------------------------------------ helpers
def rx(a):
    c, s = mp.cos(a), mp.sin(a)
    return mpm([[1, 0, 0], [0, c, -s], [0, s, c]])


def ry(a):
    c, s = mp.cos(a), mp.sin(a)
    return mpm([[c, 0, s], [0, 1, 0], [-s, 0, c]])


def rz(a):
    c, s = mp.cos(a), mp.sin(a)
    return mpm([[c, -s, 0], [s, c, 0], [0, 0, 1]])


def drx(a):
    c, s = mp.cos(a), mp.sin(a)
    return mpm([[0, 0, 0], [0, -s, -c], [0, c, -s]])


def dry(a):
    c, s = mp.cos(a), mp.sin(a)
    return mpm([[-s, 0, c], [0, 0, 0], [-c, 0, -s]])


def drz(a):
    c, s = mp.cos(a), mp.sin(a)
    return mpm([[-s, -c, 0], [c, -s, 0], [0, 0, 0]])


def unit(i):
    m = mp.zeros(3)
    m[i, i] = 1
    return m


def mat3(v):
    return mpm([[mpf(v[0]), mpf(v[1]), mpf(v[2])], [mpf(v[3]), mpf(v[4]), mpf(v[5])], [mpf(v[6]), mpf(v[7]), mpf(v[8])]])


def mdiff(a, b):
    return max(abs(a[i, j] - b[i, j]) for i in range(a.rows) for j in range(a.cols))


def mmax(a):
    return max(abs(a[i, j]) for i in range(a.rows) for j in range(a.cols))


def nums(line):
    return [parse_num(t) for t in line.split()]


def euler_raw(m):
    """the angles rotation3DToEulerAngles extracts, before normalisation to [0, 2pi)"""
    return [mp.atan2(m[2, 1], m[2, 2]), -mp.asin(m[2, 0]), mp.atan2(m[1, 0], m[0, 0])]


def wrap(d):
    return d - TWO_PI * mp.nint(d / TWO_PI)


def rand_rotation(rng):
    q = [rng.gauss(0, 1) for _ in range(4)]
    n = math.sqrt(sum(c * c for c in q))
    w, x, y, z = [mpf(c / n) for c in q]
    nn = mp.sqrt(w * w + x * x + y * y + z * z)
    w, x, y, z = w / nn, x / nn, y / nn, z / nn
    return mpm([[1 - 2 * (y * y + z * z), 2 * (x * y - z * w), 2 * (x * z + y * w)],
                [2 * (x * y + z * w), 1 - 2 * (x * x + z * z), 2 * (y * z - x * w)],
                [2 * (x * z - y * w), 2 * (y * z + x * w), 1 - 2 * (x * x + y * y)]])


def rand_angles(rng):
    r = rng.random()
    if r < 0.1:
        pitch = rng.choice([-1, 1]) * (PITCH_LIM - abs(rng.gauss(0, 1e-3)))
    elif r < 0.2:
        pitch = rng.choice([0.0, PITCH_LIM, -PITCH_LIM, 1e-9])
    else:
        pitch = rng.uniform(-PITCH_LIM, PITCH_LIM)
    pitch = max(-PITCH_LIM, min(PITCH_LIM, pitch))

    def ang():
        if rng.random() < 0.15:
            return rng.choice([0.0, math.pi / 2, -math.pi / 2, math.pi, -math.pi, 3.0, -3.0])
        return rng.uniform(-math.pi, math.pi) if rng.random() < 0.8 else rng.uniform(-2 * math.pi, 2 * math.pi)
    return ang(), pitch, ang()


def rand_psd(rng, n, scale):
    r = rng.random()
    rank = n if r < 0.6 else rng.randint(0, n - 1)
    b = np.array([[rng.gauss(0, 1) for _ in range(max(rank, 1))] for _ in range(n)])
    if rank == 0:
        b = b * 0
    d = np.array([10 ** rng.uniform(-2, 2) for _ in range(b.shape[1])])
    c = (b * d) @ b.T * scale
    if r > 0.9:
        c = np.diag(np.abs(np.diag(c)))
    return (c + c.T) / 2


# ------------------------------------------------------------------------------------------ generators
def gen(rng, tier):
    big = tier == "thorough"
    k = 8 if big else 1
    groups = []
    sm = ["smart %s %s %s %s %s %s" % tuple(hexf(v) for v in (0.0, 0.0, 0.0, 1.0, 2.0, 3.0)),     # the _refuted witness
          "smart %s %s %s %s %s %s" % tuple(hexf(v) for v in (0.5, 0.0, 0.0, 1.0, 2.0, 3.0))]     # the pinned test's shape
    for _ in range(300 * k):
        x, y, z = rand_angles(rng)
        sc = 10 ** rng.uniform(-3, 3)
        t = [rng.gauss(0, 1) * sc for _ in range(3)]
        if rng.random() < 0.1:
            t[rng.randrange(3)] = 0.0
        sm.append("smart " + " ".join(hexf(v) for v in (x, y, z, *t)))
    groups.append(("rotation derivatives", sm))
    po = []
    ident = [1.0, 0, 0, 0, 1.0, 0, 0, 0, 1.0]
    c0 = np.eye(6)
    c0[3, 4] = c0[4, 3] = 0.5
    po.append("pose " + " ".join(hexf(float(v)) for v in ident + [0, 0, 0] + [0, 0, 0, 0, 0, 0] + list(c0.flatten())))  # _refuted witness
    n = 0
    while n < 150 * k:
        r = rng.random()
        if r < 0.15:
            rot = mp.eye(3)
        elif r < 0.3:
            rot = rz(mpf(rng.uniform(-3, 3)))
        elif r < 0.45:
            # special rigid transforms whose rotation has exact zeros / a block structure: half turns about a horizontal axis
            # ("upside-down": R(2,2) = -1 with the z row and column otherwise zero), half and quarter turns about the
            # coordinate axes, and their products with a yaw — a shortcut keyed on zero entries must still be right
            a = mpf(rng.uniform(-3, 3))
            kind = rng.randrange(5)
            if kind == 0:
                c, sn = mp.cos(a), mp.sin(a)       # half turn about the axis (cos a, sin a, 0): 2 u u^T - I
                rot = mp.matrix([[2 * c * c - 1, 2 * c * sn, 0], [2 * c * sn, 2 * sn * sn - 1, 0], [0, 0, -1]])
            elif kind == 1:
                rot = mp.matrix([[1, 0, 0], [0, -1, 0], [0, 0, -1]]) * rz(a)
            elif kind == 2:
                rot = rz(a) * mp.matrix([[-1, 0, 0], [0, 1, 0], [0, 0, -1]])
            elif kind == 3:
                rot = mp.matrix([[0, 0, 1], [0, 1, 0], [-1, 0, 0]]) if rng.random() < 0.5 else mp.matrix([[1, 0, 0], [0, 0, -1], [0, 1, 0]])
            else:
                rot = mp.matrix([[0, -1, 0], [1, 0, 0], [0, 0, 1]]) * mp.matrix([[1, 0, 0], [0, -1, 0], [0, 0, -1]])
        else:
            rot = rand_rotation(rng)
        tr = [rng.uniform(-1, 1) * 10 ** rng.uniform(-1, 3) for _ in range(3)] if rng.random() < 0.85 else [0.0, 0.0, 0.0]
        ang = rand_angles(rng)
        m = rot * rz(mpf(ang[2])) * ry(mpf(ang[1])) * rx(mpf(ang[0]))
        if abs(m[2, 0]) > math.cos(0.05):
            continue
        pos = [rng.uniform(-1, 1) * 10 ** rng.uniform(-1, 4) for _ in range(3)]
        cov = rand_psd(rng, 6, 10 ** rng.uniform(-4, 2))
        lin = [float(rot[i, j]) for i in range(3) for j in range(3)]
        po.append("pose " + " ".join(hexf(float(v)) for v in lin + tr + pos + list(ang) + list(cov.flatten())))
        n += 1
    groups.append(("pose covariance", po))
    ls = []
    n = 0
    while n < 120 * k:
        nn = rng.randint(1, 4)
        m = rng.randint(nn, nn + 5)
        j = [[rng.randint(-5, 5) * rng.choice([1, 1, 0.5, 0.25]) for _ in range(nn)] for _ in range(m)]
        jf = [[Fraction(v) for v in row] for row in j]
        jtj = [[sum(jf[r][a] * jf[r][b] for r in range(m)) for b in range(nn)] for a in range(nn)]
        inv = frac_inverse(jtj)
        if inv is None or np.linalg.cond(np.array(j, dtype=float)) > 1e3:
            continue
        ad = [rng.choice([0.25, 0.5, 1.0, 2.0, 3.0, 10.0, 0.125, -1.0, 100.0]) for _ in range(nn)]
        if rng.random() < 0.2:
            ad = [1.0] * nn
        var = rng.choice([1.0, 0.25, 4.0, 0.0625, 9.0, 1e-2, 123.0])
        toks = [str(m), str(nn)] + [hexf(v) for row in j for v in row] + [hexf(v) for v in ad] + [hexf(var)] + \
               [hexf(float(inv[a][b])) for a in range(nn) for b in range(nn)]
        ls.append("ls " + " ".join(toks))
        n += 1
        if n % 2 == 0:
            # the same problem with a full, generally non-symmetric preconditioner (x = A z + b for any configured A)
            af = [[float(rng.choice([0, 0, 1, -1, 2, 0.5, 3, -0.25])) for _ in range(nn)] for _ in range(nn)]
            for d in range(nn):
                af[d][d] = float(rng.choice([1, 2, 0.5, -1, 4]))
            toks = [str(m), str(nn)] + [hexf(v) for row in j for v in row] + [hexf(v) for row in af for v in row] + [hexf(var)] + \
                   [hexf(float(inv[a][b])) for a in range(nn) for b in range(nn)]
            ls.append("lsg " + " ".join(toks))
    groups.append(("least-squares covariance", ls))
    return groups


def frac_inverse(a):
    n = len(a)
    m = [list(row) + [Fraction(int(i == j)) for j in range(n)] for i, row in enumerate(a)]
    for c in range(n):
        p = next((r for r in range(c, n) if m[r][c] != 0), None)
        if p is None:
            return None
        m[c], m[p] = m[p], m[c]
        pv = m[c][c]
        m[c] = [v / pv for v in m[c]]
        for r in range(n):
            if r != c and m[r][c] != 0:
                f = m[r][c]
                m[r] = [v - f * w for v, w in zip(m[r], m[c])]
    return [row[n:] for row in m]


# ------------------------------------------------------------------------------------------ oracle
def oracle_smart(a, o):
    fails = []
    x, y, z = mpf(a[0]), mpf(a[1]), mpf(a[2])
    t = mpm([mpf(a[3]), mpf(a[4]), mpf(a[5])])
    r_ref = rz(z) * ry(y) * rx(x)
    r = mat3(o[0:9])
    if mdiff(r, r_ref) > 1e-14:
        fails.append(("c12-smart-R", "SmartRotation3D::R differs from Rz*Ry*Rx by %s" % mp.nstr(mdiff(r, r_ref), 5)))
    true = [rz(z) * ry(y) * drx(x), rz(z) * dry(y) * rx(x), drz(z) * ry(y) * rx(x)]
    extra = [rz(z) * ry(y) * unit(0), rz(z) * unit(1) * rx(x), unit(2) * ry(y) * rx(x)]
    names = ["X", "Y", "Z"]
    # central differences of the implementation's own R: are the analytic derivatives those of *its* map?
    for k in range(3):
        rp, rm = mat3(o[45 + 18 * k:54 + 18 * k]), mat3(o[54 + 18 * k:63 + 18 * k])
        fd = (rp - rm) / (2 * mpf(H_ANGLE))
        if mdiff(fd, true[k]) > 1e-8:
            fails.append(("c12-smart-R-derivative-mismatch", "central differences of R() wrt angle %s differ from d(Rz*Ry*Rx) by %s"
                          % (names[k], mp.nstr(mdiff(fd, true[k]), 5))))
    for k in range(3):
        d = mat3(o[9 + 9 * k:18 + 9 * k])
        e = mdiff(d, true[k])
        if e <= 1e-12:
            continue
        if mdiff(d, true[k] + extra[k]) <= 1e-12:
            fails.append((KEY_DR, "dRdAngleAround%sAxis = dR/d%s + {X: Rz*Ry*E00, Y: Rz*E11*Rx, Z: E22*Ry*Rx}: off the true derivative by %s"
                          % (names[k], names[k].lower(), mp.nstr(e, 5))))
        else:
            fails.append(("c12-dRdAngle-wrong", "dRdAngleAround%sAxis differs from the true derivative by %s and not by the known identity leftover"
                          % (names[k], mp.nstr(e, 5))))
    drt = mat3(o[36:45])
    tn = 1 + max(abs(t[i]) for i in range(3))
    for k in range(3):
        col = mpm([drt[i, k] for i in range(3)])
        tv, ev = true[k] * t, extra[k] * t
        e = max(abs(col[i] - tv[i]) for i in range(3))
        if e <= 1e-12 * tn:
            continue
        if max(abs(col[i] - tv[i] - ev[i]) for i in range(3)) <= 1e-12 * tn:
            fails.append((KEY_DRT, "dRTdAngles column %d = (dR/d%s + leftover) * T: off d(R*T)/d%s by %s" % (k, names[k].lower(), names[k].lower(), mp.nstr(e, 5))))
        else:
            fails.append(("c12-dRTdAngles-wrong", "dRTdAngles column %d differs from d(R*T)/d%s by %s and not by the known identity leftover"
                          % (k, names[k].lower(), mp.nstr(e, 5))))
    return fails


def pose_map(rot, tr, v):
    p = rot * mpm(v[0:3]) + tr
    m = rot * rz(v[5]) * ry(v[4]) * rx(v[3])
    return [p[0], p[1], p[2]] + euler_raw(m), m


def oracle_pose(a, o):
    fails = []
    rot = mat3(a[0:9])
    tr = mpm([mpf(v) for v in a[9:12]])
    v = [mpf(x) for x in a[12:18]]
    cov = mpm(6, 6)
    for i in range(36):
        cov[i // 6, i % 6] = mpf(a[18 + i])
    ref, m = pose_map(rot, tr, v)
    amp = 1 / mp.sqrt(max(mpf(1e-12), 1 - m[2, 0] ** 2))
    pscale = 1 + max(abs(x) for x in ref[0:3]) + max(abs(x) for x in v[0:3])
    for i in range(3):
        if abs(mpf(o[i]) - ref[i]) > 1e-12 * pscale:
            fails.append(("c12-pose3d-mean", "position %d is %r, R*p+T gives %s" % (i, o[i], mp.nstr(ref[i], 17))))
    for i in range(3, 6):
        if abs(wrap(mpf(o[i]) - ref[i])) > 1e-12 * amp:
            fails.append(("c12-pose3d-mean", "orientation %d is %r, the angles of R*Rz*Ry*Rx are %s" % (i - 3, o[i], mp.nstr(ref[i], 17))))
    # Jacobian of the pose map: central differences in 40-digit arithmetic
    h = mpf(10) ** -15
    jac = mpm(6, 6)
    for k in range(6):
        vp, vm = list(v), list(v)
        vp[k] += h
        vm[k] -= h
        fp, _ = pose_map(rot, tr, vp)
        fm, _ = pose_map(rot, tr, vm)
        for i in range(6):
            d = fp[i] - fm[i]
            jac[i, k] = (wrap(d) if i >= 3 else d) / (2 * h)
    # ... and of the implementation's own mean map (binary64 outputs at +-h): must be the same map
    jfd = mpm(6, 6)
    for k in range(6):
        hk = mpf(H_POS if k < 3 else H_ANGLE)
        fp = o[42 + 12 * k:48 + 12 * k]
        fm = o[48 + 12 * k:54 + 12 * k]
        for i in range(6):
            d = mpf(fp[i]) - mpf(fm[i])
            jfd[i, k] = (wrap(d) if i >= 3 else d) / (2 * hk)
    jn = 1 + mmax(jac)
    if mdiff(jfd, jac) > 1e-5 * jn * jn * jn + 1e-9 * pscale:
        fails.append(("c12-pose3d-mean-map", "central differences of the implementation's pose map differ from the Jacobian of "
                      "(R*p+T, angles(R*Rz*Ry*Rx)) by %s" % mp.nstr(mdiff(jfd, jac), 5)))
    exp = jac * cov * jac.T
    got = mpm(6, 6)
    for i in range(36):
        got[i // 6, i % 6] = mpf(o[6 + i])
    tol = 1e-10 * (jn * jn * (mmax(cov) + mpf(1e-300)))
    e = mdiff(got, exp)
    if e > tol:
        worst = max(((abs(got[i, j] - exp[i, j]), i, j) for i in range(6) for j in range(6)))
        fails.append((KEY_POSE, "operator*(Affine3d, Pose3D).covariance differs from J*C*J^T (J = Jacobian of the pose map) by %s "
                      "at (%d,%d): got %s expected %s" % (mp.nstr(e, 5), worst[1], worst[2], mp.nstr(got[worst[1], worst[2]], 12),
                                                        mp.nstr(exp[worst[1], worst[2]], 12))))
    gs = np.array([[float(got[i, j]) for j in range(6)] for i in range(6)])
    scale = float(mmax(got)) + 1e-300
    if np.max(np.abs(gs - gs.T)) > 1e-9 * scale:
        fails.append(("c12-pose3d-covariance-symmetry", "propagated covariance is not symmetric (%g)" % np.max(np.abs(gs - gs.T))))
    elif np.min(np.linalg.eigvalsh((gs + gs.T) / 2)) < -1e-9 * scale:
        fails.append(("c12-pose3d-covariance-psd", "propagated covariance has eigenvalue %g" % np.min(np.linalg.eigvalsh((gs + gs.T) / 2))))
    return fails


def oracle_ls(t, o):
    m, n = int(t[1]), int(t[2])
    vals = [Fraction(float.fromhex(x)) for x in t[3:]]
    j = [[vals[r * n + c] for c in range(n)] for r in range(m)]
    if t[0] == "lsg":
        am = [[vals[m * n + a * n + b] for b in range(n)] for a in range(n)]
        var = vals[m * n + n * n]
    else:
        ad = vals[m * n:m * n + n]
        am = [[ad[a] if a == b else Fraction(0) for b in range(n)] for a in range(n)]
        var = vals[m * n + n]
    jtj = [[sum(j[r][a] * j[r][b] for r in range(m)) for b in range(n)] for a in range(n)]
    inv = frac_inverse(jtj)
    # x = A z + b with Cov(z) = var * (J^T J)^-1   ==>   Cov(x) = var * A (J^T J)^-1 A^T
    exp = [[var * sum(am[a][p] * inv[p][q] * am[b][q] for p in range(n) for q in range(n)) for b in range(n)] for a in range(n)]
    scale = max(abs(float(v)) for row in exp for v in row)
    if len(o) != n * n:
        return [("c12-ls-shape", "expected %d entries" % (n * n))]
    for a in range(n):
        for b in range(n):
            if abs(o[a * n + b] - float(exp[a][b])) > 1e-9 * scale:
                return [("c12-ls-covariance", "computeEstimateCovariance(%d,%d) = %r, variance*A*(J^T J)^-1*A^T = %r"
                         % (a, b, o[a * n + b], float(exp[a][b])))]
    return []


def oracle(case, out):
    t = case.split()
    if out.strip() in ("none", "?", "contract"):
        return [("c12-nonfinite", "no finite result inside the property's domain (%s)" % out.strip())]
    o = nums(out)
    if any(v is None for v in o):
        return [("c12-shape", "unparsable output")]
    a = [float.fromhex(x) for x in t[1:]] if t[0] not in ("ls", "lsg") else None
    if t[0] == "smart":
        return oracle_smart(a, o) if len(o) == 99 else [("c12-shape", "smart: %d tokens" % len(o))]
    if t[0] == "pose":
        return oracle_pose(a, o) if len(o) == 114 else [("c12-shape", "pose: %d tokens" % len(o))]
    if t[0] in ("ls", "lsg"):
        return oracle_ls(t, o)
    return [("c12-shape", "unknown case kind")]


# ------------------------------------------------------------------------------------------ correspondence
def compare(case, il, ml):
    t = case.split()
    if il.strip() in ("none", "?") or ml.strip() in ("none", "?", "contract"):
        return None if il.strip() == ml.strip() else "impl %r model %r" % (il[:60], ml[:60])
    a, b = nums(il), nums(ml)
    if len(a) != len(b) or any(v is None for v in a + b):
        return "shape: impl %d tokens, model %d tokens" % (len(a), len(b))
    if t[0] == "smart":
        inp = [float.fromhex(x) for x in t[1:]]
        tn = 1 + max(abs(v) for v in inp[3:6])
        for i, (x, y) in enumerate(zip(a, b)):
            lim = 1e-13 * (tn if 36 <= i < 45 else 1.0)
            if not abs(x - y) <= lim:
                return "token %d: impl %r model %r" % (i, x, y)
        return None
    if t[0] == "pose":
        inp = [float.fromhex(x) for x in t[1:]]
        pscale = 1 + max(abs(v) for v in inp[9:15])
        amp = 1 / max(1e-6, abs(math.cos(a[4])))
        cs = max(abs(v) for v in a[6:42]) + 1e-300
        for i, (x, y) in enumerate(zip(a, b)):
            if 6 <= i < 42:
                d, lim = abs(x - y), 1e-9 * cs
            else:
                comp = i if i < 6 else (i - 42) % 6
                if comp < 3:
                    d, lim = abs(x - y), 1e-12 * pscale
                else:
                    d, lim = abs(math.remainder(x - y, 2 * math.pi)), 1e-12 * amp
            if not d <= lim:
                return "token %d: impl %r model %r (|diff| %.3g > %.3g)" % (i, x, y, d, lim)
        return None
    scale = max([abs(v) for v in a] + [1e-300])
    for i, (x, y) in enumerate(zip(a, b)):
        if not abs(x - y) <= 1e-9 * scale:
            return "token %d: impl %r model %r" % (i, x, y)
    return None


def nontrivial(case, out):
    return case if out.strip() not in ("none", "?", "contract") else None


CHECK = {
    "coq": "Properties_C12",
    "driver": "drv_C12",
    "harness": "C12.cpp",
    "repo_srcs": ["src/transform/SmartRotation3D.cpp", "src/geometry/Pose3D.cpp", "src/geometry/Pose2D.cpp",
                  "src/geometry/Position3D.cpp", "src/geometry/Ellipse.cpp", "src/regression/leastsquares/LeastSquares.cpp"],
    "gen": gen,
    "oracle": oracle,
    "compare": compare,
    "nontrivial": nontrivial,
    "rule": "rotation derivatives: angle triples with |pitch| <= pi/2-0.05 (10% within 1e-3 of the limit, special values 0, +-pi/2, +-pi), "
            "vectors of norm 1e-3..1e3, plus the two witnesses of the refutation theorems; pose covariance: rigid transforms (15% identity, "
            "15% pure yaw, random otherwise; translations up to 1e3), poses up to 1e4 with |pitch| <= pi/2-0.05 before and after, PSD 6x6 "
            "covariances of rank 0..6 and scale 1e-4..1e2; least squares: 1..4 unknowns, up to 5 redundant rows, dyadic entries, full rank, "
            "diagonal preconditioners and, every second problem, a full non-symmetric preconditioner (case kind lsg). Non-trivial = distinct case with a finite result.",
    "trusted": ["translator translate/eigensym.py + tr_C12_eigensym.py: clang JSON AST -> entry-wise symbolic values; its reading of the Eigen operations it accepts (coefficient access, Zero/Identity/Unit*, comma-initialiser block placement, * + - unary -, transpose, col/row/block/head, cross); anything else is refused (fail closed)",
                "hand-written models coq/AnglesModel.v, coq/PoseCovModel.v tied by differential execution (this run)",
                "extraction (ExtrOcamlBasic), ocaml/numf.ml, ocaml/drv_C12.ml", "harness/C12.cpp, python/mpmath/Fraction oracle in checks/C12.py",
                "Eigen: Transform::rotation() returns the linear part of a rigid transform; LDLT solve returns the inverse (contract checked)"],
    "manifest": {
        "text": "SYNTACTIC TIE: the matrix code itself is regenerated from the clang AST on every run by a symbolic evaluator for small fixed-size "
                "Eigen expressions (translate/eigensym.py + tr_C12_eigensym.py -> coq/gen/SrcEigenC12.v) and proved equal to the models (real "
                "instance, coq/SrcTieC12.v): (1) SmartRotation3D(x,y,z) = the default constructor's Identity/Zero member initialisers followed "
                "by init(x,y,z) — all ten member matrices, element writes and the three-factor products included — equal Rx_of..dRz_of and "
                "smart_init (C12_source_tie_smart_rotation; dRTdAngles: C12_source_tie_smart_dRTdAngles), i.e. exactly the model whose "
                "'true derivative + identity leftover' characterisation the open known finding is keyed on — and that finding is restated about the "
                "generated terms themselves (C12_source_smart_derivative_leftover); (2) operator*(Affine3d, Pose3D) of "
                "src/geometry/Pose3D.cpp: the comma initialisers with column / row / cross-product blocks, the loop over k (unrolled), the block "
                "assignment and the scalar coefficients give a 6x6 local J equal to pose_J in all 36 entries, the returned position = l*p + t, the "
                "matrix handed to rotation3DToEulerAngles = l*S (S through the inlined delegating constructor), the returned orientation = the C10 "
                "unit's generated term applied to it, and the returned covariance = J*C*J^T (C12_source_tie_pose_jacobian, "
                "C12_source_tie_pose_mean; the covariance lemma follows whatever chain of 6x6 expressions the source uses, e.g. through a local J*C); composed with the Jacobian theorem: the generated 6x6 matrix is the Jacobian of the generated mean map "
                "(C12_source_pose_jacobian_is_derivative). The lemmas survive renaming / hoisting / re-association / statement reordering and break "
                "on a changed sign, index, factor order, dropped transpose or initial value.  "
                "Coq (Coquelicot is_derive): the entry-wise derivatives of Rz*Ry*Rx in each angle (dR_true) and of R*T; the faithful model of "
                "SmartRotation3D's derivative members equals them plus Rz*Ry*E00 / Rz*E11*Rx / E22*Ry*Rx, a term that is never zero "
                "(characterisation + refutation: open known finding, pinned by the repo's tests); the repaired 6x6 Jacobian of "
                "operator*(Affine3d, Pose3D) is the derivative of the model's own pose map, entry by entry (C12_pose_jacobian: every rigid "
                "transform, every pose off gimbal lock after transformation; position rows ordinary derivatives, angle rows as derivatives "
                "modulo 2pi of the reported angles, the value being unique), on every chart of atan2: a general derivative theorem for "
                "atan2 off its branch cut (C12_atan2_derivative, three half-plane charts) gives the angular block for the raw angles "
                "wherever they are differentiable (C12_pose_jacobian_angular, any matrix l) and for the reported angles "
                "(after between0And2Pi) wherever none is 0 (C12_pose_jacobian_angular_reported, covers the cut of atan2); the attached "
                "covariance is J*C*J^T with that J and is symmetric PSD whenever C is (C12_pose_covariance), the original Jacobian is "
                "refuted at the identity transform; "
                "computeEstimateCovariance = variance*A*inv*A^T for EVERY configured A (after the repair 870e444; the transposed product of the old code is refuted), and with the contract inv*(J^T J) = I of the stored inverse "
                "A^-1*cov*A^-1*(J^T J) = variance*I (C12_ls_covariance_inverse_normal). The model runs against the real classes; an mpmath "
                "oracle compares derivative matrices with the true derivatives (recognising exactly the characterised leftover, 1e-12) and the "
                "attached covariance with J*C*J^T from 40-digit central differences of the pose map, cross-checked against central "
                "differences of the implementation's own outputs; rational arithmetic for the solver covariance.",
        "note": "Trusted: Coq kernel, standard real-number axioms; the translator's reading of the Eigen operations it accepts (coefficient "
                "access, Zero/Identity, comma-initialiser block placement, * + - unary -, transpose, col/row/block, cross; anything else is refused) "
                "and clang's AST; the least-squares part and the parts of the models not listed under SYNTACTIC TIE are hand transcriptions checked "
                "numerically each run; rounding observed not proved; "
                "Eigen's rotation() (SVD) and LDLT are oracle arguments with contracts checked at run time.",
        "technique": "Coq proof over R (Coquelicot derivatives, ring/nsatz, sum algebra) + syntactic source tie (symbolic evaluation of the Eigen matrix code from the clang AST, tie lemmas by ring) + extracted-model correspondence run + mpmath/rational oracle",
    },
    "assumptions": ["theorems are over real arithmetic; floating-point behaviour is measured by the correspondence run and the oracle",
                    "where a reported angle is exactly 0 the [0,2pi) representative jumps by 2pi and no ordinary derivative exists: there the "
                    "Jacobian theorem holds for the angle modulo 2pi (is_derive_mod2pi), elsewhere as an ordinary derivative"],
}
