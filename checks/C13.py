"""C13 — grid index mapping puts each in-range point in the in-bounds cell containing it."""
from fractions import Fraction
import math
import numpy as np
from vcommon import hexf


def rnd(x, ty):
    return float(np.float32(x)) if ty == "f32" else float(x)


def nextafter(x, d, ty):
    if ty == "f32":
        return float(np.nextafter(np.float32(x), np.float32(d)))
    return math.nextafter(x, d)


EPS = {"f32": 2.0 ** -23, "f64": 2.0 ** -52}
FRACS = ["0/1", "1/1", "1/2", "1/3", "2/3", "1/7", "6/7"]


def gen_case(rng, ty):
    dim = rng.choice([2, 3])
    sym = rng.random() < 0.4
    # resolution: round numbers, powers of two and random ones
    r = rnd(rng.choice([1e-3, 1e-2, 0.05, 0.1, 0.25, 0.5, 1.0, 2.0, 10.0, rng.uniform(1e-3, 10), 10 ** rng.uniform(-3, 1)]), ty)
    maxcells = 1e7 ** (1.0 / dim)
    span_max = min(2000.0, r * maxcells)
    lo, hi = [], []
    if sym:
        k = rng.choice(["mult", "half", "rand"])
        rng_max = span_max / 2
        if k == "mult":
            R = r * rng.randint(0, max(0, int(rng_max / r)))
        elif k == "half":
            R = r * (rng.randint(0, max(0, int(rng_max / r))) + 0.5)
        else:
            R = rng.uniform(0, rng_max)
        R = rnd(min(R, 1000.0), ty)
        lo, hi = [-R] * dim, [R] * dim
        head = "sym %s %d %s %s" % (ty, dim, hexf(R), hexf(r))
    else:
        for _ in range(dim):
            span = rng.uniform(0, span_max) if rng.random() < 0.9 else 0.0
            a = rng.uniform(-1000.0, 1000.0 - span)
            k = rng.random()
            if k < 0.3:      # bounds on exact multiples of the resolution
                a = r * round(a / r)
                b = a + r * round(span / r)
            elif k < 0.5:    # half-multiples
                a = r * (round(a / r) + 0.5)
                b = a + r * round(span / r)
            else:
                b = a + span
            a, b = rnd(max(-1000.0, a), ty), rnd(min(1000.0, b), ty)
            if b < a:
                a, b = b, a
            lo.append(a)
            hi.append(b)
        head = "map %s %d %s %s %s" % (ty, dim, hexf(r), " ".join(hexf(v) for v in lo), " ".join(hexf(v) for v in hi))
    pts = []
    for _ in range(rng.randint(4, 14)):
        p = []
        for d in range(dim):
            a, b = lo[d], hi[d]
            k = rng.random()
            if k < 0.15:
                v = a
            elif k < 0.3:
                v = b
            elif k < 0.6:
                # on a cell border (origin + j*r) or one ulp on either side
                j = rng.randint(0, max(0, int((b - a) / r) + 1))
                org = r * (math.floor(a / r) - 0.5)
                v = rnd(org + j * r, ty)
                s = rng.random()
                if s < 0.33:
                    v = nextafter(v, math.inf, ty)
                elif s < 0.66:
                    v = nextafter(v, -math.inf, ty)
            elif k < 0.7:
                j = rng.randint(0, max(0, int((b - a) / r) + 1))
                org = r * (math.floor(a / r) - 0.5)
                v = rnd(org + (j + 0.5) * r, ty)     # a cell centre
            else:
                v = rnd(rng.uniform(a, b), ty)
            v = min(max(v, a), b)                     # keep inside the closed extent
            p.append(v)
        pts.append("P " + " ".join(hexf(v) for v in p))
    return head + " " + " ".join(pts) + " " + " ".join("C " + f for f in FRACS)


def gen(rng, tier):
    n = 20000 if tier == "thorough" else 3000
    return [("double", [gen_case(rng, "f64") for _ in range(n)]), ("float", [gen_case(rng, "f32") for _ in range(n)])]


def parse_case(case):
    t = case.split()
    ty, dim = t[1], int(t[2])
    i = 3
    if t[0] == "map":
        r = float.fromhex(t[i]); i += 1
        lo = [float.fromhex(v) for v in t[i:i + dim]]; i += dim
        hi = [float.fromhex(v) for v in t[i:i + dim]]; i += dim
    else:
        R = float.fromhex(t[i]); r = float.fromhex(t[i + 1]); i += 2
        lo, hi = [-R] * dim, [R] * dim
    pts, fr = [], []
    while i < len(t):
        if t[i] == "P":
            pts.append([float.fromhex(v) for v in t[i + 1:i + 1 + dim]]); i += 1 + dim
        else:
            fr.append(t[i + 1]); i += 2
    return ty, dim, r, lo, hi, pts, fr


def oracle(case, out):
    ty, dim, r, lo, hi, pts, fr = parse_case(case)
    o = out.split()
    fails = []
    if o[0] != "N":
        return [("c13-shape", "no cell counts")]
    n = [int(v) for v in o[1:1 + dim]]
    i = 1 + dim
    if any(v < 1 for v in n):
        return [("c13-ncells", "cell counts %s" % n)]
    mag = max([abs(v) for v in lo + hi] + [r])
    tol = Fraction(8 * EPS[ty]) * Fraction(mag) + Fraction(8 * EPS[ty]) * Fraction(r)
    half = Fraction(r) / 2
    for p in pts:
        if o[i] != "P":
            return fails + [("c13-shape", "token %d" % i)]
        idx = [int(v) for v in o[i + 1:i + 1 + dim]]
        i += 1 + dim
        if o[i] == "OOB" or any(not (0 <= idx[d] < n[d]) for d in range(dim)):
            fails.append(("c13-in-bounds", "point %s inside extent [%s, %s] (r=%r, %s) maps to indexes %s with %s cells" % (p, lo, hi, r, ty, idx, n)))
            i += 1 if o[i] == "OOB" else dim
            continue
        c = [float.fromhex(v) for v in o[i:i + dim]]
        i += dim
        for d in range(dim):
            if abs(Fraction(p[d]) - Fraction(c[d])) > half + tol:
                fails.append(("c13-half-cell", "axis %d: point %r is %.3g from the centre %r of its cell %d, more than r/2 = %r (%s)"
                              % (d, p[d], abs(p[d] - c[d]), c[d], idx[d], r / 2, ty)))
    for f in fr:
        if i >= len(o) or o[i] != "C":
            return fails + [("c13-shape", "token %d" % i)]
        i += 1
        for d in range(dim):
            k, c, back, sp = int(o[i]), float.fromhex(o[i + 1]), int(o[i + 2]), o[i + 3]
            i += 4
            if back != k:
                fails.append(("c13-centre-fixed", "axis %d: centre %r of cell %d maps to cell %d (r=%r, %s)" % (d, c, k, back, r, ty)))
            if sp != "nan" and abs(Fraction(float.fromhex(sp)) - Fraction(r)) > tol:
                fails.append(("c13-spacing", "axis %d: centres %d and %d are %r apart, resolution %r (%s)" % (d, k, k + 1, float.fromhex(sp), r, ty)))
            if k == 0 and Fraction(c) - half > Fraction(lo[d]) + tol:
                fails.append(("c13-cover-low", "axis %d: first cell starts at %r above the lower bound %r" % (d, c - r / 2, lo[d])))
            if k == n[d] - 1 and Fraction(hi[d]) > Fraction(c) + half + tol:
                fails.append(("c13-cover-high", "axis %d: last cell ends at %r below the upper bound %r" % (d, c + r / 2, hi[d])))
    return fails[:4]


def nontrivial(case, out):
    o = out.split()
    dim = int(case.split()[2])
    return any(int(v) >= 3 for v in o[1:1 + dim]) and case


CHECK = {
    "coq": "Properties_C13",
    "driver": "drv_C13",
    "harness": "C13.cpp",
    "repo_srcs": ["src/containers/grid/GridIndexMapping.cpp"],
    "gen": gen,
    "oracle": oracle,
    "nontrivial": nontrivial,
    "rtol": 1e-6, "atol": 0.0,
    "rule": "2D/3D, float and double, symmetric and interval constructors; bounds in [-1e3,1e3] incl. exact multiples and "
            "half-multiples of r; r in [1e-3,10] (round, dyadic, random) with <= 1e7 cells; points on extent corners, on cell "
            "borders +-1 ulp, on centres, random; cells 0, n-1 and five interior fractions per axis; non-trivial = >= 3 cells on an axis",
    "trusted": ["translate/tr_C13_gridmap.py + translate/eigsym.py (clang JSON AST -> coq/gen/SrcGridMap.v): per-axis reading of Eigen "
                "coefficient-wise expressions, romea::core::Interval accessors, table-fill loop as a function of the index",
                "hand-written model coq/GridMapModel.v: proved equal to the generated terms (SrcTieC13.v) and also run differentially (this run)",
                "extraction (ExtrOcamlBasic), ocaml/numf.ml (binary32 = round of binary64 result), ocaml/drv_C13.ml",
                "harness/C13.cpp, python oracle in checks/C13.py",
                "binary64/binary32 theorems: hardware float/double arithmetic = Flocq round-to-nearest-even in FLT_exp(-1074,53) / "
                "FLT_exp(-149,24), one rounding per C++ operation (no x87 excess precision, no FMA contraction); the rounded "
                "dictionaries FlOps are not extracted, the executed ones are in ocaml/numf.ml"],
    "assumptions": ["floating point: proved (coq/GridMapFloat.v, Flocq) for binary64 on 2^-900 <= r <= 2^900, |lo|,|hi| <= 2^40*r and for "
                    "binary32 on 2^-100 <= r <= 2^100, |lo|,|hi| <= 2^20*r; outside those domains the effect of rounding is only "
                    "observed by the oracle (explained by the half-cell margin theorem over the reals, not proved)"],
    "manifest": {
        "text": "SYNTACTIC TIE: the interval constructor (floored minimal positions, numbers of cells, the cell-centre table as "
                "(size, fun n => centre n)), the (maximalRange, cellResolution) constructor's delegation, computeCellIndexes and "
                "computeCellCenterPosition of GridIndexMapping<float|double,2|3> are re-translated on every run from the clang AST of "
                "the instantiations (translate/tr_C13_gridmap.py + eigsym.py: symbolic execution, Eigen array expressions read axis "
                "by axis, float and double instantiations must give the same term -> coq/gen/SrcGridMap.v) and proved EQUAL, by "
                "computation only (same operations, same order), to gm_origin/gm_ncells/gm_centre/gm_index/gm_sym_lo for every "
                "numeric dictionary reading the literals 0, 1, 0.5 as the model does — proved of the reals AND of the binary64 / "
                "binary32 dictionaries (C13_source_tie_*): the terms the real and the Flocq theorems are about are the terms "
                "generated from the source; C13_source_index_in_bounds_binary64/32 state the in-bounds property directly on the "
                "generated constructor + computeCellIndexes. "
                "For every resolution r>0, extent lo<=hi and point in the extent (reals): half-cell margin 1/2 <= (p-origin)/r <= n-1/2, "
                "hence index in [0,n), |p - centre(index)| <= r/2, centres map to their own index, are spaced by exactly r, and the "
                "first/last cells cover the bounds — proved in Coq (Flocq Zfloor/Zceil/Ztrunc) about the model instantiated at R. "
                "The same statements are proved in IEEE-754 arithmetic (same model instantiated at a dictionary that rounds to "
                "nearest-even after every C++ operation, Flocq FLT format; one error analysis for any precision) for binary64 on "
                "2^-900 <= r <= 2^900, |lo|,|hi| <= 2^40*r and for binary32 on 2^-100 <= r <= 2^100, |lo|,|hi| <= 2^20*r (both contain the "
                "property's envelope r in [1e-3,10], bounds in [-1e3,1e3]): no intermediate overflows, the cell count is computed "
                "exactly, the truncated quotient keeps a margin (1/4 cell in binary64, 1/16 cell in binary32) so 0 <= index < n, "
                "|p - centre(index)| <= r/2 + 8*eps*max(|lo|,|hi|,r) + 8*eps*r (eps = 2^-52 / 2^-23: the oracle's tolerance; in binary64 "
                "also <= r/2 + r/512), index(centre(k)) = k for every cell, consecutive centres are r apart within the same slack, "
                "first/last cells cover the bounds with no slack. The model instantiated at binary64/binary32 is run against "
                "GridIndexMapping<float|double,2|3> on inputs aimed at cell borders, with an exact-rational oracle of the property.",
        "note": "Trusted: Coq kernel, stdlib real axioms, Flocq (Raux, generic formats, error_N_FLT); clang's AST and the translator's reading "
                "of it (Eigen coefficient-wise operators / cast<> / floor / ceil / Constant per axis, Interval(lower, upper) accessors, "
                "float-to-size_t conversion = truncation, out-of-range table reads and conversions are UB and not modelled); the model "
                "is also still tied by the differential run; "
                "extraction; float dictionaries; harness; oracle; hardware float/double = Flocq rounding.",
        "technique": "Coq proof over R (floor/ceil/trunc arithmetic) + Flocq rounding-error proof in binary64 and binary32 + source-to-Gallina translation (symbolic execution of the clang AST) with tie lemmas at the real, binary64 and binary32 dictionaries + extracted-model correspondence in binary64/binary32",
    },
}
