"""C01 — ECEF <-> geodetic conversion is an accurate bijection near the Earth.
Oracle: 50-digit mpmath, written from the property statement (foot point on the ellipsoid by the
parametric-latitude construction + h * unit normal), not from the model."""
import math
from mpmath import mp, mpf
from vcommon import hexf, parse_num

mp.dps = 50
PI = mp.pi
DEG = PI / 180
LAT_MAX = float(mpf("89.9") * DEG)          # rounded down below
if mpf(LAT_MAX) > mpf("89.9") * DEG:
    LAT_MAX = math.nextafter(LAT_MAX, 0.0)
M_PI = math.pi
A0 = 6378137.0

ELLIPSOIDS = [
    ("GRS80", 6378137.0, 6356752.314),
    ("Clarke1880IGN", 6378249.2, 6356515.0),
    ("International1924", 6378388.0, 6356911.9461),
    ("sphere", 6378137.0, 6378137.0),
]


def rand_ellipsoid(rng):
    a = A0 * (1.0 + rng.uniform(-1e-3, 1e-3))
    f = rng.choice([0.0, 1.0 / 290.0, rng.uniform(0.0, 1.0 / 290.0), rng.uniform(0.0, 1.0 / 290.0)])
    return ("random", a, a * (1.0 - f))


def pick_ellipsoid(rng):
    return rng.choice(ELLIPSOIDS) if rng.random() < 0.6 else rand_ellipsoid(rng)


def pick_lat(rng):
    r = rng.random()
    if r < 0.12:
        return rng.choice([LAT_MAX, -LAT_MAX, 0.0, -0.0, math.radians(45), -math.radians(45)])
    if r < 0.24:   # close to the ends of the domain
        return rng.choice([1, -1]) * (LAT_MAX - abs(rng.gauss(0, 1)) * 10 ** rng.uniform(-9, -2)) if True else 0
    if r < 0.30:
        return rng.gauss(0, 1) * 10 ** rng.uniform(-12, -3)
    return rng.uniform(-LAT_MAX, LAT_MAX)


LON_SPECIAL = [0.0, -0.0, M_PI / 2, -M_PI / 2, M_PI, -M_PI, math.nextafter(M_PI, 0.0), math.nextafter(-M_PI, 0.0),
               math.nextafter(M_PI / 2, 0.0), math.nextafter(M_PI / 2, 4.0), 3 * M_PI / 4, -3 * M_PI / 4]


def pick_lon(rng):
    r = rng.random()
    if r < 0.35:
        return rng.choice(LON_SPECIAL)
    if r < 0.45:   # near the antimeridian
        return rng.choice([1, -1]) * (M_PI - abs(rng.gauss(0, 1)) * 10 ** rng.uniform(-15, -3))
    return rng.uniform(-M_PI, M_PI)


def pick_h(rng):
    r = rng.random()
    if r < 0.3:
        return rng.choice([-11000.0, 0.0, 100000.0, 365.0])
    return rng.uniform(-11000.0, 100000.0)


def clamp_lat(x):
    return max(-LAT_MAX, min(LAT_MAX, x))


# ------------------------------------------------------------------ specification (mpmath)
def spec_point(a, b, lat, lon, h):
    """foot point on the ellipsoid x^2/a^2+y^2/a^2+z^2/b^2 = 1 whose outward normal has geodetic latitude lat and
    longitude lon (parametric latitude beta: tan beta = (b/a) tan lat), plus h times the unit normal"""
    a, b, lat, lon, h = mpf(a), mpf(b), mpf(lat), mpf(lon), mpf(h)
    beta = mp.atan((b / a) * mp.tan(lat))
    foot = (a * mp.cos(beta) * mp.cos(lon), a * mp.cos(beta) * mp.sin(lon), b * mp.sin(beta))
    nrm = (mp.cos(lat) * mp.cos(lon), mp.cos(lat) * mp.sin(lon), mp.sin(lat))
    # self-check of the construction: the foot is on the ellipsoid and its gradient is parallel to nrm
    q = (foot[0] ** 2 + foot[1] ** 2) / a ** 2 + foot[2] ** 2 / b ** 2
    g = (foot[0] / a ** 2, foot[1] / a ** 2, foot[2] / b ** 2)
    cr = (g[1] * nrm[2] - g[2] * nrm[1], g[2] * nrm[0] - g[0] * nrm[2], g[0] * nrm[1] - g[1] * nrm[0])
    assert abs(q - 1) < mpf(10) ** -40 and max(abs(c) for c in cr) < mpf(10) ** -40
    return tuple(foot[i] + h * nrm[i] for i in range(3))


def dist3(p, q):
    return mp.sqrt(sum((mpf(p[i]) - mpf(q[i])) ** 2 for i in range(3)))


def ang_dist(x, y):
    d = abs(mpf(x) - mpf(y))
    return min(d, abs(2 * PI - d))


# ------------------------------------------------------------------ generators
def gen(rng, tier):
    big = tier == "thorough"
    nf, ni = (90000, 90000) if big else (5000, 5000)
    fwd, inv, rad = [], [], []
    # the witness of the defect first (ECEF (-5e6, 0, 3e6), GRS80) and its neighbours
    for (x, y, z) in [(-5e6, 0.0, 3e6), (-5e6, -0.0, 3e6), (-6378137.0, 0.0, 0.0), (-4e6, 0.0, -4.9e6), (5e6, 0.0, 3e6),
                      (0.0, 5e6, 3e6), (0.0, -5e6, 3e6), (-5e6, 5e-324, 3e6), (-5e6, -5e-324, 3e6), (-5e6, 1e-9, 3e6)]:
        inv.append("inv %s %s %s %s %s" % (hexf(6378137.0), hexf(6356752.314), hexf(x), hexf(y), hexf(z)))
    for _ in range(nf):
        _, a, b = pick_ellipsoid(rng)
        fwd.append("fwd %s %s %s %s %s" % (hexf(a), hexf(b), hexf(clamp_lat(pick_lat(rng))), hexf(pick_lon(rng)), hexf(pick_h(rng))))
    for _ in range(ni):
        _, a, b = pick_ellipsoid(rng)
        lat, h = clamp_lat(pick_lat(rng)), pick_h(rng)
        r = rng.random()
        # Cartesian inputs built from the specification; on the four principal meridians the vanishing coordinate is
        # made exactly zero (the antimeridian ray Y = 0, X < 0 included)
        if r < 0.2:
            lonx, fix = PI, "y"
        elif r < 0.3:
            lonx, fix = mpf(0), "y"
        elif r < 0.4:
            lonx, fix = rng.choice([PI / 2, -PI / 2]), "x"
        else:
            lonx, fix = mpf(pick_lon(rng)), None
        p = [float(c) for c in spec_point(a, b, lat, lonx, h)]
        if fix == "y":
            p[1] = rng.choice([0.0, -0.0])
        if fix == "x":
            p[0] = rng.choice([0.0, -0.0])
        inv.append("inv %s %s %s %s %s" % (hexf(a), hexf(b), hexf(p[0]), hexf(p[1]), hexf(p[2])))
    for _ in range(nf // 10):
        _, a, b = pick_ellipsoid(rng)
        rad.append("rad %s %s %s" % (hexf(a), hexf(b), hexf(clamp_lat(pick_lat(rng)))))
    return [("forward+back", fwd), ("cartesian", inv), ("radii", rad)]


# ------------------------------------------------------------------ oracle
TOL_M = mpf("1e-3")
TOL_RAD = mpf("1e-9")


def nums(out):
    return [parse_num(t) if t != "HANG" else None for t in out.split()]


def finite(x):
    return x is not None and x == x and not math.isinf(x)


def check_geodetic_result(lat, lon, h, fails, where):
    if not (finite(lat) and finite(lon) and finite(h)):
        fails.append(("c01-nonfinite", "%s: toWGS84 returned lat=%r lon=%r h=%r" % (where, lat, lon, h)))
        return False
    if not (-PI / 2 <= mpf(lat) <= PI / 2) or not (-PI <= mpf(lon) <= PI):
        fails.append(("c01-range", "%s: latitude %r / longitude %r outside [-pi/2,pi/2] x [-pi,pi]" % (where, lat, lon)))
        return False
    return True


def oracle(case, out):
    t = case.split()
    fails = []
    v = nums(out)
    if "HANG" in out:
        return [("c01-hang", "toWGS84 did not return within the time limit")]
    if t[0] == "fwd":
        a, b, lat, lon, h = [float.fromhex(x) for x in t[1:6]]
        if len(v) != 6:
            return [("c01-shape", "expected 6 numbers: %r" % out)]
        P = v[0:3]
        if not all(finite(x) for x in P):
            return [("c01-nonfinite", "toECEF returned %r" % (P,))]
        S = spec_point(a, b, lat, lon, h)
        d = dist3(P, S)
        if d > TOL_M:
            fails.append(("c01-forward-normal", "toECEF is %s m away from foot point + h*normal" % mp.nstr(d, 6)))
        if check_geodetic_result(v[3], v[4], v[5], fails, "geodetic->ECEF->geodetic"):
            dl, do, dh = abs(mpf(v[3]) - mpf(lat)), ang_dist(v[4], lon), abs(mpf(v[5]) - mpf(h))
            if dl > TOL_RAD or do > TOL_RAD or dh > TOL_M:
                fails.append(("c01-roundtrip-geodetic", "round trip error: dlat=%s rad dlon=%s rad dh=%s m"
                              % (mp.nstr(dl, 4), mp.nstr(do, 4), mp.nstr(dh, 4))))
    elif t[0] == "inv":
        a, b, X, Y, Z = [float.fromhex(x) for x in t[1:6]]
        if len(v) != 6:
            return [("c01-shape", "expected 6 numbers: %r" % out)]
        if check_geodetic_result(v[0], v[1], v[2], fails, "ECEF (%r,%r,%r)" % (X, Y, Z)):
            S = spec_point(a, b, v[0], v[1], v[2])
            d = dist3(S, (X, Y, Z))
            if d > TOL_M:
                fails.append(("c01-inverse-normal", "the geodetic result describes a point %s m away from the input" % mp.nstr(d, 6)))
            if not all(finite(x) for x in v[3:6]):
                fails.append(("c01-nonfinite", "toECEF(toWGS84(P)) = %r" % (v[3:6],)))
            else:
                d2 = dist3(v[3:6], (X, Y, Z))
                if d2 > TOL_M:
                    fails.append(("c01-roundtrip-cartesian", "ECEF->geodetic->ECEF moved the point by %s m" % mp.nstr(d2, 6)))
    elif t[0] == "rad":
        a, b, lat = [float.fromhex(x) for x in t[1:4]]
        if len(v) != 4 or not all(finite(x) for x in v):
            return [("c01-nonfinite", "radii %r" % out)]
        a_, b_, lat_ = mpf(a), mpf(b), mpf(lat)
        e2 = (a_ ** 2 - b_ ** 2) / a_ ** 2
        w = mp.sqrt(1 - e2 * mp.sin(lat_) ** 2)
        M, Nc = a_ * (1 - e2) / w ** 3, a_ * mp.cos(lat_) / w
        if abs(M - v[0]) > mpf("1e-6") or abs(Nc - v[1]) > mpf("1e-6") or abs(e2 - v[2]) > mpf("1e-15"):
            fails.append(("c01-radii", "meridional/transversal radius or e2 off: %r" % out))
    return fails


# ------------------------------------------------------------------ correspondence
def compare(case, il, ml):
    a, b = il.split(), ml.split()
    if len(a) != len(b):
        return "token count %d vs %d" % (len(a), len(b))
    kind = case.split()[0]
    # per token: (rtol, atol); metres: a few ulps relative + 1e-6 m; angles 1e-12 rad
    if kind == "fwd":
        tol = [(2e-15, 1e-9)] * 3 + [(0, 1e-12), (0, 1e-12), (0, 1e-6)]
    elif kind == "inv":
        tol = [(0, 1e-12), (0, 1e-12), (0, 1e-6)] + [(2e-15, 1e-6)] * 3
    else:
        tol = [(4e-15, 0)] * 4
    for i, (x, y) in enumerate(zip(a, b)):
        if x == y:
            continue
        fx, fy = parse_num(x), parse_num(y)
        if fx is None or fy is None:
            return "token %d: impl %r model %r" % (i, x, y)
        if fx != fx or fy != fy:
            if not (fx != fx and fy != fy):
                return "token %d: impl %r model %r" % (i, x, y)
            continue
        if abs(fx - fy) > tol[i][1] + tol[i][0] * max(abs(fx), abs(fy)):
            return "token %d: impl %r model %r (|diff|=%.3g)" % (i, x, y, abs(fx - fy))
    return None


def nontrivial(case, out):
    v = nums(out)
    return all(finite(x) for x in v) and case


CHECK = {
    "coq": "Properties_C01",
    "driver": "drv_C01",
    "harness": "C01.cpp",
    "repo_srcs": ["src/geodesy/ECEFConverter.cpp", "src/geodesy/EarthEllipsoid.cpp", "src/geodesy/GeodeticCoordinates.cpp",
                  "src/geodesy/WGS84Coordinates.cpp"],
    "gen": gen,
    "oracle": oracle,
    "compare": compare,
    "nontrivial": nontrivial,
    "rule": "geodetic inputs: latitude in [-89.9deg, 89.9deg] (ends, 0, values within 1e-9..1e-2 rad of the ends, tiny, uniform), "
            "longitude special values {0, +-pi/2, +-pi as doubles and their float neighbours, +-3pi/4}, near +-pi, uniform; height "
            "{-11 km, 0, 365 m, 100 km} or uniform; ellipsoids GRS80, Clarke 1880 IGN, International 1924, sphere, random a +-0.1% "
            "with f in [0,1/290]; Cartesian inputs built from the specification in 50-digit arithmetic and rounded, with Y = +-0 "
            "exactly on the prime meridian and the antimeridian ray and X = +-0 on the +-90deg meridians; non-trivial = all outputs finite",
    "trusted": ["translator translate/srcfuns.py (clang AST of pure leaf functions -> Gallina)", "hand-written model coq/GeodesyModel.v tied by differential execution (this run)",
                "translator translate/constants.py (EPSILON, initial delta, GRS80 axes, exponent 1.5)",
                "extraction (ExtrOcamlBasic), ocaml/numf.ml, ocaml/drv_C01.ml", "harness/C01.cpp, harness/geoA.hpp, mpmath oracle in checks/C01.py",
                "IEEE-754 rounding and libm are observed (correspondence + oracle), not proved"],
    "assumptions": ["theorems are over the reals (ROps instance); binary64 behaviour is observed on generated inputs",
                    "std::pow(x,2) is modelled as x*x"],
    "run_timeout": 900,
    "manifest": {
        "text": "SYNTACTIC TIE: toECEF and the whole of toWGS84 (latitude loop included, as a fuelled fix) are re-translated from the clang AST of the current source into Gallina terms on every run (translate/srcfuns.py -> coq/gen/SrcFunsC01.v) and proved equal, over the reals, to the model functions the theorems are about. Coq theorems over the reals about a model of EarthEllipsoid/ECEFConverter: toECEF is foot point on the ellipsoid plus "
                "h times the unit normal, the normal being parallel to the gradient of the ellipsoid's quadratic form; longitude "
                "recovered exactly by atan2 on (-pi,pi]; the true latitude is a fixed point of the iteration body and the loop started "
                "there stops at once. LATITUDE LOOP: the body g(lat) = atan((Z/norm)/(1 - a e2 cos lat/(norm W))) is differentiated "
                "(Coquelicot is_derive) wherever its denominator D is non-zero, |g'| <= e2 a/(sqrt(1-e2)(|p| - e2 a)) at every latitude, "
                "the interval between the geocentric latitude atan(Z/norm) and the pole is invariant, contains the first guess and the "
                "true latitude, has D in (0,1], and g is q-Lipschitz on it with q = 1.04 e2 <= 0.0104 (mean value theorem; for "
                "|lat| <= 89.4 deg the bound is global in the iterate). Consequences on the near-Earth domain 0 < a <= 7e6 m, "
                "0 <= e2 <= 1/100, -a/100 <= h <= 100 km, cos lat >= 1/600 (|lat| <= 89.904 deg; a superset of the property's domain): "
                "toWGS84(toECEF(lat,lon,h)) returns within 7 passes (the C++ loop has no cap; the model's None = more than fuel passes), "
                "longitude exact, |latitude error| <= q eps/(1-q) <= 1.1e-13 rad, |height error| <= 1 mm; and for an ARBITRARY Cartesian "
                "point with |p| >= 0.98 a and |Z| <= 600 norm, toECEF(toWGS84(p)) reproduces X, Y exactly and Z within 1 mm. All over the "
                "reals. Kept as _partial: the round trip on the wider domain 0 <= e2 < 1 and the abstract q-premise lemma. Result "
                "ranges; the pre-repair half-angle longitude is undefined exactly on the "
                "antimeridian ray. The model is tied to the source by running its binary64 instance against the compiled classes on "
                "generated inputs and an mpmath oracle checks 1 mm / 1e-9 rad on the implementation's outputs.",
        "note": "Trusted: Coq kernel, standard real-number axioms, hand-written model tied by differential execution only, extraction, "
                "float dictionary, harness, oracle. Convergence, termination and accuracy of the latitude iteration are proved over the "
                "reals on the near-Earth domain; float rounding, libm and termination of the binary64 loop are observed, not proved. "
                "On the polar axis (norm = 0) the code divides by zero; closer to the axis than a e2 (43 km) the loop body is "
                "discontinuous outside the invariant interval.",
        "technique": "Coq proof (real analysis: Coquelicot derivative + mean value theorem, field/nra) + extracted-model correspondence run + mpmath property oracle",
    },
}
