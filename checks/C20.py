"""C20 — bounding volumes, intervals and point-set extents enclose exactly what they should."""
from fractions import Fraction as Fr
import itertools
import math
import numpy as np
from vcommon import hexf

EPS = {"f64": 2.0 ** -52, "f32": 2.0 ** -23}


def rnd(x, ty):
    return float(np.float32(x)) if ty == "f32" else float(x)


def nxt(x, d, ty):
    if ty == "f32":
        return float(np.nextafter(np.float32(x), np.float32(d)))
    return math.nextafter(x, d)


def dy(rng, lo, hi, bits=3):
    """a dyadic rational k / 2^bits in [lo, hi] (exact in binary32 and binary64)"""
    s = 2 ** bits
    return rng.randint(int(lo * s), int(hi * s)) / s


def hv(v):
    return " ".join(hexf(x) for x in v)


# --------------------------------------------------------------------------------------------- generators
def coord_choices(rng, lo, hi, ty, exact):
    """one coordinate of a query point relative to the closed range [lo, hi]"""
    r = rng.random()
    d = 0.125 if exact else abs(rng.gauss(0, 1)) * (abs(hi - lo) + 1e-3)
    if r < 0.2:
        return lo
    if r < 0.4:
        return hi
    if r < 0.5:
        return rnd(lo - d, ty)
    if r < 0.6:
        return rnd(hi + d, ty)
    if r < 0.66:
        return nxt(lo, -math.inf, ty)
    if r < 0.72:
        return nxt(hi, math.inf, ty)
    if r < 0.76:
        return nxt(lo, math.inf, ty) if lo < hi else lo
    if r < 0.8:
        return nxt(hi, -math.inf, ty) if lo < hi else hi
    if exact:
        return dy(rng, lo, hi) if lo <= hi else lo
    return rnd(rng.uniform(lo, hi), ty)


def gen_aabb(rng, n_cases):
    out = []
    for _ in range(n_cases):
        ty = rng.choice(["f64", "f64", "f32"])
        n = rng.choice([2, 3])
        exact = rng.random() < 0.6
        if exact:
            lo = [dy(rng, -64, 64) for _ in range(n)]
            hi = [l + (0 if rng.random() < 0.2 else dy(rng, 0, 32, 2)) for l in lo]
        else:
            sc = 10 ** rng.randint(-3, 4)
            lo = [rnd(rng.uniform(-sc, sc), ty) for _ in range(n)]
            hi = [rnd(l + (0 if rng.random() < 0.15 else abs(rng.gauss(0, sc))), ty) for l in lo]
        k = rng.randint(3, 10)
        if rng.random() < 0.5:
            pts = [coord_choices(rng, lo[i], hi[i], ty, exact) for _ in range(k) for i in range(n)]
            out.append("aabbi %s %d %s %s %d %s" % (ty, n, hv(lo), hv(hi), k, hv(pts)))
        else:
            c = [rnd((a + b) / 2, ty) for a, b in zip(lo, hi)]
            h = [rnd((b - a) / 2, ty) for a, b in zip(lo, hi)]
            pts = [coord_choices(rng, rnd(c[i] - h[i], ty), rnd(c[i] + h[i], ty), ty, exact) for _ in range(k) for i in range(n)]
            out.append("aabbc %s %d %s %s %d %s" % (ty, n, hv(c), hv(h), k, hv(pts)))
    return out


def rot2(t):
    return [[math.cos(t), -math.sin(t)], [math.sin(t), math.cos(t)]]


def matmul(a, b):
    n = len(a)
    return [[sum(a[i][k] * b[k][j] for k in range(n)) for j in range(n)] for i in range(n)]


def rot3(ax, ay, az):
    cx, sx, cy, sy, cz, sz = math.cos(ax), math.sin(ax), math.cos(ay), math.sin(ay), math.cos(az), math.sin(az)
    rx = [[1, 0, 0], [0, cx, -sx], [0, sx, cx]]
    ry = [[cy, 0, sy], [0, 1, 0], [-sy, 0, cy]]
    rz = [[cz, -sz, 0], [sz, cz, 0], [0, 0, 1]]
    return matmul(rz, matmul(ry, rx))


def det(m):
    if len(m) == 2:
        return m[0][0] * m[1][1] - m[0][1] * m[1][0]
    return (m[0][0] * (m[1][1] * m[2][2] - m[1][2] * m[2][1]) - m[0][1] * (m[1][0] * m[2][2] - m[1][2] * m[2][0])
            + m[0][2] * (m[1][0] * m[2][1] - m[1][1] * m[2][0]))


def exact_rotation(rng, n):
    """a signed permutation matrix with determinant +1 (rotations by multiples of 90 degrees about the axes)"""
    while True:
        perm = list(range(n))
        rng.shuffle(perm)
        m = [[0.0] * n for _ in range(n)]
        for i, j in enumerate(perm):
            m[i][j] = rng.choice([1.0, -1.0])
        if det(m) > 0:
            return m


def gen_obb(rng, n_cases):
    out = []
    for _ in range(n_cases):
        ty = rng.choice(["f64", "f64", "f32"])
        n = rng.choice([2, 3])
        r = rng.random()
        exact = r < 0.45
        if r < 0.1:
            R = [[1.0 if i == j else 0.0 for j in range(n)] for i in range(n)]
        elif exact:
            R = exact_rotation(rng, n)
        elif n == 2:
            R = rot2(rng.uniform(-math.pi, math.pi))
        else:
            R = rot3(rng.uniform(-math.pi, math.pi), rng.uniform(-math.pi / 2, math.pi / 2), rng.uniform(-math.pi, math.pi))
        R = [[rnd(x, ty) for x in row] for row in R]
        if exact:
            c = [dy(rng, -32, 32) for _ in range(n)]
            h = [0.0 if rng.random() < 0.15 else dy(rng, 0, 16, 2) for _ in range(n)]
        else:
            sc = 10 ** rng.randint(-2, 3)
            c = [rnd(rng.uniform(-sc, sc), ty) for _ in range(n)]
            h = [0.0 if rng.random() < 0.1 else rnd(abs(rng.gauss(0, sc)), ty) for _ in range(n)]
        k = rng.randint(4, 10)
        pts = []
        for _ in range(k):
            # box-frame coordinates: on faces / edges / corners, just outside, inside, far away
            q = []
            for j in range(n):
                u = rng.random()
                if u < 0.35:
                    q.append(rng.choice([-1, 1]) * h[j])
                elif u < 0.5:
                    q.append(rng.choice([-1, 1]) * (h[j] + (0.125 if exact else abs(rng.gauss(0, 1e-3)) * (h[j] + 1e-3))))
                elif u < 0.9:
                    q.append(dy(rng, -h[j], h[j]) if exact else rng.uniform(-h[j], h[j]))
                else:
                    q.append(rng.uniform(-3, 3) * (h[j] + 1))
            p = [rnd(c[i] + sum(R[i][j] * q[j] for j in range(n)), ty) for i in range(n)]
            pts += p
        out.append("obb %s %d %s %s %s %d %s" % (ty, n, hv(c), hv(h), hv([x for row in R for x in row]), k, hv(pts)))
    return out


def gen_ival(rng, n_cases):
    out = []
    for _ in range(n_cases):
        ty = rng.choice(["f64", "f64", "f32"])
        n = rng.choice([1, 1, 2, 3])
        exact = rng.random() < 0.5
        lo1, hi1, lo2, hi2 = [], [], [], []
        for _ in range(n):
            if exact:
                a = dy(rng, -16, 16)
                b = a + dy(rng, 0, 8)
            else:
                a = rnd(rng.uniform(-100, 100), ty)
                b = rnd(a + abs(rng.gauss(0, 10)), ty)
            rel = rng.choice(["nested", "contains", "disjoint-right", "disjoint-left", "touch-right", "touch-left", "overlap", "same"])
            w = b - a
            if rel == "nested":
                c, d = a + w / 4, b - w / 4
            elif rel == "contains":
                c, d = a - 1 - w, b + 1 + w
            elif rel == "disjoint-right":
                c, d = b + 1, b + 2 + w
            elif rel == "disjoint-left":
                c, d = a - 2 - w, a - 1
            elif rel == "touch-right":
                c, d = b, b + 1 + w
            elif rel == "touch-left":
                c, d = a - 1 - w, a
            elif rel == "overlap":
                c, d = a + w / 2, b + w / 2 + 1
            else:
                c, d = a, b
            c, d = rnd(c, ty), rnd(d, ty)
            if c > d:
                c, d = d, c
            lo1.append(a), hi1.append(b), lo2.append(c), hi2.append(d)
        k = rng.randint(3, 8)
        vs = []
        for _ in range(k):
            for i in range(n):
                base = rng.choice([lo1[i], hi1[i], lo2[i], hi2[i]])
                u = rng.random()
                if u < 0.4:
                    vs.append(base)
                elif u < 0.55:
                    vs.append(nxt(base, math.inf, ty))
                elif u < 0.7:
                    vs.append(nxt(base, -math.inf, ty))
                else:
                    vs.append(rnd(rng.uniform(min(lo1[i], lo2[i]) - 1, max(hi1[i], hi2[i]) + 1), ty))
        out.append("ival %s %d %s %s %s %s %d %s" % (ty, n, hv(lo1), hv(hi1), hv(lo2), hv(hi2), k, hv(vs)))
    return out


def gen_points(rng, ty, n, big):
    """1..1000 points in a chosen octant pattern (per-axis sign constraint), several magnitudes"""
    u = rng.random()
    if u < 0.15:
        cnt = 1
    elif u < 0.5:
        cnt = rng.randint(2, 12)
    elif u < 0.9 or not big:
        cnt = rng.randint(13, 120)
    else:
        cnt = rng.randint(121, 1000)
    pattern = rng.choice(["neg", "neg", "pos", "mixed", "octant", "octant"])
    signs = {"neg": [-1] * n, "pos": [1] * n, "mixed": [0] * n}.get(pattern) or [rng.choice([-1, 1]) for _ in range(n)]
    exact = rng.random() < 0.4
    sc = 1.0 if exact else 10.0 ** rng.randint(-4, 5)
    flat = rng.randrange(n) if rng.random() < 0.15 else None      # one coordinate constant (planar / zero side)
    flat_val = rnd(rng.choice([0.0, -1.0, 2.5, -sc]), ty)
    same = rng.random() < 0.05
    pts = []
    for q in range(cnt):
        p = []
        for i in range(n):
            if flat == i:
                p.append(flat_val)
                continue
            m = dy(rng, 0.125, 64) if exact else rnd(abs(rng.gauss(0, sc)) + sc * 1e-3, ty)
            s = signs[i] or rng.choice([-1, 1])
            p.append(s * m)
        if same and pts:
            p = pts[0]
        pts.append(p)
    return pts


def gen_cont(rng, n_cases, big):
    out = []
    for _ in range(n_cases):
        ty = rng.choice(["f64", "f32"])
        n = rng.choice([2, 3, 3, 4])
        cont = rng.choice(["vec", "deq", "list"])
        pts = gen_points(rng, ty, n, big)
        kind = rng.choice(["cext", "cext", "cmean"])
        out.append("%s %s %s %d %d %s" % (kind, ty, cont, n, len(pts), hv([x for p in pts for x in p])))
    return out


def gen_pre(rng, n_cases, big):
    out = ["pre f64 c 2 2 " + hv([-3.0, -4.0, -1.0, -2.0]),      # witness of C20_preconditioner_max_minpos_refuted
           "pre f32 h 3 3 " + hv([-3.0, -4.0, -1.0, -1.0, -2.0, -5.0, -2.0, -8.0, -3.0])]
    for _ in range(n_cases):
        ty = rng.choice(["f64", "f32"])
        cdim = rng.choice([2, 3])
        pt = rng.choice(["c", "h"])
        pts = gen_points(rng, ty, cdim, big)
        out.append("pre %s %s %d %d %s" % (ty, pt, cdim, len(pts), hv([x for p in pts for x in p])))
    return out


# witnesses of the binary64 theorems C20_aabb_float_inside_implies_real_inside_binary64_refuted (centre -2^-54, half 1, point 1:
# isInside accepts a point outside the real box by 2^-54) and C20_aabb_interval_roundtrip_binary64_refuted ([2^-55, 1] comes back
# as [0, 1]), embedded in 2D; replayed on the implementation in every run (the model's verdict on them is the theorem)
FLOAT_WITNESSES = [
    "aabbc f64 2 %s %s 1 %s" % (hv([-2.0 ** -54, 0.0]), hv([1.0, 1.0]), hv([1.0, 0.0])),
    "aabbi f64 2 %s %s 1 %s" % (hv([2.0 ** -55, 0.0]), hv([1.0, 1.0]), hv([0.5, 0.5])),
]


def gen(rng, tier):
    big = tier == "thorough"
    m = 8 if big else 1
    return [("aabb", gen_aabb(rng, 1500 * m)), ("obb", gen_obb(rng, 1500 * m)), ("interval", gen_ival(rng, 1200 * m)),
            ("containers", gen_cont(rng, 500 * m, True)), ("preconditioner", gen_pre(rng, 700 * m, True)),
            ("float-witnesses", FLOAT_WITNESSES)]


# --------------------------------------------------------------------------------------------- parsing
def parse(case):
    t = case.split()
    kind, ty = t[0], t[1]
    d = {"kind": kind, "ty": ty}
    f = [None, None] + t[2:]

    def take(i, n):
        return [Fr(float.fromhex(x)) for x in t[i:i + n]], i + n
    if kind in ("aabbi", "aabbc"):
        n = int(t[2])
        a, i = take(3, n)
        b, i = take(i, n)
        k = int(t[i])
        pts, _ = take(i + 1, n * k)
        d.update(n=n, a=a, b=b, pts=[pts[q * n:(q + 1) * n] for q in range(k)])
    elif kind == "obb":
        n = int(t[2])
        c, i = take(3, n)
        h, i = take(i, n)
        r, i = take(i, n * n)
        k = int(t[i])
        pts, _ = take(i + 1, n * k)
        d.update(n=n, c=c, h=h, R=[r[q * n:(q + 1) * n] for q in range(n)], pts=[pts[q * n:(q + 1) * n] for q in range(k)])
    elif kind == "ival":
        n = int(t[2])
        lo1, i = take(3, n)
        hi1, i = take(i, n)
        lo2, i = take(i, n)
        hi2, i = take(i, n)
        k = int(t[i])
        vs, _ = take(i + 1, n * k)
        d.update(n=n, lo1=lo1, hi1=hi1, lo2=lo2, hi2=hi2, vs=[vs[q * n:(q + 1) * n] for q in range(k)])
    elif kind in ("cext", "cmean"):
        n, cnt = int(t[3]), int(t[4])
        pts, _ = take(5, n * cnt)
        d.update(n=n, pts=[pts[q * n:(q + 1) * n] for q in range(cnt)])
    elif kind == "pre":
        cd, cnt = int(t[3]), int(t[4])
        pts, _ = take(5, cd * cnt)
        pts = [pts[q * cd:(q + 1) * cd] for q in range(cnt)]
        if t[2] == "h":
            pts = [p + [Fr(1)] for p in pts]
        d.update(cdim=cd, n=cd + (1 if t[2] == "h" else 0), pts=pts)
    return d


def outnums(out):
    res = []
    for x in out.split():
        if x in ("nan", "-nan"):
            res.append(None)
        elif x in ("inf", "-inf"):
            res.append(float(x))
        else:
            res.append(Fr(float.fromhex(x)) if "x" in x else Fr(int(x)))
    return res


def maxabs(*vs):
    m = Fr(0)
    for v in vs:
        for x in v:
            if isinstance(x, Fr):
                m = max(m, abs(x))
    return m


def representable(x, ty):
    f = float(x)
    if ty == "f32":
        f = float(np.float32(f))
    return Fr(f) == x


def obb_exact(d, p, ty):
    """the box-frame coordinates are computed without rounding: signed-permutation rotation and p - c representable"""
    n = d["n"]
    R = d["R"]
    if any(x not in (0, 1, -1) for row in R for x in row):
        return False
    if any(sum(1 for i in range(n) if R[i][j] != 0) > 1 for j in range(n)):
        return False
    return all(representable(p[i] - d["c"][i], ty) for i in range(n))


def aabb_firm(ac, ah, p, ty, band):
    """the derived box's own verdict on p is not inside a rounding band"""
    return all(representable(p[i] - ac[i], ty) or abs(ah[i] - abs(p[i] - ac[i])) > band for i in range(len(p)))


def obb_margin(d, p):
    """exact smallest |h_j - |(R^T (p - c))_j|| and the exact verdict, from the case's inputs"""
    n = d["n"]
    q = [sum(d["R"][i][j] * (p[i] - d["c"][i]) for i in range(n)) for j in range(n)]
    ms = [d["h"][j] - abs(q[j]) for j in range(n)]
    return all(m >= 0 for m in ms), min(abs(m) for m in ms)


# --------------------------------------------------------------------------------------------- oracle
def oracle(case, out):
    d = parse(case)
    kind, ty = d["kind"], d["ty"]
    eps = Fr(EPS[ty])
    o = outnums(out)
    fails = []
    if any(x is None for x in o) and kind != "pre":
        return [("c20-nan", "NaN in the output %r" % out)]
    if kind in ("aabbi", "aabbc"):
        n = d["n"]
        if kind == "aabbi":
            c, h, lo, hi, bits = o[:n], o[n:2 * n], o[2 * n:3 * n], o[3 * n:4 * n], o[4 * n:]
            tol = 4 * eps * maxabs(d["a"], d["b"])
            for i in range(n):   # the box built from an interval reproduces that interval
                if abs(lo[i] - d["a"][i]) > tol or abs(hi[i] - d["b"][i]) > tol:
                    fails.append(("c20-aabb-roundtrip", "axis %d: interval [%s,%s] came back as [%s,%s]"
                                  % (i, float(d["a"][i]), float(d["b"][i]), float(lo[i]), float(hi[i]))))
        else:
            c, h = d["a"], d["b"]
            lo, hi, bits = o[:n], o[n:2 * n], o[2 * n:]
            tol = 2 * eps * maxabs(c, h)
            for i in range(n):
                if abs(lo[i] - (c[i] - h[i])) > tol or abs(hi[i] - (c[i] + h[i])) > tol:
                    fails.append(("c20-aabb-tointerval", "axis %d: [%s,%s] is not centre -+ half-extent" % (i, float(lo[i]), float(hi[i]))))
        for p, b in zip(d["pts"], bits):      # contains p exactly when every coordinate is within centre +- half-extent
            ms = [h[i] - abs(p[i] - c[i]) for i in range(n)]
            band = 2 * eps * maxabs(p, c, h)
            # an axis decides when p - c is exactly representable (then the comparison is exact) or the margin exceeds the rounding band
            firm = [representable(p[i] - c[i], ty) or abs(ms[i]) > band for i in range(n)]
            if all(m >= 0 for m in ms) and all(firm):
                expect = 1
            elif any(ms[i] < 0 and firm[i] for i in range(n)):
                expect = 0
            else:
                expect = None
            if expect is not None and int(b) != expect:
                fails.append(("c20-aabb-inside", "point %s centre %s half %s: isInside=%s, expected %s"
                              % ([float(x) for x in p], [float(x) for x in c], [float(x) for x in h], b, expect)))
    elif kind == "obb":
        n = d["n"]
        ac, ah, bits = o[:n], o[n:2 * n], o[2 * n:]
        sc = maxabs(d["c"], d["h"]) + Fr(1, 2 ** 60)
        band = 16 * eps * (sc + maxabs(*d["pts"]))
        for q, p in enumerate(d["pts"]):
            bo, ba = int(bits[2 * q]), int(bits[2 * q + 1])
            exact, margin = obb_margin(d, p)
            if bo != int(exact) and (margin > band or obb_exact(d, p, ty)):
                fails.append(("c20-obb-inside", "point %s: isInside=%d but in the box frame it is %s (margin %g)"
                              % ([float(x) for x in p], bo, "inside" if exact else "outside", float(margin))))
            if exact and (margin > band or obb_exact(d, p, ty)) and not ba and aabb_firm(ac, ah, p, ty, band):
                fails.append(("c20-obb-aabb-encloses", "point %s is in the oriented box but not in its axis-aligned box" % [float(x) for x in p]))
        # enclosing and tight: every corner inside, every face touched by a corner
        corners = []
        for sg in itertools.product([-1, 1], repeat=n):
            corners.append([d["c"][i] + sum(d["R"][i][j] * sg[j] * d["h"][j] for j in range(n)) for i in range(n)])
        tol = 16 * eps * (sc + maxabs(*corners))
        for i in range(n):
            if ac[i] != d["c"][i]:
                fails.append(("c20-obb-aabb-centre", "axis %d: centre %s != %s" % (i, float(ac[i]), float(d["c"][i]))))
            hi_c = max(cn[i] for cn in corners)
            lo_c = min(cn[i] for cn in corners)
            if hi_c > ac[i] + ah[i] + tol or lo_c < ac[i] - ah[i] - tol:
                fails.append(("c20-obb-aabb-encloses", "axis %d: a corner reaches [%s,%s], box is %s +- %s"
                              % (i, float(lo_c), float(hi_c), float(ac[i]), float(ah[i]))))
            if hi_c < ac[i] + ah[i] - tol or lo_c > ac[i] - ah[i] + tol:
                fails.append(("c20-obb-aabb-tight", "axis %d: no corner touches the face: corners span [%s,%s], box is %s +- %s"
                              % (i, float(lo_c), float(hi_c), float(ac[i]), float(ah[i]))))
    elif kind == "ival":
        n = d["n"]
        lo, hi, bits = o[:n], o[n:2 * n], o[2 * n:]
        for i in range(n):     # union = componentwise hull (a selection: exact)
            if lo[i] != min(d["lo1"][i], d["lo2"][i]) or hi[i] != max(d["hi1"][i], d["hi2"][i]):
                fails.append(("c20-interval-hull", "axis %d: union [%s,%s] of [%s,%s] and [%s,%s]" % (
                    i, float(lo[i]), float(hi[i]), float(d["lo1"][i]), float(d["hi1"][i]), float(d["lo2"][i]), float(d["hi2"][i]))))
        for q, v in enumerate(d["vs"]):
            b1, bu = int(bits[2 * q]), int(bits[2 * q + 1])
            e1 = all(d["lo1"][i] <= v[i] <= d["hi1"][i] for i in range(n))
            eu = all(min(d["lo1"][i], d["lo2"][i]) <= v[i] <= max(d["hi1"][i], d["hi2"][i]) for i in range(n))
            if b1 != int(e1) or bu != int(eu):
                fails.append(("c20-interval-inside", "value %s: inside=%d/%d expected %d/%d" % ([float(x) for x in v], b1, bu, e1, eu)))
    elif kind in ("cext", "cmean", "pre"):
        n, pts = d["n"], d["pts"]
        cnt = len(pts)
        tmin = [min(p[i] for p in pts) for i in range(n)]
        tmax = [max(p[i] for p in pts) for i in range(n)]
        tmean = [sum(p[i] for p in pts) / cnt for i in range(n)]
        sumabs = [sum(abs(p[i]) for p in pts) / cnt for i in range(n)]
        mtol = [(cnt + 4) * eps * sumabs[i] for i in range(n)]      # sequential float summation bound
        if kind == "cmean":
            omean = o[:n]
        else:
            omin, omax, omean = o[:n], o[n:2 * n], o[2 * n:3 * n]
            for i in range(n):
                if omin[i] != tmin[i]:
                    fails.append(("c20-%s-min" % kind, "coordinate %d: reported minimum %s, true %s" % (i, float(omin[i]), float(tmin[i]))))
                if omax[i] != tmax[i]:
                    fails.append(("c20-%s-max" % kind, "coordinate %d: reported maximum %s, true %s" % (i, float(omax[i]), float(tmax[i]))))
        for i in range(n):
            if omean[i] is None or abs(omean[i] - tmean[i]) > mtol[i]:
                fails.append(("c20-%s-mean" % kind, "coordinate %d: reported mean %s, true %s" % (i, omean[i] and float(omean[i]), float(tmean[i]))))
        if kind == "pre":
            scale, tr = o[3 * n], o[3 * n + 1:]
            side = max(tmax[i] - tmin[i] for i in range(n))
            if side == 0:
                if scale != float("inf"):
                    fails.append(("c20-pre-scale", "largest side is 0 (reciprocal undefined; IEEE gives inf) but scale=%s" % scale))
            else:
                if not isinstance(scale, Fr) or abs(scale - 1 / side) > 4 * eps / side:
                    fails.append(("c20-pre-scale", "scale %s is not 1/largest side = %s" % (scale if not isinstance(scale, Fr) else float(scale), float(1 / side))))
                else:
                    for i in range(d["cdim"]):
                        if tr[i] is None or abs(tr[i] + tmean[i] / side) > (mtol[i] + 8 * eps * abs(tmean[i])) / side:
                            fails.append(("c20-pre-translation", "translation %d: %s expected %s" % (i, tr[i] and float(tr[i]), float(-tmean[i] / side))))
    return fails


# --------------------------------------------------------------------------------------------- comparison impl vs model
def compare(case, il, ml):
    a, b = il.split(), ml.split()
    if len(a) != len(b):
        return "token count %d vs %d" % (len(a), len(b))
    t = case.split()
    kind, ty = t[0], t[1]
    if a == b:
        return None
    d = parse(case)
    eps = EPS[ty]
    nbits = 0
    if kind in ("aabbi", "aabbc"):
        nbits = len(d["pts"])
    elif kind in ("obb", "ival"):
        nbits = 2 * len(d.get("pts", d.get("vs", [])))
    nnum = len(a) - nbits
    sc = float(maxabs(*[v for v in d.values() if isinstance(v, list) and v and isinstance(v[0], Fr)]
                      + [x for v in d.values() if isinstance(v, list) and v and isinstance(v[0], list) for x in v]))
    for i in range(nnum):
        if a[i] == b[i]:
            continue
        if a[i] in ("nan", "-nan", "inf", "-inf") or b[i] in ("nan", "-nan", "inf", "-inf"):
            if a[i].lstrip("-") == "nan" and b[i].lstrip("-") == "nan":
                continue
            return "token %d: impl %s model %s" % (i, a[i], b[i])
        x, y = float.fromhex(a[i]), float.fromhex(b[i])
        if abs(x - y) > 8 * eps * max(abs(x), abs(y)) + (8 * eps * sc if kind == "obb" else 0.0):
            return "token %d: impl %s model %s (|diff|=%.3g)" % (i, a[i], b[i], abs(x - y))
    for q in range(nbits):
        if a[nnum + q] != b[nnum + q]:
            if kind == "obb":      # the dot product may be summed in another order: accept inside the rounding band only
                p = d["pts"][q // 2]
                _, margin = obb_margin(d, p)
                if margin <= 16 * Fr(eps) * (Fr(sc) + maxabs(p)) and not obb_exact(d, p, ty):
                    continue
            return "verdict %d: impl %s model %s" % (q, a[nnum + q], b[nnum + q])
    return None


def nontrivial(case, out):
    t = case.split()
    if t[0] in ("aabbi", "aabbc", "obb", "ival"):
        bits = []
        for x in reversed(out.split()):      # verdict bits are the trailing 0/1 tokens (numbers are hex floats)
            if x not in ("0", "1"):
                break
            bits.append(x)
        return len(set(bits)) == 2 and case
    return int(t[4]) >= 2 and case


CHECK = {
    "coq": "Properties_C20",
    "driver": "drv_C20",
    "harness": "C20.cpp",
    "repo_srcs": ["src/containers/boundingbox/AxisAlignedBoundingBox.cpp", "src/containers/boundingbox/OrientedBoundingBox.cpp",
                  "src/pointset/algorithms/PointSetPreconditioner.cpp"],
    "gen": gen,
    "oracle": oracle,
    "compare": compare,
    "nontrivial": nontrivial,
    "rule": "boxes from intervals / centre+half-extent (zero extents included) with query points on faces, edges, corners, +-1 ulp "
            "and +-1/8 (dyadic data: the closed/open distinction is exact); oriented boxes with exact (signed-permutation) and "
            "general proper rotations, 2D and 3D; interval pairs nested/disjoint/touching/overlapping in 1D, 2D, 3D; point sets of "
            "1..1000 points in every octant pattern including all-negative and planar sets, float and double, vector/deque/list "
            "containers, Cartesian and homogeneous point types; the two witnesses of the binary64 _refuted theorems.  Non-trivial = a box/interval case showing both verdicts, a set of >= 2 points",
    "trusted": ["translate/tr_C20_boxes.py (clang JSON AST of the instantiated templates -> gen/SrcBoxes.v; per-axis scalar reading of Eigen "
                "fixed-size expressions, matrix-product component = left-to-right sum of products, maxCoeff = left fold of std::max); "
                "the tie lemmas coq/SrcTieC20.v are proved, not trusted",
                "the differential run still covers what the translator does not: float (binary32) and homogeneous-point instantiations, "
                "the EigenContainers min/max/mean helpers, Interval<Scalar,1>, and Eigen's actual evaluation order",
                "extraction (ExtrOcamlBasic), ocaml/numf.ml, ocaml/drv_C20.ml", "harness/C20.cpp, python oracle in checks/C20.py",
                "Flocq's formalisation of IEEE-754 rounding (binary64/binary32 without overflow) for the *_binary64/32 theorems"],
    "manifest": {
        "text": "SYNTACTIC TIE: on every run translate/tr_C20_boxes.py regenerates Gallina terms (coq/gen/SrcBoxes.v) from the clang JSON AST "
                "of the class templates instantiated at double, DIM = 2 and 3 - AxisAlignedBoundingBox (both constructors, isInside, "
                "toInterval, getters), OrientedBoundingBox (constructor, getters, isInside in the box frame, the per-column |R(i,k)|*half(k) "
                "accumulation loop of toAxisAlignedBoundingBox unrolled), Interval<double,2|3> (constructor, lower, upper, width, center, "
                "include, inside) and PointSetPreconditioner<Vector2d|Vector3d>::compute (the loop over the points as one fold over the "
                "list: running min / max / sum from numeric_limits max() / lowest() / 0, mean, scale = 1/maxCoeff(max-min), translation) - "
                "and coq/SrcTieC20.v proves the generated terms EQUAL to the BoxModel.v functions the theorems are about, for every numeric "
                "dictionary satisfying five literal laws (reals, rounded binary64, rounded binary32): theorems C20_source_tie_* (9), plus "
                "end-to-end statements about the generated terms themselves (closed-box containment; the preconditioner reports the true "
                "extrema and centroid whatever its members held before). Theorems over the reals about that model (interval<->box round "
                "trip, closed containment iff, OBB containment = rigid image, OBB->AABB encloses and is tight, hull, extents / centroid / "
                "scale of every non-empty set; the pre-fix code refuted). FLOATING-POINT theorems (Flocq, binary64 and binary32, "
                "C20_*_binary64/32): running min/max and the preconditioner extents are exact for every non-empty finite point list; "
                "isInside <-> |rnd(p-c)| <= h, real-inside => float-inside with no margin, float-inside => real-inside within ulp(h)/2 (and a "
                "witness that the margin is needed), exact when p-c is representable (Sterbenz); the interval form is exact; interval->box->"
                "interval error <= 6*2^-53*max(|lo|,|hi|) + 5*2^-1075 for all bounds, exact on representable data, and NOT the identity in "
                "general ([2^-55,1] comes back as [0,1]). The model's float instances are also executed against the real classes on "
                "generated cases, and the property's own statement is evaluated in exact rational arithmetic on the implementation's outputs.",
        "note": "Trusted: Coq kernel; real-number axioms of the standard library; the translator's reading of Eigen fixed-size expressions "
                "(coefficient-wise operators, matrix product as sum of products, reductions as folds over the axes, numeric_limits as the "
                "dictionary constants) and clang; Flocq's rounding model without overflow; extraction; float dictionary; harness and oracle. "
                "Tied syntactically at double, DIM 2/3 only: the float, homogeneous-point, Interval<Scalar,1> instantiations and the "
                "EigenContainers min/max/mean helpers are tied by differential execution only (same template text for the former). "
                "The tie is robust to renaming, hoisting, statement reordering, commuting + and *, flipped comparisons, cwiseAbs/range-for "
                "spellings; a re-association is refused (it is not an identity in floating point) and reported without a failing input. "
                "Rounding inside Eigen's OBB product is observed, not proved: inside a few ulps of an OBB face either verdict is accepted. "
                "min/max of EigenContainers.hpp only instantiate for Eigen::Array element types; they are exercised with Array types.",
        "technique": "Coq proof (induction over point lists, real arithmetic, Flocq rounding analysis) + source-to-Gallina translator from "
                     "the clang AST with proved tie lemmas + extracted-model correspondence run + exact-rational property oracle",
    },
    "coverage_extra": lambda: {"notes": [
        "romea::core::min / max (EigenContainers.hpp) call .min(point) / .max(point) on the element type: they do not compile for "
        "containers of Eigen::Matrix points (Vector2d, ...), only for Eigen::Array element types; exercised with Array<Scalar,2|3|4,1> in "
        "vector/deque/list containers (case kind cext); mean is exercised with Matrix and Array element types (cmean, cext)",
        "their initial values are max() and -max(): the smallest-positive mistake of the preconditioner is not present there",
        "a point set whose largest side is 0 (one point, identical points) has no reciprocal: the code returns +inf, accepted by the oracle"]},
    "assumptions": ["finite inputs (no NaN/Inf); |coordinates| <= numeric_limits::max()",
                    "for a set whose largest side is 0 the reciprocal is undefined: the code returns +inf (IEEE 1/0), accepted",
                    "Eigen evaluates fixed-size coefficient-wise expressions as the scalar definitions"],
}
