"""C04 — rigid registration from correspondences (closed form, SVD) returns the proper rigid motion."""
import math
import os
import numpy as np
from vcommon import hexf, parse_num

EPS = {"f64": 2.0 ** -52, "f32": 2.0 ** -23}
BASE = {"f64": 1e-9, "f32": 1e-4}
STATS = {"max_contract_residual": 0.0, "not_converged": 0, "compared": 0, "oracle_only_rank_deficient": 0, "coplanar_cases": 0}
FIXED_MODEL = os.environ.get("C04_NO_DET_FIX", "0") != "1"


def rnd(x, ty):
    return float(np.float32(x)) if ty == "f32" else float(x)


# ------------------------------------------------------------------------------------------ generators
def rand_rotation(rng, nprng, d):
    kind = rng.random()
    if kind < 0.08:
        ang = 0.0
    elif kind < 0.16:
        ang = math.pi
    elif kind < 0.24:
        ang = math.pi - 10 ** rng.uniform(-9, -3)
    elif kind < 0.32:
        ang = 10 ** rng.uniform(-6, -2)
    else:
        ang = rng.uniform(0, math.pi)
    if d == 2:
        if rng.random() < 0.5:
            ang = -ang
        c, s = math.cos(ang), math.sin(ang)
        return np.array([[c, -s], [s, c]]), ang
    ax = nprng.standard_normal(3)
    if rng.random() < 0.2:
        ax = np.eye(3)[rng.randint(0, 2)]
    ax = ax / np.linalg.norm(ax)
    K = np.array([[0, -ax[2], ax[1]], [ax[2], 0, -ax[0]], [-ax[1], ax[0], 0]])
    return np.eye(3) + math.sin(ang) * K + (1 - math.cos(ang)) * (K @ K), ang


def rand_points(rng, nprng, d, n, shape):
    if shape == "generic":
        P = nprng.standard_normal((n, d)) * 10 ** rng.uniform(-1, 2)
    elif shape == "coplanar":          # 3D points in a random plane (2D: generic)
        if d == 3:
            B = np.linalg.qr(nprng.standard_normal((3, 3)))[0][:, :2]
            P = nprng.standard_normal((n, 2)) @ B.T * 10 ** rng.uniform(-1, 2)
            if rng.random() < 0.4:     # axis-aligned plane: exactly representable coplanarity
                P = np.zeros((n, 3))
                ax = rng.sample(range(3), 2)
                P[:, ax] = nprng.standard_normal((n, 2)) * 10 ** rng.uniform(-1, 2)
        else:
            P = nprng.standard_normal((n, d))
    elif shape == "nearly-coplanar":
        P = nprng.standard_normal((n, d)) * 10.0
        P[:, d - 1] *= 10 ** rng.uniform(-7, -2)
        Q = np.linalg.qr(nprng.standard_normal((d, d)))[0]
        P = P @ Q.T
    elif shape == "far-cluster":       # one cluster whose distance from the origin dwarfs its extent (map coordinates)
        P = nprng.standard_normal((n, d)) * rng.uniform(0.2, 2.0)
        P = P + nprng.standard_normal(d) * 10 ** rng.uniform(1.0, 4.0)
        return P
    else:                              # clustered: a few tight clusters away from the origin
        k = rng.randint(3, 5)
        centres = nprng.standard_normal((k, d)) * 50
        P = centres[nprng.integers(0, k, n)] + nprng.standard_normal((n, d)) * 10 ** rng.uniform(-3, -1)
        P[:min(k, n)] = centres[:min(k, n)]
    if rng.random() < 0.5:
        P = P + nprng.standard_normal(d) * 10 ** rng.uniform(0, 2.5)
    return P


def fmt_case(ty, d, hom, mode, pre, S, Tg, corr):
    toks = ["kab", ty, str(d), "1" if hom else "0", mode, "-" if pre is None else hexf(rnd(pre, ty))]
    toks += [str(len(S))] + [hexf(rnd(v, ty)) for v in S.flatten()]
    toks += [str(len(Tg))] + [hexf(rnd(v, ty)) for v in Tg.flatten()]
    if mode == "c":
        toks += [str(len(corr))] + [str(v) for c in corr for v in c]
    return " ".join(toks)


def gen_cases(rng, nprng, count, maxn, noisy):
    cases = []
    for _ in range(count):
        d = rng.choice([2, 3, 3])
        shape = rng.choice(["generic", "coplanar", "coplanar", "nearly-coplanar", "clustered", "far-cluster"])
        n = rng.choice([3, 3, 4, 5, rng.randint(3, maxn), rng.randint(3, maxn)])
        S = rand_points(rng, nprng, d, n, shape)
        R, ang = rand_rotation(rng, nprng, d)
        tau = nprng.standard_normal(d) * 10 ** rng.uniform(-1, 2)
        base_ty = rng.choice(["f64", "f64", "f32"])
        # round the source first so that the target is R*source+tau of the *given* source, rounded once
        S = np.array([[rnd(v, base_ty) for v in p] for p in S])
        Tg = S @ R.T + tau
        if noisy:
            Tg = Tg + nprng.standard_normal(Tg.shape) * 10 ** rng.uniform(-6, -1) * (np.abs(S).max() + 1e-3)
        # correspondence structure
        variants = []
        perm = list(range(n)); rng.shuffle(perm)
        # target stored in permuted order + extra unmatched points on both sides
        extra_s = nprng.standard_normal((rng.randint(0, 3), d)) * 5
        extra_t = nprng.standard_normal((rng.randint(0, 3), d)) * 5
        S2 = np.vstack([S, extra_s]) if len(extra_s) else S
        T2 = np.vstack([Tg[np.argsort(perm)], extra_t]) if len(extra_t) else Tg[np.argsort(perm)]
        # source i  <->  target position p where argsort(perm)[p] = i  i.e. p = perm[i]
        corr = [(i, perm[i]) for i in range(n)]
        rng.shuffle(corr)
        which = rng.sample(["a", "c-id", "c-perm", "c-perm2"], rng.choice([1, 2, 3]))
        for w in which:
            hom = rng.random() < 0.5
            ty = base_ty if rng.random() < 0.8 else "f32"
            pre = None if rng.random() < 0.5 else 10 ** rng.uniform(-3, 3)
            if w == "a":
                variants.append(fmt_case(ty, d, hom, "a", pre, S, Tg, None))
            elif w == "c-id":
                variants.append(fmt_case(ty, d, hom, "c", pre, S, Tg, [(i, i) for i in range(n)]))
            elif w == "c-perm":
                variants.append(fmt_case(ty, d, hom, "c", pre, S2, T2, corr))
            else:
                c2 = list(corr); rng.shuffle(c2)
                variants.append(fmt_case(ty, d, hom, "c", pre, S2, T2, c2))
        cases += variants
    return cases


def gen_witness():
    """the witness of kabsch_coplanar_refuted: unit square in the plane z = 0, identity motion and a half turn"""
    sq = np.array([[1, 0, 0], [0, 1, 0], [-1, 0, 0], [0, -1, 0.0]])
    out = []
    for R in (np.eye(3), np.diag([-1.0, -1.0, 1.0]), np.diag([1.0, -1.0, -1.0])):
        out.append(fmt_case("f64", 3, False, "a", None, sq, sq @ R.T, None))
        out.append(fmt_case("f32", 3, True, "a", None, sq, sq @ R.T, None))
    return out


def gen_malformed(rng, nprng, count):
    cases = []
    for _ in range(count):
        d = rng.choice([2, 3])
        S = nprng.standard_normal((rng.randint(3, 6), d))
        Tg = nprng.standard_normal((rng.randint(3, 6), d))
        if rng.random() < 0.5:
            cases.append(fmt_case("f64", d, rng.random() < 0.5, "a", None, S, Tg, None))    # sizes may differ -> undef
        else:
            corr = [(rng.randint(0, len(S) + 1), rng.randint(0, len(Tg) + 1)) for _ in range(4)]
            cases.append(fmt_case("f64", d, rng.random() < 0.5, "c", None, S, Tg, corr))   # indices may be out of range
    return cases


def gen(rng, tier):
    nprng = np.random.default_rng(rng.getrandbits(32))
    big = tier == "thorough"
    return [("witness", gen_witness()),
            ("exact-motions", gen_cases(rng, nprng, 2500 if big else 350, 60, False)),
            ("noisy", gen_cases(rng, nprng, 1500 if big else 200, 60, True)),
            ("large", gen_cases(rng, nprng, 60 if big else 8, 500, False)),
            ("malformed", gen_malformed(rng, nprng, 100 if big else 30))]


# ------------------------------------------------------------------------------------------ reading a case
def parse_case(case):
    t = case.split()
    ty, d, hom, mode, pre = t[1], int(t[2]), t[3] == "1", t[4], t[5]
    p = 6

    def pts():
        nonlocal p
        n = int(t[p]); p += 1
        a = np.array([float.fromhex(v) for v in t[p:p + n * d]]).reshape(n, d); p += n * d
        return a
    S, Tg = pts(), pts()
    corr = None
    if mode == "c":
        n = int(t[p]); p += 1
        corr = [(int(t[p + 2 * i]), int(t[p + 2 * i + 1])) for i in range(n)]
    return ty, d, hom, mode, (None if pre == "-" else float.fromhex(pre)), S, Tg, corr


def paired(case):
    ty, d, hom, mode, pre, S, Tg, corr = parse_case(case)
    if mode == "a":
        if len(S) != len(Tg):
            return ty, d, None, None
        return ty, d, S, Tg
    if any(a >= len(S) or b >= len(Tg) for a, b in corr):
        return ty, d, None, None
    return ty, d, S[[a for a, _ in corr]], Tg[[b for _, b in corr]]


def reference(Sp, Tp):
    """independent Kabsch/Umeyama solution in binary64 (numpy LAPACK SVD)"""
    d = Sp.shape[1]
    sm, tm = Sp.mean(0), Tp.mean(0)
    C = (Sp - sm).T @ (Tp - tm)
    U, s, Vt = np.linalg.svd(C)
    V = Vt.T
    D = np.eye(d)
    D[-1, -1] = 1.0 if np.linalg.det(V @ U.T) > 0 else -1.0
    R = V @ D @ U.T
    return R, tm - R @ sm, s, sm, tm


def geometry(Sp, Tp, ty, s):
    """tolerance on R (absolute, entries of a rotation are O(1)) and a length scale for t"""
    d = Sp.shape[1]
    sm = Sp.mean(0)
    spread = math.sqrt(((Sp - sm) ** 2).sum() / len(Sp))
    off = max(np.abs(Sp).max(), np.abs(Tp).max())
    if spread == 0 or s[0] == 0:
        return None
    kappa = s[0] / (s[d - 2] + s[d - 1]) if (s[d - 2] + s[d - 1]) > 0 else float("inf")
    lever = 1.0 + off / spread
    # a centred (two-pass) covariance loses eps*offset/spread in the subtraction of the mean: the admissible error is
    # LINEAR in the lever; a quadratic allowance would hide a single-pass (sum - N*mean*mean) covariance
    tol = max(BASE[ty], 200 * EPS[ty] * kappa * lever)
    return tol, spread, off, kappa


def num_rank(s, ty, g):
    """numerical rank of the cross covariance at the precision of the point type"""
    if s[0] <= 0 or g is None:
        return 0
    lever = 1.0 + g[2] / g[1]
    return int((s > max(1e-6, 200 * EPS[ty] * lever) * s[0]).sum())


# ------------------------------------------------------------------------------------------ oracle
def oracle(case, out):
    ty, d, Sp, Tp = paired(case)
    if Sp is None:
        return [] if out.strip() == "undef" else [("c04-shape", "malformed input must not produce a transform: %s" % out[:60])]
    vals = [parse_num(v) for v in out.split()]
    if len(vals) != (d + 1) ** 2 or any(v is None for v in vals):
        return [("c04-shape", "expected %d numbers, got %r" % ((d + 1) ** 2, out[:80]))]
    H = np.array(vals).reshape(d + 1, d + 1)
    fails = []
    R, t = H[:d, :d], H[:d, d]
    Rref, tref, s, sm, tm = reference(Sp, Tp)
    g = geometry(Sp, Tp, ty, s)
    rank = num_rank(s, ty, g)
    if rank < d:
        STATS["coplanar_cases"] += 1
    if not np.all(np.isfinite(H)):
        return [("c04-nonfinite", "non-finite transform")] if rank >= d - 1 and g else []
    if not (np.array_equal(H[d, :d], np.zeros(d)) and H[d, d] == 1.0):
        fails.append(("c04-last-row", "last row %s is not (0..0 1)" % H[d]))
    if g is None or rank < d - 1:
        return fails                      # all points collinear (or a single point): outside the property
    # collinearity is a property of the point set, not of the cross covariance (which can cancel to zero for
    # symmetric pairings): a source or target set whose second singular value vanishes is outside the property
    for X in (Sp, Tp):
        sv = np.linalg.svd(X - X.mean(0), compute_uv=False)
        if len(sv) < 2 or sv[1] <= (1e-3 if ty == "f32" else 1e-6) * max(sv[0], 1e-300):
            STATS["collinear_skipped"] = STATS.get("collinear_skipped", 0) + 1
            return fails
    tol, spread, off, kappa = g
    ortho = np.abs(R.T @ R - np.eye(d)).max()
    if ortho > max(BASE[ty], 64 * EPS[ty]):
        fails.append(("c04-orthonormal", "|R^T R - I|_max = %.3g" % ortho))
    det = np.linalg.det(R)
    if det < 0:
        key = "c04-reflection-on-coplanar-set" if rank == d - 1 else "c04-reflection"
        fails.append((key, "det R = %.6g: the linear part is a reflection (singular values of the cross covariance %s)" % (det, s)))
        return fails
    if abs(det - 1) > max(BASE[ty], 64 * EPS[ty]) * 10:
        fails.append(("c04-det", "det R = %.12g" % det))
    dR = np.abs(R - Rref).max()
    if dR > tol:
        fails.append(("c04-optimal-rotation", "|R - R_Kabsch|_max = %.3g > %.3g (kappa %.3g, offset/spread %.3g, %s)" % (dR, tol, kappa, off / spread, ty)))
    dt = np.abs(t - tref).max()
    if dt > tol * (off + spread) * 2:
        fails.append(("c04-optimal-translation", "|t - t_Kabsch|_max = %.3g > %.3g" % (dt, tol * (off + spread) * 2)))
    # residuals: the implementation's motion must map the sources as well as the reference does (exact data: onto the targets)
    res_impl = np.abs(Sp @ R.T + t - Tp).max()
    res_ref = np.abs(Sp @ Rref.T + tref - Tp).max()
    if res_impl > res_ref + tol * (off + spread) * 2:
        fails.append(("c04-residual", "max |R s + t - target| = %.3g, reference motion achieves %.3g (allowed excess %.3g)"
                      % (res_impl, res_ref, tol * (off + spread) * 2)))
    return fails


# ------------------------------------------------------------------------------------------ correspondence
def compare(case, il, ml):
    mp = ml.split("|")
    mvals = mp[0].split()
    ivals = il.split()
    if mvals == ["undef"] or ivals == ["undef"]:
        return None if mvals == ivals else "impl %r model %r" % (il[:40], ml[:40])
    sig, res, conv = [], None, "1"
    if len(mp) > 1:
        r = mp[1].split()
        if "res" in r:
            k = r.index("res")
            sig = [parse_num(v) for v in r[1:k]]
            res = parse_num(r[k + 1]); conv = r[k + 2]
    if res is not None and math.isfinite(res):
        STATS["max_contract_residual"] = max(STATS["max_contract_residual"], res)
    if conv != "1":
        STATS["not_converged"] += 1
    ty, d, Sp, Tp = paired(case)
    if Sp is None:
        return "model/impl produced a transform for malformed input"
    if len(ivals) != len(mvals):
        return "token count"
    if res is None or not math.isfinite(res) or res > (1e-6 if ty == "f64" else 1e-2):
        if sig and sig[0] and sig[0] > 0 and all(math.isfinite(x) for x in sig):
            return "SVD oracle realisation violates its contract: residual %s" % res
    a = np.array([parse_num(v) for v in ivals], dtype=float)
    b = np.array([parse_num(v) for v in mvals], dtype=float)
    _, _, s, _, _ = reference(Sp, Tp)
    g = geometry(Sp, Tp, ty, s)
    need = d - 1 if FIXED_MODEL else d        # with the determinant correction rank d-1 determines R; without it only rank d does
    rank = num_rank(s, ty, g)
    if g is None or rank < need:
        STATS["oracle_only_rank_deficient"] += 1
        return None
    STATS["compared"] += 1
    tol, spread, off, kappa = g
    if not (np.all(np.isfinite(a)) and np.all(np.isfinite(b))):
        return None if (not np.all(np.isfinite(a))) == (not np.all(np.isfinite(b))) else "finite on one side only"
    A, B = a.reshape(d + 1, d + 1), b.reshape(d + 1, d + 1)
    dR = np.abs(A[:d, :d] - B[:d, :d]).max()
    dt = np.abs(A[:d, d] - B[:d, d]).max()
    if dR > tol:
        return "rotation blocks differ by %.3g > %.3g" % (dR, tol)
    if dt > tol * (off + spread) * 2:
        return "translations differ by %.3g > %.3g" % (dt, tol * (off + spread) * 2)
    if not np.array_equal(A[d], B[d]):
        return "last rows differ"
    return None


def nontrivial(case, out):
    ty, d, Sp, Tp = paired(case)
    if Sp is None or len(Sp) < 3:
        return None
    vals = [parse_num(v) for v in out.split()]
    if len(vals) != (d + 1) ** 2 or any(v is None or not math.isfinite(v) for v in vals):
        return None
    H = np.array(vals).reshape(d + 1, d + 1)
    return case if np.abs(H[:d, :d] - np.eye(d)).max() > 1e-3 else None


def coverage_extra():
    return {"max_oracle_contract_residual": STATS["max_contract_residual"], "jacobi_not_converged_cases": STATS["not_converged"],
            "compared_with_model": STATS["compared"], "oracle_only_rank_deficient": STATS["oracle_only_rank_deficient"],
            "rank_deficient_cases_seen_by_oracle": STATS["coplanar_cases"]}


CHECK = {
    "coq": "Properties_C04",
    "driver": "drv_C04",
    "harness": "C04.cpp",
    "repo_srcs": ["src/transform/estimation/FindRigidTransformationBySVD.cpp", "src/pointset/algorithms/PreconditionedPointSet.cpp",
                  "src/pointset/algorithms/PointSetPreconditioner.cpp", "src/pointset/algorithms/Correspondence.cpp"],
    "gen": gen,
    "oracle": oracle,
    "compare": compare,
    "nontrivial": nontrivial,
    "coverage_extra": coverage_extra,
    "rule": "3..60 points (large group: ..500) in 2D/3D: generic, coplanar (random and axis-aligned planes), nearly coplanar "
            "(thickness 1e-7..1e-2), clustered; rotations of any axis, angles 0, tiny, random, pi-1e-9..pi; translations 0.1..100; "
            "exact and noisy targets; aligned / identity / permuted / permuted-with-unmatched-points correspondences; isotropic "
            "preconditioning scale 1e-3..1e3 on both sets or none; Cartesian/homogeneous, float/double (eight point types); "
            "malformed stream (size mismatch, index out of range). non-trivial = at least 3 pairs and R differs from I by > 1e-3",
    "trusted": ["hand-written model coq/KabschModel.v, tied to the source syntactically (translate/tr_C04_kabsch.py -> coq/gen/SrcKabsch.v, tie lemmas "
                "coq/SrcTieC04.v, double instantiations) and by differential execution (this run, all eight point types)",
                "translate/tr_C04_kabsch.py, clang's JSON AST, coq/SrcMat.v (the reading of fixed-size Eigen expressions, see the manifest note)",
                "Eigen::JacobiSVD is an oracle with a contract (premise of the theorems); realised for execution by an unverified Gallina "
                "one-sided Jacobi whose contract residual is measured on every call",
                "extraction (ExtrOcamlBasic), ocaml/numf.ml, ocaml/drv_C04.ml", "harness/C04.cpp, python oracle in checks/C04.py",
                "numpy/LAPACK SVD as the independent Kabsch/Umeyama reference"],
    "assumptions": ["theorems are over the reals; rounding is observed by the correspondence run, not proved",
                    "'isotropic preconditioning of both sets' = PreconditionedPointSet(points, scale) with the same scale on both sets",
                    "tolerance on R: max(1e-9|1e-4, 200 eps kappa (1+offset/spread)), kappa = sigma_1/(sigma_{d-1}+sigma_d) of the "
                    "cross covariance (conditioning of the polar factor); all-collinear sets are outside the property"],
    "run_timeout": 900,
    "manifest": {
        "text": "SYNTACTIC TIE: translate/tr_C04_kabsch.py regenerates, on every run, Gallina terms (coq/gen/SrcKabsch.v) from the clang "
                "AST of the INSTANTIATED members of FindRigidTransformationBySVD<P> for P = Vector2d, Vector3d, HomogeneousCoordinates2d, "
                "HomogeneousCoordinates3d: both private estimate_ overloads (aligned sets; with a correspondence vector), the four public "
                "find overloads (the two on PreconditionedPointSet with their getters and the un-scaling of the translation block) and "
                "romea::core::mean; loops are folds (index loops over seq with nth look-ups into the point lists, state = tuple of the "
                "accumulated components), fixed-size Eigen expressions are expanded component-wise (outer product, block, col, transpose, "
                "Identity, determinant), Eigen::JacobiSVD is an oracle argument. coq/SrcTieC04.v proves, for EVERY numeric dictionary "
                "satisfying two literal laws (`0` = nzero, x * (-1) = -x; the reals satisfy them) and every SVD oracle, that the generated "
                "estimate_ terms equal the model's estimate_pairs on the listed / aligned pairs and the generated find terms equal the "
                "model's find functions (C04_source_tie_estimate, C04_source_tie_find_plain, C04_source_tie_find_preconditioned: 24 "
                "generated functions), and the optimality theorem is restated directly about the generated terms "
                "(C04_source_estimate_corr_is_optimal_proper_rotation, ..._aligned_..., "
                "C04_source_find_preconditioned_is_optimal_for_the_original_pairs). "
                "The theorems about the model: with JacobiSVD as a contract-bound "
                "oracle: R^T R = I, det R = +1 (with the determinant correction), least-squares optimality among orthogonal matrices and, "
                "in 2D and 3D, among PROPER rotations on noisy data (the flipped matrix V diag(1,..,-1) U^T is optimal when det(V U^T) < 0, "
                "whatever the last singular value); the model's list sums (means, cross covariance, assembled matrix) are identified "
                "with the finite sums of the optimality theorems, so the output of estimate_pairs itself is proved to be the proper "
                "rigid motion (rotation and translation) with the smallest sum of squared residuals on the listed pairs; exact data are "
                "mapped exactly in both branches (coplanar sets included); uniqueness: on exact data t = R0 s + tau0 whose sources are "
                "not all collinear (3D) / coincident (2D) the returned matrix is exactly (R0, tau0); the four find overloads reduce to "
                "estimate_pairs and, with the same preconditioning scale on both sets, the result is again optimal on the original "
                "pairs and equal to (R0, tau0) on exact data; invariance under permutation of "
                "the correspondences; the refuted statement for the original code (reflection on a coplanar set). Also tied by running the "
                "extracted model against the real class for all eight point types.",
        "note": "SYNTACTIC TIE: trusted in the tie are clang's AST, the translator's reading of Eigen (component-wise fixed-size "
                "expressions; a matrix product component is the left-to-right sum from zero — the model's nominal order, Eigen's own "
                "summation order and its LU-based run-time-sized determinant round differently, which only the correspondence run sees; "
                "operator op= on a block evaluates its right-hand side first; HomogeneousCoordinatesK<double> is its Eigen base vector; "
                "JacobiSVD(M, ComputeThinU | ComputeThinV) yields square U, V of the size of M), and coq/SrcMat.v (vcomp, mcomp, eig_det = "
                "cofactor formula, the SVD result projections). Index out of range (undefined behaviour in C++) is outside the tie: the "
                "theorems carry the model's range / equal-size guards. The float instantiations are not translated (the double ones "
                "are; the harness runs both). PreconditionedPointSet::compute is not translated: the tie of the preconditioned overloads "
                "takes the stored points and entry (0,0) of the target's matrix as given by the model's precondition / precond_matrix00 "
                "(tied to the class by the correspondence run). Also trusted: Coq kernel, real-number axioms, extraction, float "
                "dictionaries, harness, oracle, numpy reference. Eigen's SVD is not verified: it appears as a hypothesis (run-time "
                "contract check in the model's executable realisation).",
        "technique": "SYNTACTIC TIE: Coq proof (linear algebra over R) about a model + source-to-Gallina translation of the instantiated "
                     "C++ (clang AST, symbolic execution of fixed-size Eigen code, loops as folds, SVD as oracle) with dictionary-generic "
                     "tie lemmas + extracted-model correspondence run + independent Kabsch/Umeyama oracle",
    },
}
