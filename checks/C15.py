"""C15 — scrolling (wrappable) grid keeps surviving cells and blanks entering cells after any scrolls."""
import itertools


def fill_ops(dims, start):
    nx, ny, nz = dims
    ops, m = [], start
    for z in range(nz):
        for y in range(ny):
            for x in range(nx):
                ops.append("W:%d,%d,%d,%d" % (x, y, z, m))
                m += 1
    return ops, m


def seq_case(d, dims, trans, rng=None, empties=None):
    """initial distinct markers, then each translation followed by a few marker writes"""
    nx, ny, nz = dims
    ops, m = fill_ops(dims, 1000)
    for j, k in enumerate(trans):
        e = empties[j] if empties else -(j + 1)
        ops.append("T:%d,%d,%d,%d" % (k[0], k[1], k[2] if d == 3 else 0, e))
        nw = 1 if rng is None else rng.randint(0, 2)
        for _ in range(nw):
            if rng is None:
                c = (j % nx, (j + 1) % ny, j % nz)
            else:
                c = (rng.randrange(nx), rng.randrange(ny), rng.randrange(nz))
            ops.append("W:%d,%d,%d,%d" % (c[0], c[1], c[2], m))
            m += 1
    return "grid %d %d %d %d %s" % (d, nx, ny, nz, " ".join(ops))


def offsets_for(d, dims):
    rs = [range(-(n + 1), n + 2) for n in dims[:d]]
    for k in itertools.product(*rs):
        yield tuple(k) + (0,) * (3 - d)


def gen(rng, tier):
    big = tier == "thorough"
    exh, samp, rnd = [], [], []
    for d, top in ((2, 4), (3, 3)):
        for dims in itertools.product(range(1, top + 1), repeat=d):
            dims3 = tuple(dims) + (1,) * (3 - d)
            offs = list(offsets_for(d, dims3))
            # all single translations, exhaustively
            for k in offs:
                exh.append(seq_case(d, dims3, [k]))
            # all pairs when small enough (or thorough), else a sample
            pairs = len(offs) ** 2
            if pairs <= (40000 if big else 700):
                for k1 in offs:
                    for k2 in offs:
                        exh.append(seq_case(d, dims3, [k1, k2]))
            else:
                for _ in range(3000 if big else 120):
                    samp.append(seq_case(d, dims3, [rng.choice(offs), rng.choice(offs)], rng))
            for _ in range(1500 if big else 40):
                samp.append(seq_case(d, dims3, [rng.choice(offs) for _ in range(3)], rng))
    for _ in range(6000 if big else 600):
        d = rng.choice([2, 3])
        dims = tuple(rng.randint(1, 8) for _ in range(d)) + (1,) * (3 - d)
        nt = rng.randint(1, 50 if rng.random() < 0.3 else 8)
        trans = []
        for _ in range(nt):
            k = [0, 0, 0]
            for a in range(d):
                r = rng.random()
                if r < 0.25:
                    k[a] = 0
                elif r < 0.8:
                    k[a] = rng.randint(-2, 2)
                else:
                    k[a] = rng.randint(-2 * dims[a], 2 * dims[a])
            trans.append(tuple(k))
        empties = [rng.choice([0, -1, 7, -(j + 1)]) for j in range(nt)]
        rnd.append(seq_case(d, dims, trans, rng, empties))
    return [("exhaustive-1-and-2-translations", exh), ("sampled-up-to-3-translations", samp), ("random-long", rnd)]


def oracle(case, out):
    """the property read literally: a window sliding over an unbounded map"""
    t = case.split()
    d, nx, ny, nz = int(t[1]), int(t[2]), int(t[3]), int(t[4])
    if d == 2:
        nz = 1
    n = (nx, ny, nz)
    ops = t[5:]
    steps = out.split()
    if len(steps) != len(ops):
        return [("c15-shape", "expected %d dumps, got %d" % (len(ops), len(steps)))]
    P = [0, 0, 0]
    world = {}
    for z in range(nz):
        for y in range(ny):
            for x in range(nx):
                world[(x, y, z)] = 0      # the harness initialises every cell to 0
    for j, (op, st) in enumerate(zip(ops, steps)):
        a = [int(v) for v in op[2:].split(",")]
        if op[0] == "T":
            k, e = a[:3], a[3]
            if d == 2:
                k[2] = 0
            P = [P[i] + k[i] for i in range(3)]
            neww = {}
            for z in range(nz):
                for y in range(ny):
                    for x in range(nx):
                        loc = (P[0] + x, P[1] + y, P[2] + z)
                        neww[loc] = world.get(loc, e)   # stayed inside: keeps its value; entering: empty value
            world = neww
        else:
            world[(P[0] + a[0], P[1] + a[1], P[2] + a[2])] = a[3]
        offs, _, cells = st.partition(":")
        exp_off = ",".join(str(P[i] % n[i]) for i in range(3))
        exp_cells = ",".join(str(world[(P[0] + x, P[1] + y, P[2] + z)]) for z in range(nz) for y in range(ny) for x in range(nx))
        if offs != exp_off:
            return [("c15-offset", "after op %d (%s): reported offset %s, accumulated offset modulo size %s" % (j, op, offs, exp_off))]
        if cells != exp_cells:
            return [("c15-cells", "after op %d (%s): cells %s, expected %s" % (j, op, cells, exp_cells))]
    return []


def nontrivial(case, out):
    # at least one translation that neither is zero nor clears the whole grid
    t = case.split()
    n = (int(t[2]), int(t[3]), int(t[4]))
    for op in t[5:]:
        if op[0] == "T":
            k = [int(v) for v in op[2:].split(",")][:3]
            if any(k) and all(abs(k[i]) < n[i] for i in range(3)):
                return case
    return False


CHECK = {
    "coq": "Properties_C15",
    "driver": "drv_C15",
    "harness": "C15.cpp",
    "repo_srcs": [],
    "gen": gen,
    "oracle": oracle,
    "nontrivial": nontrivial,
    "rule": "2D grids 1..4 and 3D grids 1..3 cells per axis: every single translation with per-axis offsets in [-(n+1), n+1] "
            "exhaustively, every pair exhaustively when the pair count is small (all pairs in the thorough tier up to 40000 per grid), "
            "sampled triples; random sequences of up to 50 translations on grids up to 8 cells/axis with offsets up to +-2n, several "
            "empty values, interleaved marker writes; non-trivial = some translation is non-zero and smaller than the grid on every axis",
    "trusted": ["translate/tr_C15_wrapgrid.py (clang JSON AST of WrappableGrid<int,2|3> -> program of coq/WrapGridImp.v) and the "
                "interpreter of coq/WrapGridImp.v as the meaning of the C++ fragment (size_t mod 2^64, int overflow = None, C++ %, "
                "for-loop condition re-checked on every pass); Eigen vector dot product read as the size_t sum of products, "
                "Zero()/Ones()/operator- read componentwise; the virtual call computeCellLinearIndex_ resolved to WrappableGrid's override",
                "extraction (ExtrOcamlBasic), ocaml/numf.ml, ocaml/drv_C15.ml", "harness/C15.cpp, python oracle in checks/C15.py"],
    "assumptions": ["std::vector behaves as a list of length nx*ny*nz < 2^64 (buffer_.resize is not translated); grid sizes below 2^31 "
                    "so that static_cast<int>(size) is exact; the object is a WrappableGrid (not a further-derived class)"],
    "manifest": {
        "text": "SYNTACTIC TIE: translate/tr_C15_wrapgrid.py regenerates on every run, from the clang JSON AST of "
                "WrappableGrid.hpp / Grid.hpp (instantiations WrappableGrid<int,2> and <int,3>), the bodies of translate (the DIM==2 "
                "branch and the 3D branch), computeCellLinearIndex_ (wrapCellIndexes_ inlined), operator() (const and non-const), the "
                "constructor initialisers and Grid::init as programs of a small deeply-embedded imperative language (coq/gen/"
                "SrcWrapGrid.v; every arithmetic node keeps its C++ type: size_t reduced mod 2^64, int with overflow = undefined, "
                "C++ %, int->size_t conversions explicit; counted for-loops whose condition is re-checked on every pass). "
                "coq/SrcTieC15.v proves by loop invariants, for ALL grid sizes (each axis < 2^31, nx*ny*nz < 2^64), all int offsets "
                "and all states, that running the generated translate program yields exactly the state of the model's translate "
                "step (buffer contents and index offsets) in 2D and in 3D (C15_source_tie_translate_2d/_3d), that the generated "
                "linear-index expression is the model's lin without any size_t wrap (C15_source_tie_linear_index), that "
                "operator() reads/writes buffer_ at that index (= g_read/g_write) and that the constructor establishes "
                "minusOne = n-1, coefficients (1,nx,ny*nx), offsets 0. Hence the refinement theorems apply to the code as written: "
                "for every grid size and every sequence of translations and writes each read of the concrete grid equals the read "
                "of a window sliding over logical indexes (surviving cells keep their value, entering cells read the empty value), "
                "and the stored offset equals the accumulated offset modulo the size including the size_t/int wrap-around. "
                "In addition the extracted model is run against WrappableGrid<int,2|3> on bounded-exhaustive and random sequences, "
                "with an independent unbounded-map oracle.",
        "note": "Trusted: Coq kernel (theorems are axiom-free); the translator and the interpreter of WrapGridImp.v as the reading of "
                "the C++ fragment (usual arithmetic conversions as clang inserted them, Eigen dot/Zero/Ones/operator- componentwise, "
                "virtual computeCellLinearIndex_ = WrappableGrid's); buffer_.resize not translated (buffer length is a hypothesis); "
                "extraction, harness, oracle for the differential run. A source edit that changes the AST shape of the loops "
                "without changing the meaning can make the tie lemmas fail to re-prove (reported as a proof failure, never as a wrong pass).",
        "technique": "Coq proof: source programs regenerated from the clang AST into a deep embedding, proved by loop invariants to "
                     "compute the model's steps for all sizes; refinement of the model to a sliding-window spec by induction over op "
                     "sequences; + extracted-model correspondence run",
    },
}
