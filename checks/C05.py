"""C05 — point-to-plane least-squares registration solves its linearised problem."""
from fractions import Fraction
import math
import numpy as np
from vcommon import hexf, parse_num

EPS = {"f64": 2.0 ** -52, "f32": 2.0 ** -23}
BASE = {"f64": 1e-9, "f32": 1e-4}
STATS = {"max_contract_residual": 0.0, "not_converged": 0, "undecidable_in_precision": 0, "max_theta2_ratio": 0.0,
         "pure_translation_cases": 0, "max_cond_normal_matrix": 0.0}


def rnd(x, ty):
    return float(np.float32(x)) if ty == "f32" else float(x)


# ------------------------------------------------------------------------------------------ generators
def small_rotation(rng, nprng, d, ang):
    if d == 2:
        c, s = math.cos(ang), math.sin(ang)
        return np.array([[c, -s], [s, c]])
    ax = nprng.standard_normal(3)
    ax /= np.linalg.norm(ax)
    K = np.array([[0, -ax[2], ax[1]], [ax[2], 0, -ax[0]], [-ax[1], ax[0], 0]])
    return np.eye(3) + math.sin(ang) * K + (1 - math.cos(ang)) * (K @ K)


def design(S, Nn):
    d = S.shape[1]
    if d == 2:
        return np.column_stack([Nn, S[:, 0] * Nn[:, 1] - S[:, 1] * Nn[:, 0]])
    return np.column_stack([Nn, np.cross(S, Nn)])


def make_call(rng, nprng, ty, d, n, kind):
    """one registration problem: (mode, pre, S, T, normals, corr) with cond(J^T J) < 1e6 (as solved)"""
    for _attempt in range(20):
        radius = 10 ** rng.uniform(-1, 1)
        S = nprng.standard_normal((n, d)) * radius
        if rng.random() < 0.3:
            S += nprng.standard_normal(d) * radius
        style = rng.random()
        if style < 0.5:
            Nn = nprng.standard_normal((n, d))
        else:   # box-like scene: a few wall directions, slightly perturbed
            dirs = np.linalg.qr(nprng.standard_normal((d, d)))[0]
            Nn = dirs[nprng.integers(0, d, n)] + 0.05 * nprng.standard_normal((n, d))
            Nn[:d] = dirs
        Nn /= np.linalg.norm(Nn, axis=1)[:, None]
        if kind == "translation":
            # exactly representable data: target = source + tau with no rounding
            q = 2.0 ** -8
            S = np.round(S / q) * q
            tau = np.round(nprng.standard_normal(d) * radius / q) * q
            Tg = S + tau
        else:
            ang = 10 ** rng.uniform(-5, -1) if kind != "noisy" else rng.uniform(0, 0.1)
            if rng.random() < 0.5:
                ang = -ang
            R = small_rotation(rng, nprng, d, ang)
            tau = nprng.standard_normal(d) * radius * rng.choice([0.0, 0.1, 1.0, 2.0])
            S = np.array([[rnd(v, ty) for v in p] for p in S])
            Tg = S @ R.T + tau
            if kind == "noisy":
                Tg += nprng.standard_normal((n, d)) * radius * 10 ** rng.uniform(-4, -2)
        pre = None if rng.random() < 0.5 else 10 ** rng.uniform(-3, 3)
        Nr = np.array([[rnd(v, ty) for v in p] for p in Nn])
        Sr = np.array([[rnd(v, ty) for v in p] for p in S])
        A = design(Sr * (pre if pre else 1.0), Nr)
        sv = np.linalg.svd(A, compute_uv=False)
        condM = (sv[0] / sv[-1]) ** 2 if sv[-1] > 0 else float("inf")
        limit = 1e6 if ty == "f64" else rng.choice([1e2, 1e3, 5e4, 1e6])
        if condM < limit:
            break
    mode = rng.choice(["a", "c", "c"])
    corr = None
    Tout, Nout, Sout = Tg, Nn, S
    if mode == "c":
        perm = list(range(n)); rng.shuffle(perm)
        inv = np.argsort(perm)
        Tout, Nout = Tg[inv], Nn[inv]            # target/normal i stored at position perm[i]
        if rng.random() < 0.5:
            extra = rng.randint(1, 3)
            Sout = np.vstack([S, nprng.standard_normal((extra, d))])
            Tout = np.vstack([Tout, nprng.standard_normal((extra, d))])
            Nout = np.vstack([Nout, np.eye(d)[nprng.integers(0, d, extra)]])
        corr = [(i, perm[i]) for i in range(n)]
        rng.shuffle(corr)
    return mode, pre, Sout, Tout, Nout, corr


def fmt_call(ty, call):
    mode, pre, S, Tg, Nn, corr = call
    toks = [mode, "-" if pre is None else hexf(rnd(pre, ty))]
    for P in (S, Tg, Nn):
        toks += [str(len(P))] + [hexf(rnd(v, ty)) for v in P.flatten()]
    if mode == "c":
        toks += [str(len(corr))] + [str(v) for c in corr for v in c]
    return " ".join(toks)


def gen_cases(rng, nprng, count, maxn):
    cases = []
    for _ in range(count):
        ty = rng.choice(["f64", "f64", "f32"])
        d = rng.choice([2, 3, 3])
        hom = rng.random() < 0.5
        ncalls = rng.choice([1, 1, 2, 3])
        calls = []
        use_pre = rng.random() < 0.5
        big = rng.randint(max(6, maxn // 2), maxn)
        for ci in range(ncalls):
            n = big if ci == 0 else rng.randint(6, max(6, big - 1))     # shrink after grow on the same estimator
            kind = rng.choice(["translation", "rotation", "rotation", "noisy"])
            call = list(make_call(rng, nprng, ty, d, n, kind))
            if not use_pre:
                call[1] = None
            elif call[1] is None:
                call[1] = 10 ** rng.uniform(-3, 3)
            calls.append(fmt_call(ty, call))
        cases.append("p2p %s %d %d %d %s" % (ty, d, 1 if hom else 0, ncalls, " ".join(calls)))
    return cases


def gen_invariance(rng, nprng, count):
    """the same problem presented with/without preconditioning, aligned/indexed, Cartesian/homogeneous"""
    cases = []
    for _ in range(count):
        ty = rng.choice(["f64", "f32"])
        d = rng.choice([2, 3])
        n = rng.randint(6, 40)
        mode, pre, S, Tg, Nn, corr = make_call(rng, nprng, ty, d, n, rng.choice(["rotation", "noisy"]))
        if mode == "c":   # recover the aligned form
            S0 = S[[a for a, _ in corr]]; T0 = Tg[[b for _, b in corr]]; N0 = Nn[[b for _, b in corr]]
        else:
            S0, T0, N0 = S, Tg, Nn
        ident = [(i, i) for i in range(len(S0))]
        for hom in (0, 1):
            for p in (None, 10 ** rng.uniform(-3, 3)):
                cases.append("p2p %s %d %d 1 %s" % (ty, d, hom, fmt_call(ty, ("a", p, S0, T0, N0, None))))
                cases.append("p2p %s %d %d 1 %s" % (ty, d, hom, fmt_call(ty, ("c", p, S0, T0, N0, ident))))
    return cases


def gen_tiny(rng, nprng, count):
    """float, scale 1e-3, cloud radius 0.1: the preconditioned rotation block of J^T J falls below epsilon (C07's defect)"""
    cases = []
    for _ in range(count):
        d = rng.choice([2, 3])
        n = rng.randint(8, 30)
        S = nprng.standard_normal((n, d)) * 0.1
        Nn = nprng.standard_normal((n, d)); Nn /= np.linalg.norm(Nn, axis=1)[:, None]
        R = small_rotation(rng, nprng, d, rng.uniform(0.01, 0.1))
        Tg = S @ R.T + nprng.standard_normal(d) * 0.05
        cases.append("p2p f32 %d 0 1 %s" % (d, fmt_call("f32", ("a", 1e-3, S, Tg, Nn, None))))
    return cases


def gen_malformed(rng, nprng, count):
    cases = []
    for _ in range(count):
        d = rng.choice([2, 3])
        S = nprng.standard_normal((rng.randint(6, 9), d)); Tg = nprng.standard_normal((rng.randint(6, 9), d))
        Nn = nprng.standard_normal((rng.randint(5, 9), d))
        if rng.random() < 0.5:
            cases.append("p2p f64 %d %d 1 %s" % (d, rng.randint(0, 1), fmt_call("f64", ("a", None, S, Tg, Nn, None))))
        else:
            corr = [(rng.randint(0, len(S)), rng.randint(0, max(len(Tg), len(Nn)))) for _ in range(7)]
            cases.append("p2p f64 %d %d 1 %s" % (d, rng.randint(0, 1), fmt_call("f64", ("c", None, S, Tg, Nn, corr))))
    return cases


def gen(rng, tier):
    nprng = np.random.default_rng(rng.getrandbits(32))
    big = tier == "thorough"
    return [("registration-sequences", gen_cases(rng, nprng, 2000 if big else 300, 60)),
            ("invariance", gen_invariance(rng, nprng, 150 if big else 25)),
            ("large", gen_cases(rng, nprng, 60 if big else 6, 500)),
            ("malformed", gen_malformed(rng, nprng, 100 if big else 20))]


# ------------------------------------------------------------------------------------------ reading a case
def parse_case(case):
    t = case.split()
    ty, d, hom, ncalls = t[1], int(t[2]), t[3] == "1", int(t[4])
    p = 5
    calls = []
    for _ in range(ncalls):
        mode, pre = t[p], t[p + 1]; p += 2

        def pts():
            nonlocal p
            n = int(t[p]); p += 1
            a = np.array([float.fromhex(v) for v in t[p:p + n * d]]).reshape(n, d); p += n * d
            return a
        S, Tg, Nn = pts(), pts(), pts()
        corr = None
        if mode == "c":
            n = int(t[p]); p += 1
            corr = [(int(t[p + 2 * i]), int(t[p + 2 * i + 1])) for i in range(n)]; p += 2 * n
        calls.append((mode, None if pre == "-" else float.fromhex(pre), S, Tg, Nn, corr))
    return ty, d, hom, calls


def triples(call):
    mode, pre, S, Tg, Nn, corr = call
    if mode == "a":
        if len(S) != len(Tg) or len(S) > len(Nn):
            return None
        return S, Tg, Nn[:len(S)]
    if any(a >= len(S) or b >= len(Tg) or b >= len(Nn) for a, b in corr):
        return None
    return S[[a for a, _ in corr]], Tg[[b for _, b in corr]], Nn[[b for _, b in corr]]


def unpack(H, d):
    """(x, structural defects) from the homogeneous matrix: H must be Identity + skew(omega) with translation column tau"""
    bad = []
    if d == 2:
        x = [H[0][2], H[1][2], H[1][0]]
        if H[0][1] != -H[1][0]:
            bad.append("H(0,1) != -H(1,0)")
        diag_ok = H[0][0] == 1 and H[1][1] == 1 and H[2][2] == 1 and H[2][0] == 0 and H[2][1] == 0
    else:
        x = [H[0][3], H[1][3], H[2][3], H[2][1], H[0][2], H[1][0]]
        if H[1][2] != -H[2][1] or H[2][0] != -H[0][2] or H[0][1] != -H[1][0]:
            bad.append("rotation block is not Identity + skew")
        diag_ok = all(H[i][i] == 1 for i in range(4)) and all(H[3][j] == 0 for j in range(3))
    if not diag_ok:
        bad.append("diagonal / last row is not that of Identity")
    return x, bad


def solve_exact(M, v):
    k = len(M)
    a = [list(M[i]) + [v[i]] for i in range(k)]
    for c in range(k):
        p = next((r for r in range(c, k) if a[r][c] != 0), None)
        if p is None:
            return None
        a[c], a[p] = a[p], a[c]
        piv = a[c][c]
        a[c] = [x / piv for x in a[c]]
        for r in range(k):
            if r != c and a[r][c] != 0:
                f = a[r][c]
                a[r] = [x - f * y for x, y in zip(a[r], a[c])]
    return [a[i][k] for i in range(k)]


def exact_problem(S, Tg, Nn, d):
    """the linearised problem of the property in exact arithmetic: rows a_i = [n_i ; s_i x n_i], c_i = n_i.(t_i - s_i)"""
    F = Fraction
    A, c = [], []
    for s, t, n in zip(S, Tg, Nn):
        s = [F(v) for v in s]; t = [F(v) for v in t]; n = [F(v) for v in n]
        if d == 2:
            A.append(n + [s[0] * n[1] - s[1] * n[0]])
        else:
            A.append(n + [s[1] * n[2] - s[2] * n[1], s[2] * n[0] - s[0] * n[2], s[0] * n[1] - s[1] * n[0]])
        c.append(sum((ti - si) * ni for si, ti, ni in zip(s, t, n)))
    return A, c


def oracle(case, out):
    ty, d, hom, calls = parse_case(case)
    outs = [o.strip() for o in out.split(";")]
    fails = []
    k = 3 if d == 2 else 6
    for ci, call in enumerate(calls):
        if ci >= len(outs):
            fails.append(("c05-shape", "missing output for call %d" % ci)); break
        tr = triples(call)
        if tr is None:
            if outs[ci] != "undef":
                fails.append(("c05-shape", "malformed call must not produce a transform"))
            break
        vals = [parse_num(v) for v in outs[ci].split()]
        if len(vals) != (d + 1) ** 2 or any(v is None for v in vals):
            fails.append(("c05-shape", "call %d: expected %d numbers, got %r" % (ci, (d + 1) ** 2, outs[ci][:60]))); break
        S, Tg, Nn = tr
        pre = call[1]
        n = len(S)
        # conditioning of the problem as the code solves it (scaled points when preconditioned)
        Asolved = design(S * (pre if pre else 1.0), Nn)
        sv = np.linalg.svd(Asolved, compute_uv=False)
        condM = (sv[0] / sv[-1]) ** 2 if sv[-1] > 0 else float("inf")
        STATS["max_cond_normal_matrix"] = max(STATS["max_cond_normal_matrix"], condM if math.isfinite(condM) else 0)
        eps = EPS[ty]
        tiny_sv = bool((sv[-1] ** 2) <= eps * 1.0000001)      # what the ORIGINAL absolute test of LeastSquares rejects
        # judged as long as 50*eps*cond(J^T J) <= 0.5 (single precision: cond up to ~8e4); see checks/C07.py
        if not math.isfinite(condM) or condM >= 1e6 or 50 * eps * condM > 0.5:
            STATS["undecidable_in_precision"] += 1
            continue
        H = [vals[i * (d + 1):(i + 1) * (d + 1)] for i in range(d + 1)]
        if not all(math.isfinite(v) for v in vals):
            fails.append(("c05-nonfinite", "call %d: non-finite transform (cond %.3g)" % (ci, condM))); continue
        x, bad = unpack(H, d)
        for b in bad:
            fails.append(("c05-scatter", "call %d: %s" % (ci, b)))
        A, c = exact_problem(S, Tg, Nn, d)
        xf = [Fraction(v) for v in x]
        r = [sum(A[i][j] * xf[j] for j in range(k)) - c[i] for i in range(n)]
        g = [sum(A[i][j] * r[i] for i in range(n)) for j in range(k)]                 # J^T (J x - Y), exact
        M = [[sum(A[i][a] * A[i][b] for i in range(n)) for b in range(k)] for a in range(k)]
        v = [sum(A[i][a] * c[i] for i in range(n)) for a in range(k)]
        xs = solve_exact(M, v)
        Af = np.array([[float(a) for a in row] for row in A])
        cf = np.array([float(a) for a in c])
        coln = np.linalg.norm(Af, axis=0)
        rtol = max(BASE[ty], 20 * eps * condM)
        etol = max(BASE[ty], 5 * eps * condM)
        Ax = Af @ np.array(x)
        # Y_i = n_i.(t_i - s_i) is a difference of coordinates: its rounding-level scale is |n_i|.(|t_i| + |s_i|), not |Y_i|
        # (the preconditioned overloads scale both point sets in floating point first, so the cancellation is not exact)
        ynat = float(np.linalg.norm((np.abs(Nn) * (np.abs(Tg) + np.abs(S))).sum(axis=1)))
        scale = np.linalg.norm(Ax) + ynat
        key_kf = "c07-svd-singular-values-below-absolute-epsilon"
        worst = max(abs(float(g[j])) / (coln[j] * scale) if coln[j] * scale > 0 else 0.0 for j in range(k))
        if worst > rtol:
            fails.append((key_kf if tiny_sv else "c05-normal-equations",
                          "call %d: |J^T(Jx-Y)|_j / (|J_j| (|Jx|+|Y|)) = %.3g > %.3g; x=%s exact minimiser %s; n=%d cond=%.3g pre=%s %s"
                          % (ci, worst, rtol, [float(a) for a in x], [float(a) for a in (xs or [])], n, condM, pre, ty)))
        elif xs is not None:
            e = Af @ (np.array(x) - np.array([float(a) for a in xs]))
            sc2 = np.linalg.norm(Af @ np.array([float(a) for a in xs])) + ynat
            if np.linalg.norm(e) > etol * sc2 * 10:
                fails.append((key_kf if tiny_sv else "c05-minimiser",
                              "call %d: |J(x - x*)| = %.3g > %.3g (x* exact minimiser of the linearised cost); leftovers of an earlier "
                              "call or wrong preconditioning? n=%d cond=%.3g pre=%s" % (ci, np.linalg.norm(e), etol * sc2 * 10, n, condM, pre)))
            # consequences stated by the property
            D = Tg - S
            if np.abs(D - D[0]).max() == 0:                      # pure translation, exactly
                STATS["pure_translation_cases"] += 1
                tau0 = D[0]
                span = max(np.abs(S).max(), np.abs(tau0).max(), 1e-300)
                et = max(abs(x[j] - tau0[j]) for j in range(d))
                ew = max(abs(x[j]) for j in range(d, k))
                if et > etol * 10 * span or ew > etol * 10:
                    fails.append((key_kf if tiny_sv else "c05-pure-translation",
                                  "call %d: translation %s recovered as %s, rotation part %s" % (ci, tau0, x[:d], x[d:])))
            else:
                # rotation of angle theta: |J(x - x_true)| <= theta^2/2 * sqrt(sum |s|^2)  (exact-motion data only)
                th = true_motion(S, Tg, d)
                if th is not None:
                    xt, theta = th
                    bound = 0.5 * theta * theta * math.sqrt((S ** 2).sum())
                    err = np.linalg.norm(Af @ (np.array(x) - xt))
                    slack = etol * sc2 * 10 + 1e-12 * math.sqrt((S ** 2).sum())
                    if bound > 0:
                        STATS["max_theta2_ratio"] = max(STATS["max_theta2_ratio"], (err - slack) / (theta * theta * math.sqrt((S ** 2).sum())))
                    if err > bound * 1.01 + slack:
                        fails.append((key_kf if tiny_sv else "c05-rotation-second-order",
                                      "call %d: |J(x - x_true)| = %.3g exceeds theta^2/2 sqrt(sum|s|^2) = %.3g (theta=%.3g)" % (ci, err, bound, theta)))
    seen, uniq = set(), []
    for f in fails:
        if f[0] not in seen:
            seen.add(f[0]); uniq.append(f)
    return uniq


def true_motion(S, Tg, d):
    """if the pairs are an exact rigid motion (to 1e-12): (x_true, theta) with x_true = (tau, theta*axis)"""
    sm, tm = S.mean(0), Tg.mean(0)
    C = (S - sm).T @ (Tg - tm)
    U, s, Vt = np.linalg.svd(C)
    if s[d - 2] <= 1e-9 * s[0]:
        return None
    V = Vt.T
    Dm = np.eye(d); Dm[-1, -1] = 1.0 if np.linalg.det(V @ U.T) > 0 else -1.0
    R = V @ Dm @ U.T
    tau = tm - R @ sm
    if np.abs(S @ R.T + tau - Tg).max() > 1e-12 * (np.abs(S).max() + np.abs(Tg).max() + 1e-300):
        return None
    if d == 2:
        th = math.atan2(R[1, 0], R[0, 0])
        return np.array([tau[0], tau[1], th]), abs(th)
    w = np.array([R[2, 1] - R[1, 2], R[0, 2] - R[2, 0], R[1, 0] - R[0, 1]]) / 2.0      # sin(theta) * axis
    sn = np.linalg.norm(w)
    th = math.atan2(sn, (np.trace(R) - 1) / 2.0)
    if th > 0.2:
        return None
    ax = w / sn if sn > 0 else np.zeros(3)
    return np.concatenate([tau, th * ax]), th


# ------------------------------------------------------------------------------------------ correspondence
def compare(case, il, ml):
    mp = ml.split("|")
    if len(mp) > 1:
        r = mp[1].split()
        if len(r) >= 3 and r[0] == "res":
            v = parse_num(r[1])
            if v is not None and math.isfinite(v):
                STATS["max_contract_residual"] = max(STATS["max_contract_residual"], v)
            if r[2] != "1":
                STATS["not_converged"] += 1
    io = [o.strip() for o in il.split(";")]
    mo = [o.strip() for o in mp[0].split(";")]
    if len(io) != len(mo):
        return "number of call outputs %d vs %d" % (len(io), len(mo))
    ty, d, hom, calls = parse_case(case)
    for ci, (a, b) in enumerate(zip(io, mo)):
        if a == "undef" or b == "undef":
            if a != b:
                return "call %d: impl %r model %r" % (ci, a[:30], b[:30])
            continue
        tr = triples(calls[ci])
        if tr is None:
            return "call %d: transform for malformed input" % ci
        S, Tg, Nn = tr
        pre = calls[ci][1]
        sv = np.linalg.svd(design(S * (pre if pre else 1.0), Nn), compute_uv=False)
        condM = (sv[0] / sv[-1]) ** 2 if sv[-1] > 0 else float("inf")
        if not math.isfinite(condM) or 50 * EPS[ty] * condM > 0.5:
            continue
        tol = max(BASE[ty], 50 * EPS[ty] * condM) * 10
        if (sv[-1] ** 2) <= EPS[ty] * 1.0000001:
            tol = max(tol, 1e-6)
        va = [parse_num(v) for v in a.split()]
        vb = [parse_num(v) for v in b.split()]
        if len(va) != len(vb):
            return "call %d: token count" % ci
        fa = all(v is not None and math.isfinite(v) for v in va)
        fb = all(v is not None and math.isfinite(v) for v in vb)
        if not fa or not fb:
            if fa != fb:
                return "call %d: finite on one side only" % ci
            continue
        A, B = np.array(va).reshape(d + 1, d + 1), np.array(vb).reshape(d + 1, d + 1)
        # rotation entries are angles (compare to the larger of |omega| and a unit), translations to their own size
        dw = np.abs(A[:d, :d] - B[:d, :d]).max()
        dt = np.abs(A[:d, d] - B[:d, d]).max()
        ws = max(np.abs(A[:d, :d] - np.eye(d)).max(), np.abs(B[:d, :d] - np.eye(d)).max())
        ts = max(np.abs(A[:d, d]).max(), np.abs(B[:d, d]).max())
        rad = max(np.abs(S).max(), 1e-300)
        # errors couple the two blocks through the lever arm: omega*radius <-> tau
        wtol = tol * (ws + ts / rad + 1e-300)
        ttol = tol * (ts + ws * rad + 1e-300)
        if dw > wtol:
            return "call %d: rotation parts differ by %.3g > %.3g" % (ci, dw, wtol)
        if dt > ttol:
            return "call %d: translations differ by %.3g > %.3g" % (ci, dt, ttol)
        if not np.array_equal(A[d], B[d]):
            return "call %d: last rows differ" % ci
    return None


def nontrivial(case, out):
    o = out.split(";")[0].split()
    vals = [parse_num(v) for v in o]
    if not vals or any(v is None or not math.isfinite(v) for v in vals):
        return None
    return case


def coverage_extra():
    return {"max_oracle_contract_residual": STATS["max_contract_residual"], "jacobi_not_converged_cases": STATS["not_converged"],
            "calls_not_resolvable_in_precision_skipped": STATS["undecidable_in_precision"],
            "pure_translation_calls": STATS["pure_translation_cases"],
            "max_|J(x-x_true)|/(theta^2 sqrt(sum|s|^2)) (bound 0.5)": STATS["max_theta2_ratio"],
            "max_cond_normal_matrix": STATS["max_cond_normal_matrix"]}


CHECK = {
    "coq": "Properties_C05",
    "driver": "drv_C05",
    "harness": "C05.cpp",
    "repo_srcs": ["src/transform/estimation/FindRigidTransformationByLeastSquares.cpp", "src/regression/leastsquares/LeastSquares.cpp",
                  "src/pointset/algorithms/PreconditionedPointSet.cpp", "src/pointset/algorithms/PointSetPreconditioner.cpp",
                  "src/pointset/algorithms/Correspondence.cpp"],
    "gen": gen,
    "oracle": oracle,
    "compare": compare,
    "nontrivial": nontrivial,
    "coverage_extra": coverage_extra,
    "rule": "one estimator object per case, 1..3 calls with shrinking sizes (6..60 pairs, large group ..500), 2D/3D, unit normals "
            "(random or box-like scenes) with cond(J^T J) < 1e6 as solved (float mostly < 1e3), cloud radius 0.1..10, pure translations "
            "(exactly representable), rotations 1e-5..0.1 rad with translations up to 2 radii, noisy targets, aligned / indexed "
            "(permuted, with unmatched points) correspondences, preconditioning scale 1e-3..1e3 or none, eight point types; "
            "invariance group: one problem in all presentations; malformed stream. non-trivial = first call returns a finite transform",
    "trusted": ["translate/tr_C05_p2p.py (clang JSON AST of the instantiated members -> coq/gen/SrcP2p.v) and the vocabulary coq/SrcP2pLib.v "
                "(eig_dot = the model's left-to-right reading of Eigen's dot(); the record LsMethods of solver methods)",
                "hand-written model coq/P2pModel.v: p2p_row / p2p_y / p2p_scatter / p2p_estimate / p2p_find_corr / p2p_find_aligned / p2p_new / "
                "p2p_set_preconditioner proved equal to the generated terms (SrcTieC05.v); the LeastSquares model coq/LsModel.v (C07), the "
                "PreconditionedPointSet accessors and operation sequencing on one object tied by differential execution (this run)",
                "Eigen::JacobiSVD is an oracle with a contract; realised for execution by an unverified Gallina one-sided Jacobi whose "
                "contract residual is measured on every call",
                "extraction (ExtrOcamlBasic), ocaml/numf.ml, ocaml/drv_C05.ml", "harness/C05.cpp, python oracle (fractions.Fraction) in checks/C05.py",
                "numpy SVD used for condition numbers / recovering the generating motion"],
    "assumptions": ["theorems are over the reals; rounding is observed, not proved",
                    "'satisfy the normal equations' is read columnwise: |J^T(Jx-Y)|_j <= max(1e-9|1e-4, 100 eps cond) |J_j| (|Jx|+|Y|nat), |Y|nat = |sum_c |n_c|(|t_c|+|s_c|)|_2 (Y is a difference of coordinates), cond = "
                    "condition number of the normal matrix as the code solves it; calls with 1000 eps cond > 0.05 are counted, not judged",
                    "O(theta^2): the explicit form |J(x - x_true)| <= theta^2/2 sqrt(sum |s_i|^2) on exact-motion data is a theorem over the reals (C05_p2p_rotation_second_order_*); the oracle measures the same inequality on the float outputs with 1% + rounding slack (the slack is not proved)",
                    "failures on problems whose normal matrix has a singular value below epsilon are attributed to C07's finding (same key)"],
    "run_timeout": 900,
    "manifest": {
        "text": "SYNTACTIC TIE: on every run translate/tr_C05_p2p.py regenerates Gallina terms (coq/gen/SrcP2p.v) from the clang JSON AST of the "
                "INSTANTIATED members of FindRigidTransformationByLeastSquares<PointType> in the current source, for PointType = Vector2, Vector3, "
                "HomogeneousCoordinates2, HomogeneousCoordinates3 (float and double instantiation must give the same term): the constructor, "
                "setPreconditioner, both estimate_ overloads (aligned arrays / correspondence vector; four copies of the row-filling code, only the "
                "taken CARTESIAN_DIM branch is executed, CARTESIAN_DIM being evaluated down to the literals of PointTraits) and the four public find "
                "overloads (inlined from their own bodies). The loop is one fold_left over the indexes; the member leastSquares_ is an abstract object "
                "whose methods (setDataSize, J(i,j)= / Y(i)= through getJ()/getY(), estimateUsingSVD, setPreconditionner, setEstimateSize, the default "
                "constructor) are fields, bound by name, of a record argument. coq/SrcTieC05.v proves FOR EVERY NUMERIC DICTIONARY: the loop writes "
                "exactly p2p_row of the r-th triple (normal of the TARGET index) into row r of J and p2p_y into Y(r) and touches nothing else "
                "(C05_source_tie_rows_2d/_3d), the returned matrix is p2p_scatter of the solver's answer (C05_source_tie_scatter), and on the LsModel "
                "state, from any solver state ready for the estimate size, each estimate_ IS p2p_find_corr / p2p_find_aligned, the functions the "
                "theorems are about (C05_source_tie_estimate); find = estimate_ (on get() for the preconditioned overloads), constructor = p2p_new, "
                "setPreconditioner = p2p_set_preconditioner with the scale of the TARGET set. Corollary: the residual identity holds of the "
                "coefficients the generated loops write (C05_source_tie_residual_identity_2d/_3d), and the normal-equations-and-unique-minimiser claim holds of what each generated "
                "estimate_ returns on the LsModel state (C05_source_tie_normal_equations_and_minimiser). "
                "THEOREMS about the model: residual identity row.x - y = n.((I+[w]x)s + tau - t), the returned "
                "parameters satisfy the normal equations of the linearised problem and minimise its cost, pure translations are "
                "recovered exactly when the design matrix has full rank, preconditioning invariance; the O(theta^2) rotation error is proved: "
                "(1-cos t)^2+(t-sin t)^2 <= t^4/4 for all real t, linearisation remainder |(I+tK-R)s|^2 <= t^4/4 |s|^2 in 2D and 3D "
                "(Rodrigues), hence for exact-motion data with unit normals every solution z of the normal equations (in particular the "
                "estimate of p2p_estimate) satisfies |J(z-x_true)|^2 <= theta^4/4 sum|s_i|^2, and |z-x_true|^2 <= that / lambda_min. Also tied by "
                "running the extracted model against the real class (eight point types, sequences of calls on one object).",
        "note": "Trusted: Coq kernel, real-number axioms, the translator and its vocabulary (Scalar -> dictionary, size_t -> unbounded nat, "
                "points = lists of their stored coordinates, Eigen's dot() read as a left-to-right sum, reads past the end of a point set undefined: "
                "the tie is stated for inputs the model accepts), extraction, float dictionaries, harness, oracle. The LeastSquares solver behind "
                "the abstract methods is C07's model (tied there and by this run's differential execution); Eigen's SVD is a hypothesis. The tie "
                "breaks (no Coq proof) on: normal looked up with the source index, a sign / swapped component in the rotation columns, s - t for "
                "t - s, a row written at another index than the loop counter, the scatter with a wrong sign, one overload differing from the other, "
                "another solver method or overload; it also breaks on a commutation / re-association of the floating-point expressions (the tie is "
                "for every dictionary, rounded ones included), reported as no-failing-input-found. Renaming / hoisting into locals / reordering the "
                "coefficient writes or scatter assignments / if constexpr do not break it. The second-order rotation bound is over the reals on "
                "exact-motion data; with noise or rounding it is measured only.",
        "technique": "clang-AST-to-Gallina translation (symbolic execution of the instantiated members, abstract solver object) + Coq tie lemmas "
                     "for every numeric dictionary (induction on the loop, coefficient writes folded into the model's row ops) + Coq proof (ring "
                     "identities + C07's least-squares theorems + mean-value-theorem bounds on the rotation remainder) + extracted-model "
                     "correspondence run + exact-rational oracle",
    },
}
