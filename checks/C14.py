"""C14 — ray casting visits a connected, in-bounds chain of cells covering the segment."""
from fractions import Fraction
import math
import numpy as np
from vcommon import hexf

EPS = {"f32": 2.0 ** -23, "f64": 2.0 ** -52}
TIE_GAP = {"f32": 1e-3, "f64": 1e-9}


def rnd(x, ty):
    return float(np.float32(x)) if ty == "f32" else float(x)


def nextafter(x, d, ty):
    if ty == "f32":
        return float(np.nextafter(np.float32(x), np.float32(d)))
    return math.nextafter(x, d)


def gen_case(rng, ty, long_rays):
    dim = rng.choice([2, 3])
    r = rnd(rng.choice([0.01, 0.05, 0.1, 0.125, 0.25, 0.5, 1.0, rng.uniform(0.01, 1.0)]), ty)
    maxn = rng.choice([2000, 400]) if long_rays else rng.choice([6, 20, 60, 150])
    lo, hi = [], []
    for _ in range(dim):
        span = r * rng.randint(1, maxn - 1)
        a = rng.uniform(-1000.0, 1000.0 - span) if rng.random() < 0.5 else -span / 2
        if rng.random() < 0.5:
            a = r * round(a / r)
        lo.append(rnd(a, ty))
        hi.append(rnd(a + span, ty))
        if hi[-1] < lo[-1]:
            lo[-1], hi[-1] = hi[-1], lo[-1]
    org = [r * (math.floor(lo[d] / r) - 0.5) for d in range(dim)]

    def point(kind):
        p = []
        for d in range(dim):
            a, b = lo[d], hi[d]
            ncell = max(1, int((b - a) / r) + 1)
            j = rng.randint(0, ncell)
            if kind == "border":
                v = org[d] + j * r
                s = rng.random()
                v = rnd(v, ty)
                if s < 0.3:
                    v = nextafter(v, math.inf, ty)
                elif s < 0.6:
                    v = nextafter(v, -math.inf, ty)
            elif kind == "centre":
                v = rnd(org[d] + (j + 0.5) * r, ty)
            elif kind == "lo":
                v = a
            elif kind == "hi":
                v = b
            else:
                v = rnd(rng.uniform(a, b), ty)
            p.append(min(max(v, a), b))
        return p

    def ray():
        k = rng.random()
        if k < 0.35:
            return point("rand"), point("rand")
        if k < 0.45:                      # axis aligned
            o = point(rng.choice(["rand", "centre"]))
            e = list(o)
            d = rng.randrange(dim)
            e[d] = point("rand")[d]
            return o, e
        if k < 0.6:                       # exact diagonal through cell corners / centres
            o = point("centre")
            m = rng.randint(-30, 30)
            e = [min(max(rnd(o[d] + rng.choice([-1, 1]) * m * r, ty), lo[d]), hi[d]) for d in range(dim)]
            return o, e
        if k < 0.65:                      # coincident
            o = point(rng.choice(["rand", "border", "centre"]))
            return o, list(o)
        if k < 0.85:                      # end / origin on borders and corners
            return point(rng.choice(["rand", "border"])), point("border")
        return point(rng.choice(["lo", "hi", "rand"])), point(rng.choice(["lo", "hi", "centre"]))

    ops = []
    rays = [ray() for _ in range(rng.randint(1, 4))]
    hf = lambda v: " ".join(hexf(x) for x in v)
    for (o, e) in rays:
        if rng.random() < 0.6:
            ops.append("OE %s %s" % (hf(o), hf(e)))
        else:
            ops.append("O %s" % hf(o))
            ops.append("%s %s" % (rng.choice(["E", "E", "SE", "IT"]), hf(e)))
            if rng.random() < 0.3:
                # the same end point again on the same origin: cast(end) must set the ray up again (the first cast
                # consumed the stored crossing parameters), a "nothing changed, skip the set-up" shortcut must not
                ops.append("E %s" % hf(e))
        if rng.random() < 0.25:
            ops.append("K")               # cast() re-use: advances the stored crossing parameters
    # history independence: repeat the first ray at the end, after everything else
    ops.append("OE %s %s" % (hf(rays[0][0]), hf(rays[0][1])))
    return "ray %s %d %s %s %s %s" % (ty, dim, hexf(r), hf(lo), hf(hi), " ".join(ops))


def gen(rng, tier):
    n = 6000 if tier == "thorough" else 1200
    nl = 300 if tier == "thorough" else 40
    return [("double", [gen_case(rng, "f64", False) for _ in range(n)]),
            ("float", [gen_case(rng, "f32", False) for _ in range(n)]),
            ("long-rays", [gen_case(rng, rng.choice(["f32", "f64"]), True) for _ in range(nl)])]


def parse_case(case):
    t = case.split()
    ty, dim = t[1], int(t[2])
    r = float.fromhex(t[3])
    lo = [float.fromhex(v) for v in t[4:4 + dim]]
    hi = [float.fromhex(v) for v in t[4 + dim:4 + 2 * dim]]
    i = 4 + 2 * dim
    ops = []
    while i < len(t):
        op = t[i]
        i += 1
        if op in ("O", "E", "SE", "IT"):
            ops.append((op, [float.fromhex(v) for v in t[i:i + dim]]))
            i += dim
        elif op == "OE":
            ops.append((op, [float.fromhex(v) for v in t[i:i + dim]], [float.fromhex(v) for v in t[i + dim:i + 2 * dim]]))
            i += 2 * dim
        else:
            ops.append((op,))
    return ty, dim, r, lo, hi, ops


def parse_out(out, dim):
    o = out.split()
    n = [int(v) for v in o[1:1 + dim]]
    c0 = [float.fromhex(v) for v in o[2 + dim:2 + 2 * dim]]
    i = 2 + 2 * dim
    casts = []
    while i < len(o):
        if o[i] != "[":
            return n, c0, None
        ln = int(o[i + 1])
        gap = o[i + 2]
        j = i + 3
        cells = []
        while o[j] != "]":
            cells.append(tuple(int(v) for v in o[j].split(",")))
            j += 1
        casts.append((ln, gap, cells))
        i = j + 1
    return n, c0, casts


def seg_hits_box(o, e, bl, bh):
    """closed segment [o,e] meets the closed box [bl,bh] (exact rationals, slab method)"""
    t0, t1 = Fraction(0), Fraction(1)
    for d in range(len(o)):
        dd = e[d] - o[d]
        if dd == 0:
            if o[d] < bl[d] or o[d] > bh[d]:
                return False
        else:
            ta, tb = (bl[d] - o[d]) / dd, (bh[d] - o[d]) / dd
            if ta > tb:
                ta, tb = tb, ta
            t0, t1 = max(t0, ta), min(t1, tb)
            if t0 > t1:
                return False
    return True


def oracle(case, out):
    ty, dim, r, lo, hi, ops = parse_case(case)
    n, c0, casts = parse_out(out, dim)
    if casts is None:
        return [("c14-shape", "unparsable output")]
    fails = []
    R = Fraction(r)
    org = [Fraction(c0[d]) - R / 2 for d in range(dim)]
    mag = max([abs(v) for v in lo + hi] + [r])
    tol = Fraction(16 * EPS[ty]) * Fraction(mag) + Fraction(16 * EPS[ty]) * R
    origin = None
    seen = {}
    ci = 0
    for op in ops:
        if op[0] == "O":
            origin = op[1]
            continue
        if ci >= len(casts):
            return fails + [("c14-shape", "missing cast output")]
        ln, _, cells = casts[ci]
        ci += 1
        if op[0] == "K":
            continue                       # cast() without an end point: outside the property
        if op[0] == "OE":
            origin = op[1]
            end = op[2]
        else:
            end = op[1]               # E, SE, IT: the end point is specified, the origin is the stored one
        if origin is None:
            continue
        key = (tuple(origin), tuple(end))
        if key in seen and seen[key] != cells:
            fails.append(("c14-history", "cast from %s to %s gave a different result after other casts on the same object" % (origin, end)))
        seen.setdefault(key, cells)
        O = [Fraction(v) for v in origin]
        E = [Fraction(v) for v in end]

        def inside(cell, p):
            return all(org[d] + cell[d] * R - tol <= p[d] <= org[d] + (cell[d] + 1) * R + tol for d in range(dim))
        if ln != len(cells) or not cells:
            fails.append(("c14-shape", "length field %d vs %d cells" % (ln, len(cells))))
            continue
        if not inside(cells[0], O):
            fails.append(("c14-start", "first cell %s does not contain the origin %s" % (cells[0], origin)))
        if not inside(cells[-1], E):
            fails.append(("c14-end", "last cell %s does not contain the end point %s in its closed extent (origin %s, r=%r, %s)"
                          % (cells[-1], end, origin, r, ty)))
        l1 = sum(abs(cells[-1][d] - cells[0][d]) for d in range(dim))
        if len(cells) != l1 + 1:
            fails.append(("c14-length", "%d cells for an L1 distance of %d between %s and %s" % (len(cells), l1, cells[0], cells[-1])))
        for a, b in zip(cells, cells[1:]):
            if sorted(abs(a[d] - b[d]) for d in range(dim)) != [0] * (dim - 1) + [1]:
                fails.append(("c14-adjacent", "step %s -> %s is not to a face-adjacent cell" % (a, b)))
                break
        for c in cells:
            if any(not (0 <= c[d] < n[d]) for d in range(dim)):
                fails.append(("c14-bounds", "cell %s outside the grid %s" % (c, n)))
                break
        step = max(1, len(cells) // 400)
        # the crossing parameters are accumulated (tMax += tDelta) once per step: the forward error bound of that
        # sum grows with the number of steps, so the geometric test allows len*eps*|range| on top of the base tolerance
        tolc = tol + Fraction(4 * len(cells) * EPS[ty]) * Fraction(mag)
        for c in cells[::step]:
            bl = [org[d] + c[d] * R - tolc for d in range(dim)]
            bh = [org[d] + (c[d] + 1) * R + tolc for d in range(dim)]
            if not seg_hits_box(O, E, bl, bh):
                fails.append(("c14-crosses", "cell %s is not crossed by the segment %s -> %s (r=%r, %s)" % (c, origin, end, r, ty)))
                break
    return fails[:4]


def compare(case, il, ml):
    """paths must agree exactly unless the model met a near-tie between crossing parameters"""
    dim = int(case.split()[2])
    ty = case.split()[1]
    ni, ci0, ic = parse_out(il, dim)
    nm, cm0, mc = parse_out(ml, dim)
    if ic is None or mc is None:
        return "unparsable"
    if ni != nm:
        return "cell counts %s vs %s" % (ni, nm)
    if len(ic) != len(mc):
        return "number of casts %d vs %d" % (len(ic), len(mc))
    for k, ((li, _, cells_i), (lm, gap, cells_m)) in enumerate(zip(ic, mc)):
        g = float.fromhex(gap) if gap not in ("inf", "nan", "-") else float("inf")
        if g < TIE_GAP[ty]:
            # tie-prone: same start and same length are still required
            if cells_i[:1] != cells_m[:1]:
                return "cast %d: start cell %s vs %s" % (k, cells_i[:1], cells_m[:1])
            continue
        if cells_i != cells_m:
            d = next((j for j, (a, b) in enumerate(zip(cells_i, cells_m)) if a != b), min(len(cells_i), len(cells_m)))
            return "cast %d (gap %.3g): paths differ at step %d: impl %s model %s" % (k, g, d, cells_i[d:d + 2], cells_m[d:d + 2])
    return None


def nontrivial(case, out):
    dim = int(case.split()[2])
    _, _, casts = parse_out(out, dim)
    return casts and any(len(c[2]) >= 4 and len(set(x[0] for x in c[2])) > 1 and len(set(x[1] for x in c[2])) > 1 for c in casts) and case


CHECK = {
    "coq": "Properties_C14",
    "driver": "drv_C14",
    "harness": "C14.cpp",
    "repo_srcs": ["src/containers/grid/RayTracing.cpp", "src/containers/grid/GridIndexMapping.cpp"],
    "gen": gen,
    "oracle": oracle,
    "compare": compare,
    "nontrivial": nontrivial,
    "rule": "2D/3D grids, r in [0.01,1] (round, dyadic, random), up to 150 cells/axis (2000 in the long-ray group); rays generic, "
            "axis-aligned, exact diagonals through corners, coincident, ends on borders +-1 ulp / corners / centres / extent corners; "
            "1-4 rays per caster object with cast() re-use in between and the first ray repeated last (history independence); "
            "non-trivial = a cast of >= 4 cells moving along at least two axes. Paths compared exactly unless the model saw two crossing "
            "parameters closer than 1e-9 (1e-3 float) relative (tie-prone: start cell only; the oracle still applies)",
    "trusted": ["translate/tr_C14_raycast.py + translate/eigsym.py (clang JSON AST -> coq/gen/SrcRayCast.v)",
                "hand-written model coq/RayCastModel.v (+GridMapModel.v): next / ncells / set_origin / set_end proved equal to the generated "
                "terms (SrcTieC14.v), cast() / cast(end) / cast(origin, end) proved to compute cast_cells / after_cast (SrcTieC14Cast.v); "
                "operation sequencing on one object (rc_run) tied by differential execution (this run)",
                "extraction (ExtrOcamlBasic), ocaml/numf.ml, ocaml/drv_C14.ml", "harness/C14.cpp, python oracle in checks/C14.py"],
    "assumptions": ["theorems are over exact (real) arithmetic; float tie-breaking is observed",
                    "Eigen's norm() sums squares left to right for 2- and 3-vectors"],
    "manifest": {
        "text": "SYNTACTIC TIE: the four hand-written specialisations RayCasting<float|double,2|3>::next (each translated separately: a "
                "change in one of them breaks its own tie lemma), computeRayNumberOfCells, setOriginPoint and setEndPoint (with "
                "GridIndexMapping::computeCellIndexes / computeCellCenterPosition / getCellResolution inlined, the per-axis loop "
                "unrolled, if/else merged per variable) are re-translated on every run from the clang AST of the current sources "
                "(translate/tr_C14_raycast.py + eigsym.py: symbolic execution of the instantiated members -> coq/gen/SrcRayCast.v) "
                "and proved EQUAL to RayCastModel.next / ncells / set_origin / set_end, the functions every theorem below is about, "
                "for EVERY numeric dictionary (the real one of the theorems, the float ones of the correspondence run), by "
                "computation and case analysis only: same operations in the same order (C14_source_tie_*). Integer conversions "
                "(size_t += int, cast<int>) are explicit in the generated terms: read as the identity they give the model, read with "
                "wrap-around they give the same result whenever the values fit, which C14_*_indexes_fit proves for a walk. "
                "cast() itself — the loop `while (++n != cells) { next(cur); ray[n] = cur; }` as a fuelled fix, the returned vector "
                "as (size, function of the index) — and the overloads cast(end), cast(origin, end) with everything they call inlined "
                "are translated too and proved to return exactly cast_cells / after_cast of set_end (set_origin c origin) end, the "
                "model's OpCastOE (C14_source_tie_cast_loop_*, C14_source_tie_cast_end_*, C14_source_tie_cast_origin_end_*); the "
                "contents of the grid's cell-centre table are a hypothesis there, discharged by C13_source_tie_constructor. "
                "Proved in Coq over exact arithmetic for 2D and 3D casters: the walk of cast() has exactly L1+1 cells, starts in the origin "
                "cell, ENDS IN THE END CELL, moves to a face-adjacent cell at every step and stays in the index box of the two cells "
                "(induction over the walk with a potential function; the choice never lands on a finished axis); per-axis premises "
                "(step sign agrees with index order, non-negative increments) proved for the state setEndPoint builds; start/end cells "
                "contain their points (C13); casts that specify their end point do not read state left by earlier casts; the abstract "
                "merge lemma explains why the budget rule is neutral in exact arithmetic; every visited cell is met by the segment "
                "(ghost-parameter invariant: the ray point at the entry parameter lies in the closed current cell); assembled end to "
                "end for the state cast(origin, end) builds on a 2D and a 3D grid, for every origin != end inside the extent; the "
                "older no-overflow hypothesis on the stored crossing parameters is removed (walk and geometry proved together: the "
                "parameters next() compares are <= |e-o|), leaving |e-o| < max(), which holds for every extent of side <= 2000 (the "
                "envelope): no numeric premise left there; integer side: with sum of cells per axis <= 2^31-1 every visited index is "
                "in [0, n_i) and the int cell count and its partial sums fit. Model tied to RayCasting<float|double,2|3> by "
                "executing the extracted model on the same rays (exact path equality outside near-ties).",
        "note": "Trusted: Coq kernel, stdlib real axioms; clang's AST and the translator's reading of it (Eigen coefficient-wise "
                "operators per axis, .norm() = sqrt of the squares summed from the left, .sum(); signed overflow / out-of-range "
                "conversions are UB and not modelled; arrays with a run-time size are functions of the index); the sequencing of "
                "operations on one caster object (rc_run) is tied by the differential run only; "
                "extraction; float dictionaries; harness; oracle.",
        "technique": "Coq proof (merge of per-axis crossing sequences; invariants over cast sequences) + source-to-Gallina translation "
                     "(symbolic execution of the clang AST) with dictionary-polymorphic tie lemmas + extracted-model correspondence",
    },
}
