"""C02 — local tangent-plane (ENU) frame is a rigid, correctly oriented isometry; anchoring state machine.
Oracle: the specification frame is built in 50-digit mpmath from the property statement: origin = point of the
GRS80 ellipsoid normal at the anchor, east / north = directions of small finite displacements in longitude /
latitude, up = ellipsoid normal; the anchoring history is tracked as the property states it."""
import math
from mpmath import mp, mpf
from vcommon import hexf, parse_num

mp.dps = 50
PI = mp.pi
M_PI = math.pi
GRS80 = (6378137.0, 6356752.314)
LAT_MAX = math.radians(85.0)
TOL_M = mpf("1e-3")


# ------------------------------------------------------------------ specification
def spec_point(lat, lon, h):
    a, b = mpf(GRS80[0]), mpf(GRS80[1])
    lat, lon, h = mpf(lat), mpf(lon), mpf(h)
    beta = mp.atan((b / a) * mp.tan(lat))
    return (a * mp.cos(beta) * mp.cos(lon) + h * mp.cos(lat) * mp.cos(lon),
            a * mp.cos(beta) * mp.sin(lon) + h * mp.cos(lat) * mp.sin(lon),
            b * mp.sin(beta) + h * mp.sin(lat))


def vsub(p, q):
    return tuple(mpf(p[i]) - mpf(q[i]) for i in range(3))


def vdot(p, q):
    return sum(mpf(p[i]) * mpf(q[i]) for i in range(3))


def vnorm(p):
    return mp.sqrt(vdot(p, p))


def unit(p):
    n = vnorm(p)
    return tuple(c / n for c in p)


_frames = {}


def spec_frame(anchor):
    """(origin, east, north, up) at the anchor; east/north from finite displacements of 1e-25 rad"""
    if anchor in _frames:
        return _frames[anchor]
    lat, lon, h = anchor
    d = mpf(10) ** -25
    O = spec_point(lat, lon, h)
    east = unit(vsub(spec_point(lat, mpf(lon) + d, h), O))
    north = unit(vsub(spec_point(mpf(lat) + d, lon, h), O))
    up = unit(vsub(spec_point(lat, lon, mpf(h) + 1), O))
    if len(_frames) > 5000:
        _frames.clear()
    _frames[anchor] = (O, east, north, up)
    return _frames[anchor]


def to_local(fr, p):
    O, e, n, u = fr
    d = vsub(p, O)
    return (vdot(d, e), vdot(d, n), vdot(d, u))


def to_global(fr, v):
    O, e, n, u = fr
    return tuple(O[i] + mpf(v[0]) * e[i] + mpf(v[1]) * n[i] + mpf(v[2]) * u[i] for i in range(3))


# ------------------------------------------------------------------ generators
def wrap_lon(x):
    while x > M_PI:
        x -= 2 * M_PI
    while x < -M_PI:
        x += 2 * M_PI
    return max(-M_PI, min(M_PI, x))


def pick_anchor(rng):
    r = rng.random()
    lat = rng.choice([LAT_MAX, -LAT_MAX, 0.0, math.radians(45.76), -math.radians(37.8)]) if r < 0.25 else rng.uniform(-LAT_MAX, LAT_MAX)
    r = rng.random()
    if r < 0.3:
        lon = rng.choice([0.0, M_PI, -M_PI, M_PI / 2, -M_PI / 2, math.nextafter(M_PI, 0), math.nextafter(-M_PI, 0)])
    elif r < 0.4:
        lon = rng.choice([1, -1]) * (M_PI - abs(rng.gauss(0, 1)) * 10 ** rng.uniform(-9, -2))
    else:
        lon = rng.uniform(-M_PI, M_PI)
    h = rng.choice([-500.0, 0.0, 9000.0, 1000.0]) if rng.random() < 0.3 else rng.uniform(-500.0, 9000.0)
    return (max(-LAT_MAX, min(LAT_MAX, lat)), wrap_lon(lon), h)


def local_vec(rng):
    r = rng.random()
    if r < 0.15:
        return (0.0, 0.0, rng.choice([0.0, 1.0, 10000.0, -10000.0, rng.uniform(-1e4, 1e4)]))
    if r < 0.3:
        ax = rng.randrange(2)
        v = [0.0, 0.0, 0.0]
        v[ax] = rng.choice([1.0, -1.0, 1000.0, -1000.0, 7e4])
        return tuple(v)
    rad = rng.choice([1.0, 1e2, 1e4, 1e5]) * rng.random()
    th = rng.uniform(0, 2 * math.pi)
    return (rad * math.cos(th), rad * math.sin(th), rng.uniform(-1e4, 1e4))


def near_geodetic(rng, anchor):
    """a geodetic point within ~100 km horizontally / 10 km vertically of the anchor"""
    lat0, lon0, h0 = anchor
    e, n_, u = local_vec(rng)
    R = 6.4e6
    lat = lat0 + 0.7 * n_ / R
    lat = max(-math.radians(89.0), min(math.radians(89.0), lat))
    lon = wrap_lon(lon0 + 0.7 * e / (R * math.cos(lat0)))
    return (lat, lon, h0 + u)


def tok(k, vals):
    return ":".join([k] + [hexf(v) for v in vals])


def gen_seq(rng, maxlen):
    cur = None           # generator's idea of the current anchor (only to aim the points; the oracle tracks its own)
    alt_mem = 0.0
    if rng.random() < 0.5:
        t = ["C"]
    else:
        cur = pick_anchor(rng)
        t = [tok("CA", cur)]
    for _ in range(rng.randint(1, maxlen)):
        r = rng.random()
        ref = cur if cur is not None else pick_anchor(rng)
        if r < 0.10:
            cur = pick_anchor(rng)
            t.append(tok("SA", cur))
        elif r < 0.22:
            t.append("R")
            cur = None
        elif r < 0.36:
            g = near_geodetic(rng, ref) if rng.random() < 0.8 else ref
            t.append(tok("EG", g))
            if cur is None:
                cur = g
        elif r < 0.48:
            g = near_geodetic(rng, ref)
            t.append(tok("EW", g[:2]))
            if cur is None:
                cur = (g[0], g[1], 0.0)
        elif r < 0.58:
            g = near_geodetic(rng, ref)
            p = [float(c) for c in spec_point(*g)]
            t.append(tok("EE", p))
        elif r < 0.66:
            t.append(tok("TE", local_vec(rng)))
        elif r < 0.74:
            t.append(tok("TW", local_vec(rng)))
        elif r < 0.80:
            t.append(tok("RT", local_vec(rng)))
        elif r < 0.86:
            t.append(tok("RW", local_vec(rng)))
        elif r < 0.91:
            t.append("IA")
        elif r < 0.96:
            t.append("GT")
        else:
            t.append("GA")
    return "seq " + " ".join(t)


def gen(rng, tier):
    big = tier == "thorough"
    seqs = []
    # the witness of the reset defect and close variants first
    a = (math.radians(45.0), math.radians(3.0), 1000.0)
    w = (math.radians(45.001), math.radians(3.001))
    seqs.append("seq %s R %s GT IA GA" % (tok("CA", a), tok("EW", w)))
    seqs.append("seq C %s GT" % tok("EW", w))
    seqs.append("seq C %s R %s GT %s" % (tok("SA", a), tok("EW", w), tok("EG", (w[0], w[1], 12.0))))
    seqs.append("seq C %s R R %s GT" % (tok("EG", a), tok("EW", w)))
    for _ in range(20000 if big else 700):
        seqs.append(gen_seq(rng, 30 if rng.random() < 0.3 else 12))
    return [("op-sequences", seqs)]


# ------------------------------------------------------------------ output parsing
ARITY = {"-": 0, "v": 3, "g": 3, "b": 1, "m": 12, "assert": 0, "HANG": 0, "?": 0}


def parse_out(out):
    t = out.split()
    res = []
    i = 0
    while i < len(t):
        k = t[i]
        if k not in ARITY:
            return None
        n = ARITY[k]
        res.append((k, [parse_num(x) for x in t[i + 1:i + 1 + n]]))
        i += 1 + n
    return res


def fin(vals):
    return all(v is not None and v == v and not math.isinf(v) for v in vals)


# ------------------------------------------------------------------ oracle
def oracle(case, out):
    ops = case.split()[1:]
    outs = parse_out(out)
    fails = []
    if outs is None or len(outs) != len(ops) - 1:
        return [("c02-shape", "cannot parse output %r" % out[:200])]
    anchor = None
    k0, f0 = ops[0].split(":")[0], [float.fromhex(x) for x in ops[0].split(":")[1:]]
    if k0 == "CA":
        anchor = tuple(f0)
    for idx, (optok, (tag, vals)) in enumerate(zip(ops[1:], outs)):
        parts = optok.split(":")
        k, f = parts[0], [float.fromhex(x) for x in parts[1:]]
        where = "op %d %s" % (idx + 1, k)
        if tag == "HANG":
            fails.append(("c02-hang", "%s did not return" % where))
            continue
        if tag in ("v", "g", "m") and not fin(vals):
            fails.append(("c02-nonfinite", "%s returned %r" % (where, vals)))
            continue
        if k == "SA":
            anchor = tuple(f)
        elif k == "R":
            anchor = None
        elif k in ("EG", "EW"):
            if k == "EG":
                g = tuple(f)
                if anchor is None:
                    anchor = g
            else:
                if anchor is None:
                    # an un-anchored converter behaves as a freshly constructed one: it anchors at (w, altitude 0)
                    anchor = (f[0], f[1], 0.0)
                g = (f[0], f[1], anchor[2])
            fr = spec_frame(anchor)
            exp = to_local(fr, spec_point(*g))
            d = vnorm(vsub(vals, exp))
            if d > TOL_M:
                key = "c02-anchor-not-origin" if g == anchor else "c02-local-coordinates"
                fails.append((key, "%s: toENU = %s, the east/north/up coordinates of the point in the frame anchored at %r are %s "
                              "(off by %s m)" % (where, vals, anchor, [mp.nstr(c, 12) for c in exp], mp.nstr(d, 6))))
        elif k in ("EE", "TE", "TW", "RT", "RW"):
            if anchor is None:
                if tag != "assert":
                    fails.append(("c02-unanchored-call", "%s on an un-anchored converter returned %s" % (where, tag)))
                continue
            if tag == "assert":
                fails.append(("c02-anchored-flag", "%s: converter should be anchored at %r but reports un-anchored" % (where, anchor)))
                continue
            fr = spec_frame(anchor)
            if k == "EE":
                exp = to_local(fr, f)
                d = vnorm(vsub(vals, exp))
                if d > TOL_M:
                    fails.append(("c02-local-coordinates", "%s: toENU(ecef) off by %s m from the east/north/up coordinates" % (where, mp.nstr(d, 6))))
            elif k == "TE":
                exp = to_global(fr, f)
                d = vnorm(vsub(vals, exp))
                if d > TOL_M:
                    fails.append(("c02-to-ecef", "%s: toECEF off by %s m from origin + x*east + y*north + z*up" % (where, mp.nstr(d, 6))))
            elif k == "TW":
                exp = to_global(fr, f)
                if not (-PI / 2 <= mpf(vals[0]) <= PI / 2 and -PI <= mpf(vals[1]) <= PI):
                    fails.append(("c02-range", "%s: geodetic result out of range %r" % (where, vals)))
                else:
                    d = vnorm(vsub(spec_point(*vals), exp))
                    if d > TOL_M:
                        fails.append(("c02-to-geodetic", "%s: toWGS84 names a point %s m away from origin + x*east + y*north + z*up" % (where, mp.nstr(d, 6))))
            else:
                d = vnorm(vsub(vals, f))
                if d > TOL_M:
                    fails.append(("c02-inverse", "%s: to-local after to-%s moved the point by %s m" % (where, "ECEF" if k == "RT" else "geodetic", mp.nstr(d, 6))))
        elif k == "IA":
            if (vals[0] == 1.0) != (anchor is not None):
                fails.append(("c02-anchored-flag", "%s: isAnchored = %r, expected %r" % (where, vals[0], anchor is not None)))
        elif k == "GT":
            R = [vals[0:3], vals[3:6], vals[6:9]]
            tr = vals[9:12]
            if anchor is None:
                ident = all(abs(R[i][j] - (1.0 if i == j else 0.0)) <= 1e-15 for i in range(3) for j in range(3))
                if not ident or any(abs(x) > 1e-9 for x in tr):
                    fails.append(("c02-unanchored-transform", "%s: un-anchored transform is not the identity" % where))
                continue
            O, e, n_, u = spec_frame(anchor)
            cols = [[R[i][j] for i in range(3)] for j in range(3)]
            for name, col, ref in (("east", cols[0], e), ("north", cols[1], n_), ("up", cols[2], u)):
                dd = vnorm(vsub(col, ref))
                if dd > mpf("1e-9"):
                    fails.append(("c02-axis-" + name, "%s: column for %s is %s, expected %s" % (where, name, col, [mp.nstr(c, 12) for c in ref])))
            # proper rotation
            for i in range(3):
                for j in range(3):
                    if abs(vdot(cols[i], cols[j]) - (1 if i == j else 0)) > mpf("1e-12"):
                        fails.append(("c02-not-orthonormal", "%s: columns %d,%d" % (where, i, j)))
            det = (mpf(R[0][0]) * (mpf(R[1][1]) * R[2][2] - mpf(R[1][2]) * R[2][1]) - mpf(R[0][1]) * (mpf(R[1][0]) * R[2][2] - mpf(R[1][2]) * R[2][0])
                   + mpf(R[0][2]) * (mpf(R[1][0]) * R[2][1] - mpf(R[1][1]) * R[2][0]))
            if abs(det - 1) > mpf("1e-12"):
                fails.append(("c02-determinant", "%s: det = %s" % (where, mp.nstr(det, 15))))
            d = vnorm(vsub(tr, O))
            if d > TOL_M:
                fails.append(("c02-frame-origin", "%s: frame translation is %s m away from the ECEF position of the anchor %r"
                              % (where, mp.nstr(d, 8), anchor)))
        elif k == "GA":
            if anchor is not None and any(abs(vals[i] - anchor[i]) > 1e-15 * max(1.0, abs(anchor[i])) for i in range(3)):
                fails.append(("c02-stored-anchor", "%s: getAnchor %r, expected %r" % (where, vals, anchor)))
    # de-duplicate keys within one sequence (one report per key)
    seen, res = set(), []
    for kf in fails:
        if kf[0] not in seen:
            seen.add(kf[0])
            res.append(kf)
    return res


# ------------------------------------------------------------------ correspondence
TOLS = {"v": [(2e-15, 1e-6)] * 3, "g": [(0, 1e-12), (0, 1e-12), (0, 1e-6)], "b": [(0, 0)],
        "m": [(0, 1e-12)] * 9 + [(2e-15, 1e-6)] * 3}


def compare(case, il, ml):
    a, b = parse_out(il), parse_out(ml)
    if a is None or b is None or len(a) != len(b):
        return "shape: impl %r model %r" % (il[:120], ml[:120])
    for i, ((ta, va), (tb, vb)) in enumerate(zip(a, b)):
        if ta != tb:
            return "op %d: impl %s model %s" % (i + 1, ta, tb)
        for j, (x, y) in enumerate(zip(va, vb)):
            if x is None or y is None:
                return "op %d: unparsable" % (i + 1)
            if x != x or y != y:
                if not (x != x and y != y):
                    return "op %d value %d: impl %r model %r" % (i + 1, j, x, y)
                continue
            rt, at = TOLS[ta][j]
            if abs(x - y) > at + rt * max(abs(x), abs(y)):
                return "op %d (%s) value %d: impl %r model %r (|diff|=%.3g)" % (i + 1, ta, j, x, y, abs(x - y))
    return None


def nontrivial(case, out):
    ops = case.split()
    kinds = set(o.split(":")[0] for o in ops[2:])
    return len(kinds) >= 3 and ("R" in kinds or "SA" in kinds) and case


CHECK = {
    "coq": "Properties_C02",
    "driver": "drv_C02",
    "harness": "C02.cpp",
    "repo_srcs": ["src/geodesy/ENUConverter.cpp", "src/geodesy/ECEFConverter.cpp", "src/geodesy/EarthEllipsoid.cpp",
                  "src/geodesy/GeodeticCoordinates.cpp", "src/geodesy/WGS84Coordinates.cpp"],
    "gen": gen,
    "oracle": oracle,
    "compare": compare,
    "nontrivial": nontrivial,
    "rule": "operation sequences (construct | construct-at, then up to 30 of setAnchor / reset / toENU(geodetic) / toENU(WGS84) / "
            "toENU(ecef) / toECEF / toWGS84 / round trips / isAnchored / getEnuToEcefTransform / getAnchor); anchors |lat|<=85deg "
            "(ends included), longitudes incl. +-pi and neighbours, h in [-500,9000] m; points within 100 km / 10 km of the current "
            "anchor (axis-aligned displacements included); non-trivial = at least 3 op kinds with a reset or re-anchoring",
    "trusted": ["translator translate/srcfuns.py (clang AST of setAnchor's comma initialisers -> Gallina)",
                "translator translate/tr_C02_enu.py + translate/imptrans.py (clang AST of every method of ENUConverter -> Gallina state transformers) and its Eigen vocabulary coq/EnuVocab.v",
                "hand-written models coq/EnuModel.v, coq/GeodesyModel.v: tied syntactically (SrcTieC02State.v, SrcTieC02.v, SrcTieC01.v) and by differential execution (this run)",
                "Eigen Transform::inverse / 3x3 inverse / matrix-vector product modelled (adjugate inverse), not verified",
                "translator translate/constants.py (GRS80 axes, EPSILON)", "extraction, ocaml/numf.ml, ocaml/drv_C02.ml",
                "harness/C02.cpp (reports 'assert' instead of calling an asserting method on an un-anchored converter), mpmath oracle"],
    "assumptions": ["theorems are over the reals; binary64 behaviour is observed on generated inputs",
                    "toENU(WGS84Coordinates) is read as 'the point at the anchor's altitude' (altitude 0 on a fresh/reset converter)"],
    "run_timeout": 900,
    "manifest": {
        "text": "SYNTACTIC TIE: the 3x3 frame block written by setAnchor is re-translated from the clang AST of the current source on every run (translate/srcfuns.py -> coq/gen/SrcFunsC02.v) and proved equal to the model's frame matrix. "
                "SYNTACTIC TIE OF THE STATE MACHINE: the whole of src/geodesy/ENUConverter.cpp — both constructors, setAnchor, reset, isAnchored, getAnchor, "
                "getEnuToEcefTransform, the vector and three-scalar toECEF / toWGS84, the three toENU overloads — is re-translated on every run "
                "(translate/tr_C02_enu.py, on the library translate/imptrans.py -> coq/gen/SrcEnu.v) into Gallina transformers of the fields "
                "(enu2ecef_, isAnchored_, wgs84Anchor_); the class must have exactly the model's four data members and fourteen member functions "
                "(a new member such as a cached inverse, a new method, a static or lazily evaluated local make the translator refuse). "
                "coq/SrcTieC02State.v proves each transformer equal to the corresponding step of the model (C02_source_tie_constructors, _reset "
                "[= the model's reset and field for field what the default constructor leaves], _setAnchor_shape [nothing of the earlier state "
                "survives, translation = toECEF of the new anchor, flag set, anchor stored], _setAnchor, _accessors, _conversions [toENU uses the inverse "
                "of the current transform, toECEF the transform], _three_scalar_overloads [arguments in order], _auto_anchoring [anchors iff not anchored; "
                "toENU(WGS84) takes the altitude of the current anchor]) and C02_source_tie_state_machine: the step function assembled from the generated "
                "transformers IS the model's step function — over the reals outright, and for every numeric dictionary (the executed binary64 one "
                "included) in which the 3x3 block of the source's setAnchor is the model's (C02_source_tie_state_machine_every_dictionary). Hence "
                "the operation-sequence theorems hold of the code as written (C02_source_state_determined_by_last_anchor, _reset_equals_init, "
                "_reanchoring_replaces_frame, _first_conversion_anchors, _histories_every_dictionary). Coq theorems over the reals about a state-machine model of ENUConverter: the frame matrix is a proper rotation "
                "(R^T R = I, det = 1) whose columns are the normalised longitude- and latitude-derivatives of toECEF (east, north) and "
                "the ellipsoid normal (up); the anchor maps to the origin, a point h above it to (0,0,h); to-local is an isometry and "
                "is inverse to to-ECEF both ways (Eigen's adjugate inverse of a rotation is its transpose); for every operation "
                "sequence the state equals the state determined by the last anchoring event (reset = freshly constructed; "
                "re-anchoring fully replaces the frame; first geodetic conversion on an un-anchored converter anchors there and "
                "returns 0). The pre-repair reset() is refuted by a witness. Tied by running the extracted model against the "
                "compiled class on random op sequences; mpmath oracle checks east/north/up coordinates to 1 mm.",
        "note": "Trusted: Coq kernel, real-number axioms, extraction, float dictionary, harness, oracle; the translators (clang JSON AST -> Gallina) and "
                "the Eigen vocabulary of coq/EnuVocab.v: Affine3d = (3x3 block, translation), Identity, translation() =, linear().col(k) << x,y,z, "
                "operator* on a point = block*p + translation, inverse() = (cofactor inverse of the block, -(inverse*translation)), "
                "(Vector3d() << x,y,z).finished() = (x,y,z), value-initialised GeodeticCoordinates = zeros, makeGeodeticCoordinates packs its arguments "
                "(this reading of Eigen is modelled, not verified, and exercised by the correspondence run); the member ecefConverter_ is "
                "default-constructed (GRS80), never assigned, and its two const methods are GeodesyModel.toECEF / toWGS84 (tied in C01). "
                "The translation is of the -DNDEBUG build: assert(isAnchored_) is not in it (model and harness report 'assert' instead of calling "
                "toECEF / toENU(ecef) / toWGS84 on an un-anchored converter); a reference argument is assumed not to alias a field of the converter. "
                "The toWGS84 leg inherits C01's partial convergence statement.",
        "technique": "Coq proof (ring/field/nra, Coquelicot derivatives, induction over op lists; symbolic execution of the C++ methods into Gallina "
                     "state transformers + tie lemmas by computation) + correspondence run + mpmath oracle",
    },
}
