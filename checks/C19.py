"""C19 — shared variables, statistics and check-ups are safe under concurrent use (partial)."""
import os
import vcommon as V
import concfacts

TSAN_SRCS = ["src/monitoring/OnlineAverage.cpp", "src/monitoring/OnlineVariance.cpp", "src/monitoring/RateMonitoring.cpp",
             "src/diagnostics/CheckupRate.cpp", "src/diagnostics/CheckupReliability.cpp", "src/diagnostics/Diagnostic.cpp",
             "src/diagnostics/DiagnosticReport.cpp", "src/diagnostics/DiagnosticStatus.cpp"]
SCENARIOS = ["shared_variable", "shared_optional", "shared_optional_lin", "online_stats", "checkup_equal", "checkup_greater", "checkup_lower",
             "reliability", "rate_equal", "rate_greater", "rate_monitoring"]
# which classes of the generated facts each scenario exercises (for the cross-validation facts <-> ThreadSanitizer)
SCENARIO_CLASSES = {
    "shared_variable": ["SharedVariable<int>"], "shared_optional": ["SharedOptionalVariable<int>"],
    "shared_optional_lin": ["SharedOptionalVariable<int>"],
    "online_stats": ["OnlineAverage", "OnlineVariance"], "checkup_equal": ["CheckupEqualTo<double>", "Checkup<double>"],
    "checkup_greater": ["CheckupGreaterThan<double>", "Checkup<double>"], "checkup_lower": ["CheckupLowerThan<double>", "Checkup<double>"],
    "reliability": ["CheckupReliability"],
    "rate_equal": ["CheckupRate<romea::core::CheckupEqualTo<double>>", "RateMonitoring", "CheckupEqualTo<double>", "Checkup<double>"],
    "rate_greater": ["CheckupRate<romea::core::CheckupGreaterThan<double>>", "RateMonitoring", "CheckupGreaterThan<double>", "Checkup<double>"],
    "rate_monitoring": ["RateMonitoring"],
}
_last = {}


def gen(rng, tier):
    n = 4000 if tier == "thorough" else 600
    sv, so = [], []
    for _ in range(n):
        ops = ["L" if rng.random() < 0.5 else "S:%d" % rng.randint(-10**9, 10**9) for _ in range(rng.randint(0, 30))]
        sv.append("sv %d %s" % (rng.randint(-5, 5), " ".join(ops)))
        k = 0
        ops = []
        for _ in range(rng.randint(0, 30)):
            if rng.random() < 0.5:
                ops.append("C")
            else:
                k += 1
                ops.append("S:%d" % k)
        so.append("so " + " ".join(ops))
    return [("shared-variable-serial", sv), ("shared-optional-serial", so)]


def oracle(case, out):
    t = case.split()
    o = out.split()
    if t[0] == "sv":
        cur = int(t[1])
        ops = t[2:]
        if len(o) != len(ops):
            return [("c19-shape", "token count")]
        for op, r in zip(ops, o):
            if op == "L":
                if r != str(cur):
                    return [("c19-sv-load", "load returned %s, last stored value is %d" % (r, cur))]
            else:
                cur = int(op[2:])
        return []
    ops = t[1:]
    if len(o) != len(ops):
        return [("c19-shape", "token count")]
    stored, consumed = [], []
    pending = None
    for op, r in zip(ops, o):
        if op == "C":
            if r != "none":
                consumed.append(int(r))
            exp = "none" if pending is None else str(pending)
            if r != exp:
                return [("c19-so-consume", "consume returned %s expected %s" % (r, exp))]
            pending = None
        else:
            pending = int(op[2:])
            stored.append(pending)
    it = iter(stored)
    if len(set(consumed)) != len(consumed) or not all(any(c == s for s in it) for c in consumed):
        return [("c19-so-order", "consumed %s is not a duplicate-free subsequence of stored %s" % (consumed, stored))]
    return []


def unguarded_summary():
    """from the regenerated facts: operations with a plain shared access outside the critical section"""
    text, errors, summary = concfacts.generate(V.REPO)
    bad = {}
    for cname, methods in (summary or {}).items():
        for m, acts in methods.items():
            held = False
            for a in acts:
                if a == "Lock":
                    held = True
                elif a == "Unlock":
                    held = False
                elif not held:
                    bad.setdefault(cname, []).append("%s: %s outside the critical section" % (m, a))
    return errors, bad, summary


def extra_checks(work, tier, rng):
    items = []
    errors, bad, summary = unguarded_summary()
    _last["facts"] = {c: {m: " ".join(a) for m, a in ms.items()} for c, ms in (summary or {}).items()}
    _last["unguarded"] = bad
    flags = ["-std=c++17", "-O1", "-g", "-fsanitize=thread", "-DNDEBUG", "-D" + V.GUARD, "-w",
             "-I" + os.path.join(V.REPO, "include"), "-I/usr/include/eigen3", "-I" + os.path.join(V.VERIF, "harness")]
    exe, log = V.build_harness("C19_tsan.cpp", TSAN_SRCS, work, exe_name="tsan", cxx="clang++", base_flags=flags)
    if exe is None:
        return [{"kind": "tie", "what": "harness-build", "msg": "ThreadSanitizer harness: " + log[-2000:]}]
    ops = 100000 if tier == "thorough" else 20000
    reader_counts = [1, 2, 4, 8] if tier == "thorough" else [1, 4]   # 4: two producers and TWO consumers on the optional
    env = dict(os.environ, TSAN_OPTIONS="halt_on_error=1:exitcode=66:report_signal_unsafe=0")
    runs = 0
    races = {}
    samples = []
    for sc in SCENARIOS:
        # the optional variable is the one object with several consumers: also run it with 4 producers + 4 consumers
        counts = reader_counts + ([8] if sc.startswith("shared_optional") and 8 not in reader_counts else [])
        for r in counts:
            rc, out, err = V.sh([exe, sc, str(r), str(ops * (3 if sc.startswith("shared_optional") else 1)), str(rng.randint(0, 10**6))],
                                timeout=600, env=env)
            runs += 1
            case = "tsan %s readers=%d ops=%d" % (sc, r, ops)
            if rc == 66 or "ThreadSanitizer: data race" in err:
                races[sc] = err
                loc = [l.strip() for l in err.splitlines() if l.strip().startswith("#0") or "data race" in l][:5]
                items.append({"kind": "oracle", "key": "c19-race-" + sc, "case": case, "impl": err[-3000:],
                              "msg": "ThreadSanitizer reports a data race in scenario %s: %s" % (sc, " | ".join(loc))})
                break
            if rc != 0:
                items.append({"kind": "oracle", "key": "c19-linearizability-" + sc, "case": case, "impl": (out + err)[-1500:],
                              "msg": "scenario %s: %s" % (sc, (out.strip() or err.strip())[-300:])})
                break
            if len(samples) < 3:
                samples.append({"group": "tsan", "case": case, "impl": out.strip()})
    # cross-validation of the translator: TSan sees a race in a scenario iff some class it exercises is not well locked
    for sc in SCENARIOS:
        flagged = [c for c in SCENARIO_CLASSES[sc] if c in bad]
        if flagged and sc not in races:
            # facts say "not well locked" but no schedule showed it: reported by the proof obligation anyway
            pass
        if sc in races and not flagged:
            items.append({"kind": "tie", "what": "translator-validation",
                          "msg": "ThreadSanitizer found a race in %s but the facts of %s are well locked: the AST analysis missed an access"
                                 % (sc, SCENARIO_CLASSES[sc])})
    _last["tsan_runs"] = runs
    items.append({"kind": "stat", "group": "tsan-schedules", "evaluations": runs,
                  "nontrivial": ["tsan %s" % sc for sc in SCENARIOS if sc not in races], "samples": samples})
    return items


def coverage_extra():
    return {"facts": _last.get("facts", {}), "unguarded_accesses": _last.get("unguarded", {}), "tsan_runs": _last.get("tsan_runs", 0),
            "generated_obligations": ["class_ok <C> = true for every class in gen/ConcFacts.v (inside C19_all_classes_well_locked)"]}


CHECK = {
    "coq": "Properties_C19",
    "driver": "drv_C19",
    "harness": "C19.cpp",
    "repo_srcs": [],
    "gen": gen,
    "oracle": oracle,
    "extra_checks": extra_checks,
    "coverage_extra": coverage_extra,
    "rule": "serial op sequences (store/load, store/consume) for the model correspondence; ThreadSanitizer runs of 11 scenarios (one of them judges EMPTY consume results against every sequential ordering) "
            "(1 writer + 1..8 readers, producers/consumers for the optional variable) with linearizability checks; every case counts",
    "trusted": ["translator translate/concfacts.py + clang 14 AST (which member is accessed where, lock_guard scopes, escaping references)",
                "std::mutex gives mutual exclusion and happens-before (C++ memory model)", "ThreadSanitizer (schedule search only)",
                "hand-written serial specs coq/ConcModel.v tied by differential execution", "harness/C19_tsan.cpp, harness/C19.cpp, oracle"],
    "assumptions": ["atomics (std::atomic<double> rate_) and members that are themselves analysed classes are treated as self-synchronised",
                    "configuration methods (setWindowSize, initialize, constructors) are outside the property's operation set"],
    "manifest": {
        "text": "PARTIAL. Proved in Coq: for any number of threads each running any sequence of operations of a class whose generated "
                "action lists keep every plain shared access inside the object's critical section, no reachable state of the "
                "interleaving semantics has a data race (invariant over all schedules, axiom-free); the per-class obligation is "
                "re-proved on every run against facts regenerated from the clang AST of the current sources. Serial specifications: "
                "loads return the last stored value, consumed values are a duplicate-free subsequence of the stored ones (exactly once, "
                "in order). Serialisability at critical-section granularity is proved too: while the lock is held only the holder can "
                "step, so every trace is a sequence of uninterrupted critical sections. NOT proved: the memory model, the fidelity "
                "of the AST analysis — cross-validated on every run by ThreadSanitizer (a race TSan sees in a class the facts call "
                "well locked is a broken tie), which also supplies the concrete failing schedule when the obligation breaks.",
        "note": "Trusted: Coq kernel (no axioms), clang AST + concfacts.py, std::mutex semantics, ThreadSanitizer for the schedule search.",
        "technique": "Coq proof (lock-discipline invariant over an interleaving semantics) + AST-to-Coq translator + ThreadSanitizer cross-validation",
    },
}
