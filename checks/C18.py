"""C18 — check-ups classify by their thresholds; statuses aggregate as a severity order."""
from fractions import Fraction
import itertools
import math
import numpy as np
from vcommon import hexf

ST = ["OK", "WARN", "ERROR", "STALE"]
RANK = {s: i for i, s in enumerate(ST)}     # the order the property states: OK < WARN < ERROR < STALE


def f32(x):
    return float(np.float32(x))


def nextafter(x, d, ty):
    if ty == "f32":
        return float(np.nextafter(np.float32(x), np.float32(d)))
    return math.nextafter(x, d)


def rnd(x, ty):
    return f32(x) if ty == "f32" else float(x)


def gen_chk(rng, n, maxlen):
    cases = []
    for _ in range(n):
        kind = rng.choice(["eq", "gt", "lt", "rel"])
        ty = "f64" if kind == "rel" else rng.choice(["f64", "f64", "f32"])
        dy = rng.random() < 0.6
        if dy:   # dyadic thresholds: cmp +- eps is exact, the real-number reading is exact
            cmp_ = rng.randint(-2000, 2000) / 2 ** rng.randint(0, 6)
            eps = rng.randint(0, 400) / 2 ** rng.randint(0, 8)
        else:
            cmp_ = rnd(rng.uniform(-1e3, 1e3) * 10 ** rng.randint(-3, 3), ty)
            eps = rnd(abs(rng.gauss(0, 1)) * 10 ** rng.randint(-6, 2), ty)
        if rng.random() < 0.1:
            eps = 0.0
        if kind == "rel":
            cmp_, eps = rnd(rng.random(), ty), rnd(rng.random(), ty)
            if rng.random() < 0.8 and cmp_ > eps:
                cmp_, eps = eps, cmp_
        ops = []
        for _ in range(rng.randint(1, maxlen)):
            if kind != "rel" and rng.random() < 0.15:
                ops.append("T")
                continue
            r = rng.random()
            if kind == "rel":
                base = rng.choice([cmp_, eps])
            else:
                base = rnd(rng.choice([cmp_ - eps, cmp_ + eps]), ty)
            if r < 0.3:
                v = base
            elif r < 0.45:
                v = nextafter(base, math.inf, ty)
            elif r < 0.6:
                v = nextafter(base, -math.inf, ty)
            elif r < 0.8:
                v = rnd(base + rng.gauss(0, 1) * (abs(eps) + 1e-3), ty)
            else:
                v = rnd(rng.uniform(-1e4, 1e4), ty)
            ops.append("E:" + hexf(v))
        cases.append("chk %s %s %s %s %s" % (ty, kind, hexf(cmp_), hexf(eps), " ".join(ops)))
    return cases


def gen(rng, tier):
    big = tier == "thorough"
    groups = [("checkups", gen_chk(rng, 20000 if big else 3000, 14))]
    alg = ["worse %s %s" % p for p in itertools.product(ST, ST)]
    for t in itertools.product(ST, repeat=3):
        alg.append("worst " + " ".join(t))
        alg.append("allok " + " ".join(t))
    for s in ST:
        alg.append("worst " + s)
        alg.append("allok " + s)
    for _ in range(3000 if big else 400):
        l = [rng.choice(ST if rng.random() < 0.6 else ["OK", "OK", "OK", "WARN"]) for _ in range(rng.randint(1, 20))]
        alg.append(rng.choice(["worst ", "allok "]) + " ".join(l))
    groups.append(("status-algebra", alg))
    app = []
    for _ in range(2000 if big else 300):
        def rep():
            ds = [rng.choice(ST) for _ in range(rng.randint(0, 10))]
            keys = sorted(rng.sample(range(12), rng.randint(0, 6)))
            return " ".join(ds) + " | " + " ".join("%d=%d" % (k, rng.randint(0, 99)) for k in keys)
        app.append("append " + rep() + " ; " + rep())
    groups.append(("report-append", app))
    return groups


def fmt_g(v):
    return "%g" % v


def oracle(case, out):
    t = case.split()
    fails = []
    if t[0] == "chk":
        ty, kind = t[1], t[2]
        cmp_, eps = float.fromhex(t[3]), float.fromhex(t[4])
        steps = out.split(" ")
        ops = t[5:]
        if len(steps) != len(ops):
            return [("c18-shape", "expected %d step reports, got %d" % (len(ops), len(steps)))]
        for op, s in zip(ops, steps):
            f = s.split("|")
            if len(f) != 4:
                fails.append(("c18-shape", "report %r does not have one diagnostic and one info entry" % s))
                continue
            ret, st, msg, info = f
            if op == "T":
                if (ret, st, msg, info) != ("-", "STALE", "x_timeout.", ""):
                    fails.append(("c18-timeout", "after timeout expected STALE/'x timeout.'/'' got %r" % s))
                continue
            v = float.fromhex(op[2:])
            if ret != st:
                fails.append(("c18-returned-vs-stored", "returned %s but report stores %s" % (ret, st)))
            if info != fmt_g(v):
                fails.append(("c18-info", "info %r is not the printed value %r" % (info, fmt_g(v))))
            fv, fc, fe = Fraction(v), Fraction(cmp_), Fraction(eps)
            if kind == "eq":
                allowed = []
                verdicts = {"low": ("ERROR", "x_is_too_low."), "high": ("ERROR", "x_is_too_high."), "ok": ("OK", "x_is_OK.")}
                exact = "low" if fv < fc - fe else ("high" if fv > fc + fe else "ok")
                allowed.append(verdicts[exact])
                # inside the rounding band of a threshold that is not exactly representable: either verdict
                for thr, alt in ((fc - fe, "low"), (fc + fe, "high")):
                    if band(fv, thr, ty):
                        allowed += [verdicts[alt], verdicts["ok"]]
            elif kind == "gt":
                exact = ("OK", "x_is_OK.") if fv > fc - fe else ("ERROR", "x_is_too_low.")
                allowed = [exact]
                if band(fv, fc - fe, ty):
                    allowed = [("OK", "x_is_OK."), ("ERROR", "x_is_too_low.")]
            elif kind == "lt":
                exact = ("OK", "x_is_OK.") if fv < fc + fe else ("ERROR", "x_is_too_high.")
                allowed = [exact]
                if band(fv, fc + fe, ty):
                    allowed = [("OK", "x_is_OK."), ("ERROR", "x_is_too_high.")]
            else:
                if fv < fc:
                    allowed = [("ERROR", "x_is_too_low.")]
                elif fv < fe:
                    allowed = [("WARN", "x_is_uncertain.")]
                else:
                    allowed = [("OK", "x_is_high.")]
            if (st, msg) not in allowed:
                fails.append(("c18-threshold-%s" % kind, "value %r cmp %r eps %r: got %s/%s, allowed %s" % (v, cmp_, eps, st, msg, allowed)))
    elif t[0] == "worse":
        exp = max(t[1], t[2], key=lambda s: RANK[s])
        if out.strip() != exp:
            fails.append(("c18-worse", "worse(%s,%s)=%s expected %s" % (t[1], t[2], out, exp)))
    elif t[0] == "worst":
        exp = max(t[1:], key=lambda s: RANK[s])
        if out.strip() != exp:
            fails.append(("c18-worst", "worst of %s = %s expected %s" % (t[1:], out, exp)))
    elif t[0] == "allok":
        exp = "1" if all(s == "OK" for s in t[1:]) else "0"
        if out.strip() != exp:
            fails.append(("c18-allok", "allOK of %s = %s expected %s" % (t[1:], out, exp)))
    elif t[0] == "append":
        body = case[len("append "):]
        a, b = body.split(" ; ")

        def parse(r):
            ds, _, kv = r.partition("|")
            return ds.split(), dict(x.split("=") for x in kv.split())
        da, ia = parse(a)
        db, ib = parse(b)
        od, oi = parse(out)
        if od != da + db:
            fails.append(("c18-append-diags", "diagnostics %s expected %s" % (od, da + db)))
        if set(oi) != set(ia) | set(ib) or any(oi[k] not in (ia.get(k), ib.get(k)) for k in oi):
            fails.append(("c18-append-info", "info %s is not a merge of %s and %s" % (oi, ia, ib)))
    return fails


def band(fv, thr, ty):
    """is v within the rounding band of the (possibly inexact) threshold thr?"""
    thr_f = float(thr)
    if Fraction(thr_f) == thr and (ty == "f64" or f32(thr_f) == thr_f):
        return False    # threshold exactly representable: the real-number reading is exact
    u = abs(nextafter(rnd(thr_f, ty), math.inf, ty) - rnd(thr_f, ty))
    return abs(fv - thr) <= 2 * Fraction(u)


def nontrivial(case, out):
    t = case.split()
    if t[0] == "chk":
        return len(set(s.split("|")[1] for s in out.split(" "))) >= 2 and case   # at least two different verdicts
    return case


CHECK = {
    "coq": "Properties_C18",
    "driver": "drv_C18",
    "harness": "C18.cpp",
    "repo_srcs": ["src/diagnostics/CheckupReliability.cpp", "src/diagnostics/DiagnosticStatus.cpp",
                  "src/diagnostics/Diagnostic.cpp", "src/diagnostics/DiagnosticReport.cpp"],
    "gen": gen,
    "oracle": oracle,
    "nontrivial": nontrivial,
    "rule": "check-up op sequences (kind, scalar type, thresholds dyadic or not, values on thresholds / +-1 ulp / random, "
            "timeouts interleaved); non-trivial = the sequence shows at least two different verdicts; status algebra: all "
            "pairs and triples exhaustively plus random lists <= 20; report append: random reports",
    "trusted": ["translators translate/tr_C18_diag.py + imptrans.py (clang JSON AST -> Gallina; its vocabulary: the report of a check-up "
                "(one diagnostic, one info entry) = DiagModel.creport, message endings = DiagModel.suffix by a fixed table, std::list = list, "
                "a const_iterator = the suffix it points into, std::map range insert = fold of map_insert, lock_guard skipped) and "
                "translate/constants.py (enumerator values)",
                "constructors (initial diagnostic / empty info value) and toStringInfoValue: tied by differential execution only (this run)",
                "binary64 theorems: hardware arithmetic = one round-to-nearest-even per C++ operation; no overflow of cmp +- eps",
                "extraction (ExtrOcamlBasic), ocaml/numf.ml, ocaml/drv_C18.ml",
                "harness/C18.cpp, python oracle in checks/C18.py", "std::ostream default float formatting == printf %g"],
    "manifest": {
        "text": "SYNTACTIC TIE: Checkup<double>::setDiagnostic_ / setValue_ / getStatus_ / timeout, CheckupEqualTo / GreaterThan / "
                "LowerThan<double>::evaluate (the instantiation at double), CheckupReliability::evaluate and its helpers, worse, worseStatus "
                "(its iterator loop as a structural fix), allOK and operator+=(DiagnosticReport) are regenerated on every run from the clang AST "
                "of the current source (coq/gen/SrcDiag.v) and proved EQUAL to the functions of DiagModel.v the theorems are about, for every "
                "numeric dictionary (SrcTieC18.v, theorems C18_source_tie_*). "
                "Theorems for all real values/thresholds (iff-characterisation of each verdict, |v-target|<=eps), for all op "
                "sequences (report consistency, thresholds immutable, history freedom) and for all statuses/lists (worse is a "
                "join = max, worst = maximum attained, allOK iff all OK, append = concatenation + key-preserving merge). "
                "BINARY64 (Flocq, C18_thresholds_binary64_*): comparisons are exact, the only rounding is in cmp -+ eps; the double evaluation "
                "(state, report, returned status) equals the real-number one of the property for every double value EXCEPT exactly when the "
                "value is the rounded threshold and rounding moved the threshold across it (iff); inside that band greater/lower-than say "
                "ERROR where the property says OK and equal-to says OK where the property says ERROR; hence agreement whenever the value is "
                "farther than half an ulp from the real threshold, and for EVERY value when the thresholds are doubles or epsilon = 0; the "
                "reliability check-up never rounds. The model's float instance is also executed against the real classes on generated "
                "sequences aimed at the thresholds (exact, +-1 ulp), and the enum values are regenerated from source.",
        "note": "Trusted: Coq kernel; real-number axioms of the Coq standard library (listed per theorem in evidence); the AST-to-Gallina "
                "translator and its vocabulary (message strings abstracted to an enum of endings by a fixed table, an unknown ending is "
                "refused; the name part of a message must be report_.info.begin()->first); constructors tied by differential execution "
                "only; extraction; numf.ml float dictionary; harness and oracle. The tie breaks (checked by hand) on < -> <= in a "
                "threshold test, an early exit from the loop of worseStatus, insertion at begin in operator+=, exchanged enumerator "
                "values (through the constants translator and C18_severity_order); it survives hoisting cmp - eps into a local, b < a for "
                "a > b, renaming locals.",
        "technique": "Coq proof (case analysis over R / induction over op lists; Flocq rounding analysis) + source-to-Gallina translation "
                     "with tie lemmas + extracted-model correspondence run",
    },
    "assumptions": ["comparisons are read over the reals in the property theorems; the binary64 theorems relate them to the rounded "
                    "dictionary (one rounding per operation, no overflow of cmp +- eps); the float instance is executed and compared",
                    "std::map / std::list / std::string / std::ostream behave as specified"],
}
