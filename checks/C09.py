"""C09 — estimated surface normals are unit, sensor-facing and orthogonal to the surface."""
import atexit
import hashlib
import math
import os
import shutil
import tempfile

import numpy as np
from vcommon import hexf

SIDEDIR = tempfile.mkdtemp(prefix="verif-C09-side-")
atexit.register(lambda: shutil.rmtree(SIDEDIR, ignore_errors=True))
_counter = [0]
STATS = {"points": 0, "points_in_domain": 0, "points_gap_below_1e-6": 0, "max_eigen_contract_residual_f64": 0.0,
         "max_eigen_contract_residual_f32": 0.0, "flip_tie_prone": 0, "planar_exact_points": 0,
         "rotation_pairs_checked": 0, "clouds_behind_and_in_front": [0, 0]}
EPS = {"f64": 2.0 ** -52, "f32": 2.0 ** -23}
BASE_ANGLE = {"f64": 1e-7, "f32": 1e-3}
BASE_CURV = {"f64": 1e-9, "f32": 1e-4}


def rnd(x, ty):
    return float(np.float32(x)) if ty == "f32" else float(x)


# ----------------------------------------------------------------------------------------------- generators
def rand_rotation(rng, dim):
    if dim == 2:
        a = rng.uniform(-math.pi, math.pi)
        return np.array([[math.cos(a), -math.sin(a)], [math.sin(a), math.cos(a)]])
    q = np.array([rng.gauss(0, 1) for _ in range(4)])
    q /= np.linalg.norm(q)
    w, x, y, z = q
    return np.array([[1 - 2 * (y * y + z * z), 2 * (x * y - z * w), 2 * (x * z + y * w)],
                     [2 * (x * y + z * w), 1 - 2 * (x * x + z * z), 2 * (y * z - x * w)],
                     [2 * (x * z - y * w), 2 * (y * z + x * w), 1 - 2 * (x * x + y * y)]])


def dy(rng, lo, hi, bits=6):
    """dyadic number with few bits: exact in float and double, sums/products of a few stay exact"""
    return rng.randint(int(lo * 2 ** bits), int(hi * 2 ** bits)) / 2.0 ** bits


def gen_cloud(rng, n, dim, kind):
    """-> (points as list of lists, meta string describing an exact hyperplane 'a1,a2[,a3],c' or '-')"""
    P, meta = [], "-"
    if kind == "plane-axis":          # last coordinate constant: z = c (3D) / y = c (2D); both sides of the origin
        c = rng.choice([-0.5, 0.5, -0.5, 0.5, dy(rng, -6, 6) or 1.0])
        for _ in range(n):
            P.append([dy(rng, -4, 4, 10) for _ in range(dim - 1)] + [c])
        a = [0.0] * (dim - 1) + [1.0]
        meta = ",".join(repr(v) for v in a + [c])
    elif kind == "plane-exact":       # a.p = c with small integer a (last entry a power of two): exactly planar
        a = [float(rng.randint(-3, 3)) for _ in range(dim - 1)] + [rng.choice([1.0, 2.0, 4.0]) * rng.choice([-1, 1])]
        c = dy(rng, -8, 8) or 2.0
        for _ in range(n):
            x = [dy(rng, -4, 4) for _ in range(dim - 1)]
            P.append(x + [(c - sum(ai * xi for ai, xi in zip(a, x))) / a[-1]])
        meta = ",".join(repr(v) for v in a + [c])
    elif kind == "ribbon":            # exactly planar but THIN: one lidar ring with a little in-plane jitter — strongly
        # anisotropic neighbourhoods (two eigenvalues far apart, the third 0): an eigen-solver that is only accurate for
        # well-separated, comparable eigenvalues shows here
        a = [float(rng.randint(-3, 3)) for _ in range(dim - 1)] + [rng.choice([1.0, 2.0, 4.0]) * rng.choice([-1, 1])]
        c = dy(rng, -8, 8) or 2.0
        thin = 2.0 ** -rng.randint(6, 9)
        for i in range(n):
            x = [dy(rng, -4, 4)] + [dy(rng, -4, 4) * thin + 1.0 for _ in range(dim - 2)]
            P.append(x + [(c - sum(ai * xi for ai, xi in zip(a, x))) / a[-1]])
        meta = ",".join(repr(v) for v in a + [c])
    elif kind == "plane-noisy":
        R = rand_rotation(rng, dim)
        off = rng.uniform(1, 8) * rng.choice([-1, 1])
        sg = 10.0 ** rng.uniform(-4, -1.5)
        for _ in range(n):
            x = np.array([rng.uniform(-3, 3) for _ in range(dim - 1)] + [off + rng.gauss(0, sg)])
            P.append(list(R @ x))
    elif kind == "piecewise":         # two faces meeting at an edge (3D: floor and wall; 2D: an L-shaped polyline)
        R = rand_rotation(rng, dim)
        sh = np.array([rng.uniform(-6, 6) for _ in range(dim)])
        for _ in range(n):
            if dim == 3:
                if rng.random() < 0.5:
                    x = np.array([rng.uniform(0, 4), rng.uniform(-2, 2), 0.0])
                else:
                    x = np.array([0.0, rng.uniform(-2, 2), rng.uniform(0, 4)])
            else:
                x = np.array([rng.uniform(0, 4), 0.0]) if rng.random() < 0.5 else np.array([0.0, rng.uniform(0, 4)])
            x = x + np.array([rng.gauss(0, 1e-3) for _ in range(dim)])
            P.append(list(R @ x + sh))
    elif kind == "sphere":            # patch of a sphere / circle arc, centred at the sensor or elsewhere
        r = rng.uniform(1, 10)
        ctr = np.zeros(dim) if rng.random() < 0.4 else np.array([rng.uniform(-15, 15) for _ in range(dim)])
        R = rand_rotation(rng, dim)
        for _ in range(n):
            if dim == 3:
                th, ph = rng.uniform(0, 0.9), rng.uniform(-math.pi, math.pi)
                x = r * np.array([math.sin(th) * math.cos(ph), math.sin(th) * math.sin(ph), math.cos(th)])
            else:
                th = rng.uniform(-1.2, 1.2)
                x = r * np.array([math.cos(th), math.sin(th)])
            P.append(list(R @ x + ctr))
    elif kind == "cylinder":
        r = rng.uniform(0.5, 5)
        R = rand_rotation(rng, dim)
        sh = np.array([rng.uniform(-10, 10) for _ in range(dim)])
        for _ in range(n):
            th = rng.uniform(-1.0, 1.0)
            x = np.array([r * math.cos(th), r * math.sin(th)] + ([rng.uniform(-3, 3)] if dim == 3 else []))
            P.append(list(R @ x + sh))
    elif kind == "noisy":             # a noisy blob around a surface: generic covariance
        R = rand_rotation(rng, dim)
        sh = np.array([rng.uniform(-5, 5) for _ in range(dim)])
        sc = np.array([1.0, rng.uniform(0.2, 1.0), rng.uniform(0.01, 0.2)][:dim] if dim == 3 else [1.0, rng.uniform(0.02, 0.3)])
        for _ in range(n):
            x = np.array([rng.gauss(0, 1) for _ in range(dim)]) * sc
            P.append(list(R @ x + sh))
    return P, meta


KINDS = ["plane-axis", "plane-exact", "ribbon", "plane-noisy", "piecewise", "sphere", "cylinder", "noisy"]


WITNESS = [[1.0, 0.0, -0.5], [-1.0, 0.0, -0.5], [0.0, 1.0, -0.5], [0.0, -1.0, -0.5], [0.0, 0.0, -0.5], [5.0, 5.0, -0.5]]


def make_case(rng, n, k, dim, ty, hom, kind, ov, init, rotate, cloud=None):
    P, meta = cloud if cloud is not None else gen_cloud(rng, n, dim, kind)
    P = [[rnd(x, ty) for x in p] for p in P]
    _counter[0] += 1
    side = os.path.join(SIDEDIR, "s%d.nb" % _counter[0])
    toks = ["nc", ty, str(dim), "1" if hom else "0", str(n), str(k), str(ov), init, side, "2" if rotate else "1"]
    for p in P:
        toks += [hexf(x) for x in p]
    if rotate:
        R = rand_rotation(rng, dim)
        toks += [hexf(float(v)) for v in R.flatten()]
        for p in P:
            toks += [hexf(rnd(v, ty)) for v in (R @ np.array(p))]
    return " ".join(toks) + " # " + kind + " " + meta


def gen(rng, tier):
    big = tier == "thorough"
    groups = []
    cases = []
    # the witness family of the known defect first: plane z = -0.5 and z = +0.5, every point type, both initialisations
    for ty in ("f64", "f32"):
        for dim in (2, 3):
            for hom in (False, True):
                for init in ("d", "z"):
                    n = rng.randint(30, 80)
                    cases.append(make_case(rng, n, rng.randint(5, 12), dim, ty, hom, "plane-axis", rng.randint(0, 5), init, False))
    # the witness of theorem C09_normal_flip_homog_refuted (plus one far point so that k < n), and its mirror image
    for ty in ("f64", "f32"):
        for init in ("d", "z"):
            for sgn in (1.0, -1.0):
                W = [[x, y, sgn * z] for x, y, z in WITNESS]
                cases.append(make_case(rng, 6, 5, 3, ty, True, "plane-axis", 5, init, False,
                                       cloud=(W, "0.0,0.0,1.0,%r" % (sgn * -0.5))))
    groups.append(("axis-planes-both-sides", cases))
    cases = []
    for ty in ("f64", "f32"):
        for dim in (2, 3):
            for hom in (False, True):
                for kind in KINDS:
                    for rep in range(8 if big else 1):
                        k = rng.randint(3, 30)
                        n = rng.randint(k + 1, 2000 if (big and rep < 2) else 300)
                        cases.append(make_case(rng, n, k, dim, ty, hom, kind, rng.randint(0, 5), rng.choice("dz"),
                                               rng.random() < 0.5))
    groups.append(("all-types-all-surfaces", cases))
    cases = []
    for _ in range(30 if big else 10):       # smallest admissible clouds and neighbourhoods
        k = rng.choice([3, 3, 4, 5, 30])
        cases.append(make_case(rng, k + rng.randint(1, 3), k, rng.choice([2, 3]), rng.choice(["f64", "f32"]),
                               rng.random() < 0.5, rng.choice(KINDS), rng.randint(0, 5), rng.choice("dz"), rng.random() < 0.5))
    groups.append(("minimal-clouds", cases))
    cases = []
    # the same surfaces at other length scales (a part scanned in millimetres, a site surveyed in hundreds of metres):
    # normals and curvature are scale invariant, absolute thresholds on variances are not
    for ty in ("f64", "f32"):
        for hom in (False, True):
            for sc in (1e-3, 1e-2, 1e2):
                for rep in range(3 if big else 1):
                    dim = rng.choice([2, 3])
                    kind = rng.choice(["plane-exact", "plane-noisy", "piecewise", "noisy"])
                    k = rng.randint(4, 15)
                    n = rng.randint(k + 10, 150)
                    P, meta = gen_cloud(rng, n, dim, kind)
                    P = [[x * sc for x in p] for p in P]
                    if meta != "-":
                        mv = [float(v) for v in meta.split(",")]
                        meta = ",".join(repr(v) for v in mv[:-1] + [mv[-1] * sc])
                    cases.append(make_case(rng, n, k, dim, ty, hom, kind, rng.randint(2, 5), rng.choice("dz"), False, cloud=(P, meta)))
    groups.append(("other-length-scales", cases))
    return groups


# ----------------------------------------------------------------------------------------------- parsing
_cache = {}


def parse_case(case):
    if _cache.get("case") == case:
        return _cache["val"]
    body, _, comment = case.partition(" # ")
    t = body.split()
    ty, dim, hom, n, k, ov, init, side, ncl = t[1], int(t[2]), t[3] == "1", int(t[4]), int(t[5]), int(t[6]), t[7], t[8], int(t[9])
    at = 10
    clouds, R = [], None
    for c in range(ncl):
        if c == 1:
            R = np.array([float.fromhex(x) for x in t[at:at + dim * dim]]).reshape(dim, dim)
            at += dim * dim
        clouds.append(np.array([float.fromhex(x) for x in t[at:at + n * dim]]).reshape(n, dim))
        at += n * dim
    kind, _, meta = comment.partition(" ")
    val = dict(ty=ty, dim=dim, hom=hom, n=n, k=k, ov=ov, init=init, side=side, clouds=clouds, R=R, kind=kind, meta=meta.strip())
    _cache["case"], _cache["val"] = case, val
    return val


def parse_out(line, size, model=False):
    """-> list of dicts per point: normal (np array), curv, rel, and for the model: resid, sorted, lam"""
    toks = line.split()
    pts, i = [], 0
    while i < len(toks):
        if toks[i] != "P":
            raise ValueError("expected P at token %d, got %r" % (i, toks[i]))
        nrm = np.array([float.fromhex(x) if "x" in x else float(x) for x in toks[i + 1:i + 1 + size]])
        c, r = toks[i + 1 + size], toks[i + 2 + size]
        d = {"normal": nrm, "curv": None if c == "-" else (float.fromhex(c) if "x" in c else float(c)),
             "rel": None if r == "-" else (float.fromhex(r) if "x" in r else float(r))}
        i += 3 + size
        if model:
            if toks[i] != "E":
                raise ValueError("expected E")
            d["resid"] = float.fromhex(toks[i + 1]) if "x" in toks[i + 1] else float(toks[i + 1])
            d["sorted"] = toks[i + 2] == "1"
            j = i + 3
            lam = []
            while j < len(toks) and toks[j] != "P":
                lam.append(float.fromhex(toks[j]) if "x" in toks[j] else float(toks[j]))
                j += 1
            d["lam"] = lam
            i = j
        pts.append(d)
    return pts


def read_side(path, ncl, n):
    with open(path) as f:
        rows = [[int(x) for x in l.split()] for l in f.read().split("\n") if l.strip() != ""]
    if len(rows) != ncl * n:
        raise ValueError("side file has %d rows, expected %d" % (len(rows), ncl * n))
    return [rows[c * n:(c + 1) * n] for c in range(ncl)]


# ----------------------------------------------------------------------------------------------- oracle
def reference(P, nbs):
    """float64 reference: neighbourhood mean, covariance eigen-decomposition (ascending) per point"""
    nb = P[np.array(nbs)]                       # n x k x dim
    mean = nb.mean(axis=1)
    cen = nb - mean[:, None, :]
    C = np.einsum("nki,nkj->nij", cen, cen) / nb.shape[1]
    lam, V = np.linalg.eigh(C)
    return mean, C, lam, V


def oracle(case, out):
    try:
        cs = parse_case(case)
        size = cs["dim"] + (1 if cs["hom"] else 0)
        res = parse_out(out, size)
        side = read_side(cs["side"], len(cs["clouds"]), cs["n"])
    except Exception as e:  # noqa
        return [("c09-shape", "unparsable output %r (%s)" % (out[:80], e))]
    ty, dim, n, k = cs["ty"], cs["dim"], cs["n"], cs["k"]
    eps = EPS[ty]
    fails = []
    if len(res) != n * len(cs["clouds"]):
        return [("c09-shape", "expected %d normals, got %d" % (n * len(cs["clouds"]), len(res)))]
    normals_by_cloud, ok_by_cloud, nbsets = [], [], []
    for ci, P in enumerate(cs["clouds"]):
        r = res[ci * n:(ci + 1) * n]
        nbs = side[ci]
        # the neighbourhood: k points of the cloud nearest to the point (itself included), by brute force
        D2 = ((P[:, None, :] - P[None, :, :]) ** 2).sum(axis=2)
        Ds = np.sort(D2, axis=1)[:, :k]
        for i in range(n):
            if len(nbs[i]) != k or len(set(nbs[i])) != k or min(nbs[i]) < 0 or max(nbs[i]) >= n:
                return [("c09-neighbourhood", "point %d: neighbour list %s is not k distinct indexes" % (i, nbs[i]))]
        got = np.sort(np.take_along_axis(D2, np.array(nbs), axis=1), axis=1)
        bad = np.abs(got - Ds).max(axis=1) > 64 * eps * np.maximum(Ds[:, -1], 1e-300)
        if bad.any():
            i = int(np.argmax(bad))
            return [("c09-neighbourhood", "point %d: neighbour squared distances %s are not the k smallest %s" % (i, got[i], Ds[i]))]
        mean, C, lam, V = reference(P, nbs)
        tr = lam.sum(axis=1)
        N = np.array([x["normal"][:dim] for x in r])
        normals_by_cloud.append(N)
        nbsets.append([frozenset(x) for x in nbs])
        pn = np.linalg.norm(P, axis=1)
        s = np.sqrt(np.maximum(tr, 1e-300))
        gap = (lam[:, 1] - lam[:, 0]) / np.maximum(lam[:, -1], 1e-300)
        indom = (gap > 1e-6) & (tr > 0)
        ok_by_cloud.append(indom)
        err = eps * (1 + 2 * np.linalg.norm(mean, axis=1) / s) / np.maximum(gap, 1e-300)
        tol_ang = BASE_ANGLE[ty] + 32 * err
        STATS["points"] += n
        STATS["points_in_domain"] += int(indom.sum())
        STATS["points_gap_below_1e-6"] += int((~indom).sum())
        side_sign = np.sign(np.median(P[:, -1]))
        STATS["clouds_behind_and_in_front"][0 if side_sign < 0 else 1] += 1
        plane = None
        if ci == 0 and cs["meta"] not in ("", "-"):
            v = [float(x) for x in cs["meta"].split(",")]
            plane = np.array(v[:dim]) / np.linalg.norm(v[:dim])
        for i in range(n):
            nv = N[i]
            tag = "cloud %d point %d p=%s (%s %dD %s k=%d init=%s overload=%d)" % (
                ci, i, [float(x) for x in P[i]], ty, dim, "homogeneous" if cs["hom"] else "cartesian", k, cs["init"], cs["ov"])
            if not np.all(np.isfinite(r[i]["normal"])):
                fails.append(("c09-finite", "%s: normal %s" % (tag, list(r[i]["normal"]))))
                continue
            # (1) unit length
            if abs(float(np.linalg.norm(nv)) - 1.0) > 16 * eps:
                fails.append(("c09-unit", "%s: |n| = %.17g" % (tag, float(np.linalg.norm(nv)))))
            # (2) toward the sensor: n.p <= 0
            dp = float(np.dot(nv, P[i]))
            if dp > 16 * eps * max(pn[i], 1e-300):
                fails.append(("c09-faces-sensor", "%s: n=%s n.p = %.6g > 0 (w in/out: %s)" % (
                    tag, [float(x) for x in nv], dp, "-" if not cs["hom"] else float(r[i]["normal"][dim]))))
            if indom[i]:
                # (3) direction of least variance of the neighbourhood
                v0 = V[i][:, 0]
                sin_ang = float(np.linalg.norm(nv - np.dot(nv, v0) * v0))
                if sin_ang > tol_ang[i]:
                    fails.append(("c09-least-variance", "%s: n=%s, least-variance direction %s, sin(angle)=%.3g > %.3g (gap %.3g)"
                                  % (tag, list(nv), list(v0), sin_ang, tol_ang[i], gap[i])))
                # (4) exactly planar cloud: n = +-plane normal, curvature 0
                if plane is not None:
                    STATS["planar_exact_points"] += 1
                    sa = float(np.linalg.norm(nv - np.dot(nv, plane) * plane))
                    if sa > tol_ang[i]:
                        fails.append(("c09-planar-normal", "%s: n=%s but the plane normal is +-%s" % (tag, list(nv), list(plane))))
                    if r[i]["curv"] is not None and abs(r[i]["curv"]) > BASE_CURV[ty] + 32 * err[i] * gap[i]:
                        fails.append(("c09-planar-curvature", "%s: curvature %.6g on an exactly planar cloud" % (tag, r[i]["curv"])))
            # (5) curvature range (and value, where the eigenvalues are resolved)
            if r[i]["curv"] is not None and tr[i] > 0:
                cv = r[i]["curv"]
                tolc = BASE_CURV[ty] + 32 * eps * (1 + 2 * np.linalg.norm(mean[i]) / s[i])
                if not (-tolc <= cv <= 1.0 / dim + tolc):
                    fails.append(("c09-curvature-range", "%s: curvature %.17g not in [0, 1/%d]" % (tag, cv, dim)))
                elif abs(cv - lam[i, 0] / tr[i]) > tolc:
                    fails.append(("c09-curvature-value", "%s: curvature %.12g, smallest eigenvalue / trace = %.12g"
                                  % (tag, cv, lam[i, 0] / tr[i])))
            if len(fails) >= 5:
                return fails
    # (6) rotation equivariance: the rotated cloud gives the rotated normals
    if len(cs["clouds"]) == 2:
        R = cs["R"]
        N0, N1 = normals_by_cloud
        P0 = cs["clouds"][0]
        mean, C, lam, V = reference(P0, side[0])
        tr = lam.sum(axis=1)
        s = np.sqrt(np.maximum(tr, 1e-300))
        gap = (lam[:, 1] - lam[:, 0]) / np.maximum(lam[:, -1], 1e-300)
        err = eps * (1 + 2 * np.linalg.norm(mean, axis=1) / s) / np.maximum(gap, 1e-300)
        for i in range(n):
            if not (ok_by_cloud[0][i] and ok_by_cloud[1][i]) or nbsets[0][i] != nbsets[1][i]:
                continue
            p = P0[i]
            if abs(float(np.dot(N0[i], p))) < 1e-4 * np.linalg.norm(p):
                continue       # orientation undetermined (n.p ~ 0): the sign may legitimately differ
            STATS["rotation_pairs_checked"] += 1
            d = float(np.linalg.norm(R @ N0[i] - N1[i]))
            if d > 2 * BASE_ANGLE[ty] + 128 * err[i]:
                fails.append(("c09-rotation", "point %d: R n = %s but the rotated cloud gives %s (|diff| %.3g)"
                              % (i, list(R @ N0[i]), list(N1[i]), d)))
                break
    return fails[:5]


# ----------------------------------------------------------------------------------------------- correspondence
def compare(case, il, ml):
    try:
        cs = parse_case(case)
        size = cs["dim"] + (1 if cs["hom"] else 0)
        ri = parse_out(il, size)
        rm = parse_out(ml, size, model=True)
    except Exception as e:  # noqa
        return "unparsable (%s): impl %r model %r" % (e, il[:60], ml[:60])
    if len(ri) != len(rm):
        return "point count %d vs %d" % (len(ri), len(rm))
    ty, dim, n = cs["ty"], cs["dim"], cs["n"]
    eps = EPS[ty]
    key = "max_eigen_contract_residual_" + ty
    for idx, (a, b) in enumerate(zip(ri, rm)):
        P = cs["clouds"][idx // n]
        p = P[idx % n]
        if not b["sorted"] or not (b["resid"] <= 256 * eps):
            return "point %d: eigen oracle contract check failed in the model run (residual %r, sorted %s)" % (idx, b["resid"], b["sorted"])
        STATS[key] = max(STATS[key], b["resid"])
        lam = b["lam"]
        tr = sum(lam)
        if not tr > 0:
            continue
        gap = (lam[1] - lam[0]) / max(lam[-1], 1e-300)
        cond = 1 + 2 * float(np.linalg.norm(p)) / math.sqrt(tr)
        if cs["hom"] and a["normal"][dim] != b["normal"][dim]:
            return "point %d: w entry of the normal: impl %r model %r" % (idx, a["normal"][dim], b["normal"][dim])
        if a["curv"] is not None:
            tolc = BASE_CURV[ty] + 64 * eps * cond
            if not abs(a["curv"] - b["curv"]) <= tolc:
                return "point %d: curvature impl %r model %r" % (idx, a["curv"], b["curv"])
        if gap <= 1e-6:
            continue
        tol = BASE_ANGLE[ty] + 64 * eps * cond / gap
        na, nb = a["normal"][:dim], b["normal"][:dim]
        d = float(np.abs(na - nb).max())
        if d > tol:
            tie = abs(float(np.dot(na, p))) <= 64 * eps * cond * float(np.linalg.norm(p)) / gap + 1e-300
            if tie and float(np.abs(na + nb).max()) <= tol:
                STATS["flip_tie_prone"] += 1
            else:
                return "point %d (p=%s): normal impl %s model %s (tolerance %.3g, eigen-gap %.3g)" % (idx, list(p), list(na), list(nb), tol, gap)
        if a["rel"] is not None and lam[0] > 0:
            trel = 64 * eps * cond * tr / lam[0]
            if trel < 1e-2 and not abs(a["rel"] - b["rel"]) <= (trel + 1e-6) * abs(b["rel"]):
                return "point %d: reliability impl %r model %r" % (idx, a["rel"], b["rel"])
    return None


def nontrivial(case, il):
    return hashlib.md5(case.encode()).hexdigest()


CHECK = {
    "coq": "Properties_C09",
    "driver": "drv_C09",
    "harness": "C09.cpp",
    "repo_srcs": ["src/pointset/algorithms/NormalAndCurvatureEstimation.cpp", "src/pointset/KdTree.cpp"],
    "gen": gen,
    "oracle": oracle,
    "compare": compare,
    "nontrivial": nontrivial,
    "coverage_extra": lambda: {"normals": dict(STATS)},
    "rule": "one case = one cloud (k+1..2000 points: axis-aligned planes z=-0.5/+0.5, exactly planar tilted planes, noisy planes, "
            "two faces meeting at an edge, sphere / circle patches (also centred at the sensor), cylinder patches, noisy blobs; 2D and "
            "3D; 8 point types; k in 3..30; the 6 compute overloads; normal set default-constructed or zero-initialised), half of "
            "them with a rotated copy of the cloud; every case is non-trivial (>= k+1 points, each point one estimate)",
    "trusted": ["SYNTACTIC TIE: translate/tr_C09_normals.py regenerates coq/gen/SrcNormals.v from the clang AST of "
                "NormalAndCurvatureEstimation.cpp on every run (flip helper, computeNormalReliability, planeEstimation_, the six compute "
                "overloads; Vector2d/3d, HomogeneousCoordinates2d/3d); coq/SrcTieC09.v proves the generated terms equal to coq/NormalsModel.v "
                "for every numeric dictionary. Trusted there: the translator's reading of the AST (a fixed-size Eigen object = the tuple of "
                "its components; .dot/.norm/.sum accumulated from the left from zero; size_t as unbounded Z; std::vector as a function of the "
                "index); the float instantiations are covered by the correspondence run only",
                "neighbour lists: the kd-tree query is an abstract function in the tie; in the run they are the ones the implementation's "
                "kd-tree returned (validated against brute force by the oracle; the search itself is C08)",
                "eigen-solver = oracle function with contract C = V diag(l) V^T, V orthogonal, l ascending (hypothesis of the theorems); "
                "executed as an unverified Gallina cyclic Jacobi whose contract residual is evaluated on every call (max in coverage.normals)",
                "extraction (ExtrOcamlBasic), ocaml/numf.ml, ocaml/drv_C09.ml, harness/C09.cpp, numpy float64 oracle in checks/C09.py"],
    "manifest": {
        "text": "SYNTACTIC TIE: the Gallina terms of planeEstimation_ (kd-tree query, loop accumulating the mean over the k neighbour "
                "indexes, second loop accumulating the covariance, division by k, DIM x DIM block handed to the eigen-solver oracle), of "
                "flipNormalTowardOriginCoordinate, computeNormalReliability and the six compute overloads are regenerated from the clang AST "
                "of the current source on every run (4 double point types) and proved equal to the model for EVERY numeric dictionary "
                "(C09_source_tie_plane_estimation, C09_source_tie_compute_V2/V3/H2/H3, _fewer_outputs, _own_kdtree): output entry j of "
                "compute() is the model's estimate_point on the neighbours the kd-tree returned for point j, first eigenvector, flip test on "
                "the Cartesian part with '>', caller's w kept, curvature l0/sum, reliability; other entries untouched. Corollary on the "
                "generated terms over the reals (C09_source_normals_unit_and_facing): |n| = 1 and n.p <= 0 for every written normal, under "
                "the eigen-solver contract. Proved in Coq over the reals about the model, for any eigen-solver result meeting its contract: "
                "unit Cartesian length; n.p <= 0 (all point types, repaired Cartesian flip test; the original full-vector test is refuted "
                "for homogeneous types with w = 1); n^T C n = l0 <= x^T C x for every unit x; a neighbourhood on a hyperplane gives n = +- "
                "the plane normal and curvature 0; 0 <= curvature <= 1/DIM; rotation equivariance in full: rotating neighbours and point "
                "about the sensor leaves l0 and the curvature unchanged and turns the normal into +- the rotated one whenever l0 is simple, "
                "with sign + whenever n.p <> 0 (C09_rotation_equivariance), also for the whole cloud on the generated compute() when the "
                "kd-tree returns the same indexes for the turned cloud (C09_source_rotation_equivariance). The extracted model also runs "
                "against the implementation on generated clouds (8 point types, same neighbour lists, Gallina Jacobi contract-checked) and "
                "a float64 oracle decides the property text.",
        "note": "Trusted: Coq kernel, real-number axioms, the translator's reading of the clang AST and of Eigen's reductions (above), "
                "Eigen's solver (contract assumed in theorems, observed through the oracle), the kd-tree as an abstract function returning "
                "k indexes (C08 is about the search), extraction, harness, oracle. Float rounding observed, not proved; the tie is by "
                "computation, so a re-association of the floating-point sums in the source breaks it (it changes the float result). "
                "Not proved: equality of the two neighbour index lists under rotation (distance ties), full spectrum / reliability equivariance.",
        "technique": "Coq proof (linear algebra over R under an eigen-decomposition contract) + source translator with tie lemmas for "
                     "every numeric dictionary (loops as folds, pointwise loop invariant) + extracted-model correspondence",
    },
    "assumptions": ["SelfAdjointEigenSolver meets its contract (V orthogonal, eigenvalues ascending, C = V diag V^T)",
                    "the k nearest neighbours include the point itself (as the code does)",
                    "tolerances: normals 1e-7 (double) / 1e-3 (float) + 32 eps cond / gap where the relative eigen-gap > 1e-6"],
    "run_timeout": 1500,
}
