"""C16 — sliding-window statistics and ring buffers reflect exactly the last W items."""
from fractions import Fraction
import math
from vcommon import hexf

PRECISIONS = [1.0, 0.5, 0.25, 0.1, 0.01, 1e-3, 1e-4, 1e-5, 1e-6]


def gen_stats(rng, n, kind):
    cases = []
    for _ in range(n):
        W = rng.choice([1, 2, 3, 4, 5, 7, 8, 16, 31, 32, 33, 63, 64]) if rng.random() < 0.6 else rng.randint(1, 64)
        if kind == "var" and W < 2:
            W = 2
        prec = rng.choice(PRECISIONS)
        m = int(1 / prec)
        length = rng.randint(0, min(10 * W, 120 if W > 12 else 10 * W))
        big = rng.random() < 0.3
        ops = []
        since = 0
        for _ in range(length):
            r = rng.random()
            # resets at every phase of the window: just before full, just after full, after roll-over
            if r < 0.04 or (since in (W - 1, W, W + 1, 2 * W + 1) and rng.random() < 0.25):
                ops.append("R")
                since = 0
                continue
            mag = 1e8 if big else rng.choice([10, 1000, 1e6])
            k = rng.randint(-int(mag), int(mag))
            if rng.random() < 0.25 and (m & (m - 1)) == 0:
                v = k / m                       # exactly representable product: truncation is exact
            else:
                v = (k + rng.uniform(0.1, 0.9)) / m     # stays away from integer products
            ops.append("U:" + hexf(v))
            since += 1
        # a quarter of the objects are configured through the one-argument constructor + setWindowSize(W)
        cases.append("%s%s %s %d %s" % (kind, "2" if rng.random() < 0.25 else "", hexf(prec), W, " ".join(ops)))
    return cases


def gen_ring(rng, n):
    cases = []
    for _ in range(n):
        cap = rng.randint(1, 16)
        ops = []
        for i in range(rng.randint(0, 5 * cap + 3)):
            if rng.random() < 0.07:
                ops.append("C")
            else:
                ops.append("A:%d" % rng.randint(-10**6, 10**6))
        cases.append("ring %d %s" % (cap, " ".join(ops)))
    # bounded-exhaustive on the shape: every capacity 1..16, every number of appends up to 3*cap+1, clear at every phase
    for cap in range(1, 17):
        for pre in (0, 1, cap - 1, cap, cap + 1, 2 * cap + 1):
            if pre < 0:
                continue
            ops = ["A:%d" % (i + 1) for i in range(pre)] + ["C"] + ["A:%d" % (100 + i) for i in range(2 * cap + 2)]
            cases.append("ring %d %s" % (cap, " ".join(ops)))
        cases.append("ring %d %s" % (cap, " ".join("A:%d" % (i + 1) for i in range(3 * cap + 1))))
    return cases


def gen_large_then_small(rng, n):
    """samples at the top of the domain (|value|/precision close to 1e8: the window's sum of squares exceeds 2^53), then at
    least W small samples that replace them completely: an accumulator that is not an exact integer keeps a residue of the
    samples that have left the window (no accumulated drift is a clause of the property)"""
    cases = []
    for _ in range(n):
        kind = rng.choice(["var", "var", "avg"])
        W = rng.choice([2, 3, 5, 8, 16, 33, 64])
        prec = rng.choice([1.0, 0.5, 0.25, 0.125, 1.0, 1e-2, 1e-3])
        m = int(1 / prec)
        ops = []
        for _ in range(rng.randint(W, 3 * W)):
            k = rng.randint(99000000, 99999999) * rng.choice([-1, 1, 1])
            ops.append("U:" + hexf((k + (0.5 if (m & (m - 1)) else 0.0)) / m))
        for _ in range(rng.randint(W, 2 * W + 2)):
            k = rng.randint(-9, 9)
            ops.append("U:" + hexf((k + (0.5 if (m & (m - 1)) else 0.0)) / m))
        cases.append("%s %s %d %s" % (kind, hexf(prec), W, " ".join(ops)))
    return cases


def gen(rng, tier):
    big = tier == "thorough"
    return [("large-then-small", gen_large_then_small(rng, 400 if big else 60)),
            ("average", gen_stats(rng, 12000 if big else 1500, "avg")),
            ("variance", gen_stats(rng, 12000 if big else 1500, "var")),
            ("ring", gen_ring(rng, 8000 if big else 800))]


def trunc_choices(v, m):
    """possible values of static_cast<long long>(v*m): the exact truncation, plus the neighbour when the exact
    product is within rounding distance of an integer"""
    p = Fraction(v) * m
    t = int(p) if p >= 0 else -int(-p)
    ch = {t}
    near = round(p)
    if abs(p - near) <= Fraction(1, 10**6) * max(1, abs(near)) * Fraction(1, 10**3):
        fl = float(v) * float(m)
        ch.add(int(fl))
    return ch


def oracle(case, out):
    t = case.split()
    fails = []
    if t[0] in ("avg", "var", "avg2", "var2"):
        t[0] = t[0][:3]
        prec = float.fromhex(t[1])
        W = int(t[2])
        m = int(1 / prec)
        ops = t[3:]
        steps = [s.split() for s in out.split(" ; ")] if ops else []
        if len(steps) != len(ops):
            return [("c16-shape", "expected %d reports, got %d" % (len(ops), len(steps)))]
        hist = []
        for op, st in zip(ops, steps):
            if op == "R":
                hist = []
            else:
                hist.append(float.fromhex(op[2:]))
            avail, avg = st[0], st[1]
            n = len(hist)
            if (avail == "1") != (n >= W):
                fails.append(("c16-availability", "available=%s with %d samples since reset, W=%d" % (avail, n, W)))
            if n == 0:
                continue
            win = hist[-min(n, W):]
            ch = [trunc_choices(v, m) for v in win]
            lo = sum(min(c) for c in ch)
            hi = sum(max(c) for c in ch)
            a = float.fromhex(avg) if avg != "nan" else float("nan")
            elo, ehi = Fraction(lo, m * len(win)), Fraction(hi, m * len(win))
            tol = Fraction(1, 10**12) * max(abs(elo), abs(ehi), Fraction(1, 10**300))
            if a != a or not (elo - tol <= Fraction(a) <= ehi + tol):
                fails.append(("c16-average", "after %d samples since reset (W=%d, precision %g): average %r, expected mean of the "
                              "last %d truncated samples = %r" % (n, W, prec, a, len(win), float(elo))))
            if t[0] == "var" and n >= W and lo == hi:
                ys = [Fraction(min(c), m) for c in ch]
                mean = sum(ys) / len(ys)
                var = sum((y - mean) ** 2 for y in ys) / (len(ys) - 1)
                vv = float.fromhex(st[2]) if st[2] != "nan" else float("nan")
                sq = sum(y * y for y in ys)
                tolv = Fraction(1, 10**9) * var + Fraction(64, 2**52) * sq / max(1, W - 1) + Fraction(1, 10**300)
                if vv != vv or abs(Fraction(vv) - var) > tolv:
                    fails.append(("c16-variance", "W=%d precision %g: variance %r, unbiased sample variance of the window %r"
                                  % (W, prec, vv, float(var))))
    elif t[0] == "ring":
        cap = int(t[1])
        ops = t[2:]
        steps = out.split()
        if len(steps) != len(ops):
            return [("c16-shape", "expected %d reports, got %d" % (len(ops), len(steps)))]
        hist = []
        for op, st in zip(ops, steps):
            if op == "C":
                hist = []
            else:
                hist.append(int(op[2:]))
            size, _, es = st.partition(":")
            exp = list(reversed(hist))[:min(len(hist), cap)]
            got = [e for e in es.split(",") if e != ""]
            if int(size) != len(exp):
                fails.append(("c16-ring-size", "capacity %d after %d appends since clear: size %s expected %d" % (cap, len(hist), size, len(exp))))
            elif got != [str(e) for e in exp]:
                fails.append(("c16-ring-kth", "capacity %d after %d appends since clear: entries %s expected %s (k-th most recent)"
                              % (cap, len(hist), got, exp)))
    return fails[:3]


def nontrivial(case, out):
    t = case.split()
    if t[0] == "ring":
        return len(t) - 2 > int(t[1]) and case      # the ring wrapped
    W = int(t[2])
    ups = sum(1 for o in t[3:] if o != "R")
    return ups > W and case                          # the window rolled over


CHECK = {
    "coq": "Properties_C16",
    "driver": "drv_C16",
    "harness": "C16.cpp",
    "repo_srcs": ["src/monitoring/OnlineAverage.cpp", "src/monitoring/OnlineVariance.cpp"],
    "gen": gen,
    "oracle": oracle,
    "nontrivial": nontrivial,
    "rtol": 1e-12,
    "rule": "histories of update/reset (W in 1..64 incl. powers of two and neighbours, precisions 1..1e-6, length 0..10W, "
            "|value|/precision up to 1e8, resets aimed at window phases W-1, W, W+1, 2W+1) and append/clear on rings of capacity "
            "1..16 (random + every capacity with a clear at every phase); non-trivial = the window / ring rolled over",
    "trusted": ["translate/tr_C16_stats.py (clang JSON AST -> gen/SrcStats.v) and the meaning coq/StatsSem.v gives to size_t / long long / int "
                "arithmetic and std::vector operations", "clang's AST", "extraction (ExtrOcamlBasic), ocaml/numf.ml, ocaml/drv_C16.ml",
                "harness/C16.cpp (reads protected members through derived classes), python oracle in checks/C16.py",
                "Flocq's formalisation of binary64 (rounding to nearest-even, unbounded exponent; every quantity is < 2^64)"],
    "assumptions": ["|value|/precision <= 1e8, W <= 64, precision in [1e-6, 1] (no 64-bit overflow: proved, C16_sums_fit_64_bits and "
                    "inside C16_source_tie_*_history)",
                    "std::vector behaves as a list; locking (std::lock_guard) has no sequential effect (C19)",
                    "double arithmetic of the average is proved in binary64 (one rounding); of the variance bounded (7 roundings); "
                    "the truncation static_cast<long long>(value*multiplier) of a product within rounding distance of an integer is "
                    "observed (oracle accepts both neighbours)"],
    "manifest": {
        "text": "SYNTACTIC TIE: translate/tr_C16_stats.py regenerates on every run, from the clang AST of OnlineAverage.cpp, "
                "OnlineVariance.cpp and RingOfEigenVector.hpp, one Gallina state transformer per member function (constructors incl. "
                "multiplier_ / squaredMultiplier_, setWindowSize, update, reset, isAvailable, getAverage, getVariance; ring ctor, append, "
                "operator[], clear, size) over a record of the data members, with the wrap-around of size_t / long long / int explicit "
                "(coq/gen/SrcStats.v); coq/SrcTieC16.v proves each equal, step for step, to the transition of the model "
                "OnlineStatsModel.v (simulation; side conditions 'fits its C++ type' discharged for EVERY history from W <= 64, "
                "|sample| <= 1e8), so the theorems hold of the code as written (C16_source_tie_*): for every window size, capacity and "
                "history (induction over op lists) the stored window is exactly the last min(n,W) truncated samples since the last "
                "reset, sums are exact over that window (no drift), availability iff W samples, getAverage / getVariance are the mean / "
                "unbiased sample variance over R, ring entry k is the k-th most recent for every capacity (2^64 wrap of both size_t "
                "operations) also after clear, and no partial C++ operation (% windowSize_, data_[index_]) is ever used outside its domain. "
                "The tie holds for every numeric dictionary in which int 1 converts to one and the product commutes (reals, binary64). "
                "FLOAT LEVEL (Flocq, binary64, coq/OnlineStatsFloat.v): multiplier in 1..1e6, truncated "
                "samples bounded, double(sum), double(multiplier), size and multiplier*size exact, so the reported average is the exact "
                "mean rounded ONCE (relative error <= 2^-53, independent of the history length: no drift as a float theorem, also "
                "stated about the generated code); variance within 2^-53(7A+9B)/(W-1)+3*2^-1075 of the exact unbiased variance "
                "(A = sum y^2, B = W mean^2). The extracted model is additionally run against the real classes on generated histories, "
                "with an independent exact-rational oracle.",
        "note": "Trusted: Coq kernel, stdlib real axioms (theorems over R / binary64 only; the integer and source-tie-to-model theorems are "
                "axiom-free), the translator and StatsSem.v's reading of C++ integer types / std::vector, clang's AST, Flocq's binary64 "
                "(no overflow modelled: all quantities < 2^64), extraction, float dictionary of the executable run, harness, oracle. "
                "Signed overflow is modelled as two's-complement wrap and proved absent under the property's bounds; float->int "
                "conversions out of range (UB) are outside the bounds.",
        "technique": "Coq proof (ring-buffer invariant by induction over histories, refinement to 'last W items') tied to the source by "
                     "AST translation of the member functions + simulation lemmas; Flocq forward error analysis in binary64; "
                     "extracted-model correspondence run",
    },
}
