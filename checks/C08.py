"""C08 — kd-tree nearest-neighbour queries agree with exhaustive search."""
import atexit
import hashlib
import math
import os
import shutil
import tempfile
from fractions import Fraction

import numpy as np
from vcommon import hexf

DUMPDIR = tempfile.mkdtemp(prefix="verif-C08-dump-")
atexit.register(lambda: shutil.rmtree(DUMPDIR, ignore_errors=True))
_counter = [0]
STATS = {"trees": 0, "tree_ok_true": 0, "queries": 0, "tie_prone_index_differences": 0,
         "queries_with_exact_ties": 0, "points_max": 0}

ULP = {"f64": 2.0 ** -52, "f32": 2.0 ** -23}


def rnd(x, ty):
    return float(np.float32(x)) if ty == "f32" else float(x)


# ----------------------------------------------------------------------------------------------- generators
def gen_points(rng, n, dim, kind):
    P = []
    if kind == "uniform":
        s = 10.0 ** rng.randint(-2, 3)
        c = [rng.uniform(-s, s) * rng.choice([0, 1, 10]) for _ in range(dim)]
        P = [[c[d] + rng.uniform(-s, s) for d in range(dim)] for _ in range(n)]
    elif kind == "clustered":
        nc = rng.randint(1, 6)
        cs = [[rng.uniform(-100, 100) for _ in range(dim)] for _ in range(nc)]
        sg = [10.0 ** rng.uniform(-3, 1) for _ in range(nc)]
        for _ in range(n):
            j = rng.randrange(nc)
            P.append([cs[j][d] + rng.gauss(0, sg[j]) for d in range(dim)])
    elif kind == "collinear":
        a = [rng.uniform(-10, 10) for _ in range(dim)]
        u = [rng.choice([0.0, 1.0, -2.0, rng.uniform(-1, 1)]) for _ in range(dim)]
        if not any(u):
            u[0] = 1.0
        integer = rng.random() < 0.5
        for _ in range(n):
            t = float(rng.randint(-40, 40)) if integer else rng.uniform(-50, 50)
            P.append([a[d] + t * u[d] for d in range(dim)])
    elif kind == "coplanar":
        a = [rng.uniform(-10, 10) for _ in range(dim)]
        u = [rng.uniform(-1, 1) for _ in range(dim)]
        v = [rng.uniform(-1, 1) for _ in range(dim)]
        axis = rng.random() < 0.4      # axis-aligned plane: one coordinate constant
        for _ in range(n):
            s, t = rng.uniform(-30, 30), rng.uniform(-30, 30)
            p = [a[d] + s * u[d] + t * v[d] for d in range(dim)]
            if axis:
                p[dim - 1] = a[dim - 1]
            P.append(p)
    elif kind == "duplicates":
        m = rng.randint(1, max(1, min(n, 12)))
        base = [[rng.uniform(-20, 20) for _ in range(dim)] for _ in range(m)]
        P = [list(rng.choice(base)) for _ in range(n)]
    elif kind == "offset":        # projected map coordinates: a huge common offset, metre-scale spacing (the split
        # planes are not representable in a narrower type; every bit of the coordinates matters for pruning)
        off = [rng.choice([1e5, 1e6, 1e7]) * rng.choice([1, -1]) + rng.uniform(-1e3, 1e3) for _ in range(dim)]
        sp = 10.0 ** rng.uniform(-1, 1)
        P = [[off[d] + rng.uniform(-sp, sp) * rng.choice([1, 1, 5]) for d in range(dim)] for _ in range(n)]
    elif kind == "lattice":       # small integer coordinates: many exact ties, all float arithmetic exact
        w = rng.randint(1, 6)
        P = [[float(rng.randint(-w, w)) for _ in range(dim)] for _ in range(n)]
    elif kind == "grid":          # regular grid in scan order (ties between grid neighbours)
        side = max(1, int(round(n ** (1.0 / dim))))
        h = rng.choice([1.0, 0.5, 0.25])
        P = []
        i = 0
        while len(P) < n:
            c, j = [], i
            for _ in range(dim):
                c.append(h * (j % side))
                j //= side
            P.append(c)
            i += 1
    return P


def gen_queries(rng, P, dim, n, nq, kind):
    lo = [min(p[d] for p in P) for d in range(dim)]
    hi = [max(p[d] for p in P) for d in range(dim)]
    out = []
    for _ in range(nq):
        r = rng.random()
        if r < 0.3:
            q = [rng.uniform(lo[d], hi[d]) for d in range(dim)]
        elif r < 0.45:
            q = list(rng.choice(P))                       # exactly a data point
        elif r < 0.6:                                     # far outside (all or some dimensions)
            span = max(1.0, max(hi[d] - lo[d] for d in range(dim)))
            f = 10.0 ** rng.randint(1, 4)
            q = [rng.choice([lo[d] - f * span * rng.random(), hi[d] + f * span * rng.random(),
                             rng.uniform(lo[d], hi[d])]) for d in range(dim)]
        elif r < 0.75:                                    # just outside / on the box border
            q = [rng.choice([lo[d], hi[d], rng.uniform(lo[d], hi[d])]) for d in range(dim)]
        elif r < 0.9:                                     # midway between two data points (tie candidates)
            a, b = rng.choice(P), rng.choice(P)
            q = [(a[d] + b[d]) / 2 for d in range(dim)]
        else:
            q = [float(round(rng.uniform(lo[d] - 2, hi[d] + 2))) for d in range(dim)]
        kmax = min(n, 50)
        kr = rng.random()
        if kr < 0.25:
            mode, k = "n", 1
        elif kr < 0.35:
            mode, k = "k", 1
        elif kr < 0.5:
            mode, k = "k", kmax
        else:
            mode, k = "k", rng.randint(1, kmax)
        out.append((mode, k, q))
    return out


def make_case(rng, n, dim, ty, hom, kind, nq):
    P = [[rnd(x, ty) for x in p] for p in gen_points(rng, n, dim, kind)]
    Q = gen_queries(rng, P, dim, n, nq, kind)
    _counter[0] += 1
    dump = os.path.join(DUMPDIR, "t%d.tree" % _counter[0])
    toks = ["kd", ty, str(dim), "1" if hom else "0", str(n), dump]
    for p in P:
        toks += [hexf(x) for x in p]
    toks.append(str(len(Q)))
    for mode, k, q in Q:
        toks += [mode, str(k)] + [hexf(rnd(x, ty)) for x in q]
    return " ".join(toks)


KINDS = ["uniform", "clustered", "collinear", "coplanar", "duplicates", "lattice", "grid", "offset"]


def gen(rng, tier):
    big = tier == "thorough"
    groups = []
    # every point type x every distribution at small / medium sizes
    cases = []
    for ty in ("f64", "f32"):
        for dim in (2, 3):
            for hom in (False, True):
                for kind in KINDS:
                    for rep in range(8 if big else 2):
                        n = rng.choice([rng.randint(1, 10), rng.randint(11, 40), rng.randint(41, 600)])
                        cases.append(make_case(rng, n, dim, ty, hom, kind, 10))
    groups.append(("all-types-all-distributions", cases))
    # sizes around the leaf size (10) and tiny sets
    cases = []
    for n in list(range(1, 14)) + [20, 21, 22]:
        for _ in range(2 if big else 1):
            cases.append(make_case(rng, n, rng.choice([2, 3]), rng.choice(["f64", "f32"]), rng.random() < 0.5,
                                   rng.choice(KINDS), 8))
    groups.append(("tiny-and-leaf-size", cases))
    # larger sets
    cases = []
    for _ in range(120 if big else 12):
        n = rng.randint(600, 5000) if big else rng.randint(200, 600)
        cases.append(make_case(rng, n, rng.choice([2, 3]), rng.choice(["f64", "f32"]), rng.random() < 0.5,
                               rng.choice(KINDS), 25 if big else 12))
    groups.append(("large", cases))
    return groups


# ----------------------------------------------------------------------------------------------- parsing
def parse_case(case):
    t = case.split()
    ty, dim, hom, n = t[1], int(t[2]), t[3] == "1", int(t[4])
    at = 6
    P = [[float.fromhex(t[at + i * dim + d]) for d in range(dim)] for i in range(n)]
    at += n * dim
    nq = int(t[at])
    at += 1
    Q = []
    for _ in range(nq):
        Q.append((t[at], int(t[at + 1]), [float.fromhex(x) for x in t[at + 2: at + 2 + dim]]))
        at += 2 + dim
    return ty, dim, hom, n, P, Q


def parse_out(line):
    """-> (flag or None, [ [(idx, dist), ...] per query ])"""
    toks = line.split()
    flag = None
    if toks and toks[0] in ("T0", "T1"):
        flag = toks[0]
        toks = toks[1:]
    res = []
    cur = None
    vals = []
    for x in toks:
        if x == "Q":
            if cur is not None:
                res.append(cur)
            cur = []
            vals = []
        else:
            if cur is None:
                raise ValueError("token before Q")
            vals.append(x)
            if len(vals) == 2:
                cur.append((int(vals[0]), float.fromhex(vals[1]) if "x" in vals[1] else float(vals[1])))
                vals = []
    if cur is not None:
        res.append(cur)
    return flag, res


# ----------------------------------------------------------------------------------------------- oracle
def exact_sqdists(P, q):
    """exact squared distances as integers scaled by 2^(2s) (coordinates are dyadic rationals)"""
    s = 0
    for v in q:
        s = max(s, Fraction(v).denominator.bit_length() - 1)
    for p in P:
        for v in p:
            d = Fraction(v).denominator
            if d > 1:
                s = max(s, d.bit_length() - 1)
    sc = 1 << s
    qi = [int(Fraction(v) * sc) for v in q]
    E = []
    for p in P:
        a = 0
        for d, v in enumerate(p):
            x = int(Fraction(v) * sc) - qi[d]
            a += x * x
        E.append(a)
    return E, sc * sc


def oracle(case, out):
    try:
        ty, dim, hom, n, P, Q = parse_case(case)
        flag, res = parse_out(out)
    except Exception as e:  # noqa
        return [("c08-shape", "unparsable output %r (%s)" % (out[:80], e))]
    fails = []
    if len(res) != len(Q):
        return [("c08-shape", "expected %d query results, got %d" % (len(Q), len(res)))]
    t = 4 * ULP[ty]
    tf = Fraction(t)
    STATS["points_max"] = max(STATS["points_max"], n)
    for (mode, k, q), r in zip(Q, res):
        STATS["queries"] += 1
        if len(r) != k:
            fails.append(("c08-count", "query %s k=%d: %d results" % (q, k, len(r))))
            continue
        E, sc2 = exact_sqdists(P, q)
        Es = sorted(E)
        if k < n and Es[k - 1] == Es[k] or any(Es[j] == Es[j + 1] for j in range(k - 1)):
            STATS["queries_with_exact_ties"] += 1
        idxs = [i for i, _ in r]
        if any(i < 0 or i >= n for i in idxs):
            fails.append(("c08-index-range", "query %s k=%d: index out of range in %s" % (q, k, idxs)))
            continue
        if len(set(idxs)) != k:
            fails.append(("c08-index-distinct", "query %s k=%d: repeated index in %s" % (q, k, idxs)))
        for j, (i, d) in enumerate(r):
            Dj = Fraction(E[i], sc2)
            if not (d == d) or abs(Fraction(d) - Dj) > tf * Dj:
                fails.append(("c08-distance-of-index", "query %s: reported sqdist %r for index %d, exact %.17g"
                              % (q, d, i, float(Dj))))
            Ej = Fraction(Es[j], sc2)
            if abs(Dj - Ej) > 4 * tf * Ej:
                key = "c08-nearest" if k == 1 else "c08-k-smallest"
                fails.append((key, "query %s k=%d (%s, %dD, n=%d): result %d is index %d at exact sqdist %.17g but the "
                              "%d-th smallest sqdist over all points is %.17g"
                              % (q, k, ty + ("h" if hom else "c"), dim, n, j, i, float(Dj), j + 1, float(Ej))))
                break
            if j > 0 and r[j - 1][1] > d:
                fails.append(("c08-ascending", "query %s k=%d: distances not ascending at %d" % (q, k, j)))
    return fails[:5]


# ----------------------------------------------------------------------------------------------- correspondence
def compare(case, il, ml):
    try:
        ty = case.split(None, 2)[1]
        _, ri = parse_out(il)
        flag, rm = parse_out(ml)
    except Exception as e:  # noqa
        return "unparsable (%s): impl %r model %r" % (e, il[:60], ml[:60])
    STATS["trees"] += 1
    if flag != "T1":
        return "extracted tree_ok_b is false on the dumped tree (model line starts %r)" % ml[:40]
    STATS["tree_ok_true"] += 1
    if len(ri) != len(rm):
        return "query count %d vs %d" % (len(ri), len(rm))
    t = 4 * ULP[ty]
    for qn, (a, b) in enumerate(zip(ri, rm)):
        if len(a) != len(b):
            return "query %d: %d vs %d results" % (qn, len(a), len(b))
        for j, ((ia, da), (ib, db)) in enumerate(zip(a, b)):
            if not abs(da - db) <= t * max(abs(da), abs(db)):
                return "query %d result %d: sqdist impl %r model %r" % (qn, j, da, db)
            if ia != ib:
                near = [a[x][1] for x in (j - 1, j + 1) if 0 <= x < len(a)]
                tie = j == len(a) - 1 or any(abs(da - y) <= t * max(abs(da), abs(y)) for y in near)
                if not tie:
                    return "query %d result %d: index impl %d model %d (distances separated)" % (qn, j, ia, ib)
                STATS["tie_prone_index_differences"] += 1
    return None


def nontrivial(case, il):
    head = case.split(None, 6)
    n = int(head[4])
    return n > 10 and hashlib.md5(case.encode()).hexdigest()     # the tree has at least one inner node


CHECK = {
    "coq": "Properties_C08",
    "driver": "drv_C08",
    "harness": "C08.cpp",
    "repo_srcs": ["src/pointset/KdTree.cpp"],
    "gen": gen,
    "oracle": oracle,
    "compare": compare,
    "nontrivial": nontrivial,
    "coverage_extra": lambda: {"kdtree": dict(STATS)},
    "rule": "one case = one point set (1..5000 points; uniform / clustered / collinear / coplanar / duplicates / integer "
            "lattice / regular grid; 2D,3D; float,double; Cartesian,homogeneous) with 8-25 queries (inside, on a data "
            "point, far outside, on the box border, midway between two points, integer) and k in 1..min(n,50) through "
            "findNearestNeighbor / findNearestNeighbors; non-trivial = more than 10 points (the tree has inner nodes)",
    "trusted": ["hand-written model coq/KdTreeModel.v of the nanoflann search, tied by differential execution on the real "
                "tree dumped from the index (this run)",
                "the tree BUILD is not modelled: the extracted checker tree_ok_b is evaluated on every dumped tree (count in "
                "coverage.kdtree) and its soundness w.r.t. the hypothesis tree_ok of the theorems is proved (tree_ok_b_sound)",
                "harness-side derived class reading nanoflann's protected root_node / vind / root_bbox",
                "translator translate/constants.py (SearchParams eps default)",
                "extraction (ExtrOcamlBasic), ocaml/numf.ml, ocaml/drv_C08.ml, harness/C08.cpp, python oracle (exact integer "
                "brute force) in checks/C08.py"],
    "manifest": {
        "text": "Proved in Coq over the reals for every tree meeting the node invariant, every query and every k>=1: the "
                "KNNResultSet keeps the min(count,k) smallest offered distances in ascending order; searchLevel's mindistsq "
                "is a lower bound of the squared distance to every point under the node; the search returns exactly the k "
                "smallest squared distances, ascending, each with an index at that distance (k=1: a nearest point). The model "
                "is run on the real dumped tree of every generated point set against the implementation, the node invariant is "
                "checked on that tree by an extracted checker, and an exact-arithmetic brute force decides the property on the "
                "implementation's outputs.",
        "note": "Trusted: Coq kernel, real-number axioms of the standard library, hand-written model tied by differential "
                "execution, extraction, harness, oracle. The tree build is checked per case, not proved. Float rounding is "
                "observed (distance tolerance 4 ulp; rank tolerance 16 ulp), not proved.",
        "technique": "Coq proof (induction over the tree, result-set invariant) + extracted-model correspondence on dumped trees",
    },
    "assumptions": ["squared distances are below numeric_limits::max() (no overflow): hypothesis of the theorems",
                    "homogeneous points carry w = 1 (as the property states)"],
    "run_timeout": 1500,
}
