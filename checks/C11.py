"""C11 — pose and twist conversions keep means and covariances consistent."""
import math
import numpy as np
from mpmath import mp, mpf, matrix as mpm
from vcommon import hexf, parse_num

mp.dps = 40
TWO_PI = 2 * mp.pi
SEL = [0, 1, 5]
GIMBAL = 1e-3


def nums(line):
    return [parse_num(t) for t in line.split()]


def rx(a):
    c, s = mp.cos(a), mp.sin(a)
    return mpm([[1, 0, 0], [0, c, -s], [0, s, c]])


def ry(a):
    c, s = mp.cos(a), mp.sin(a)
    return mpm([[c, 0, s], [0, 1, 0], [-s, 0, c]])


def rz(a):
    c, s = mp.cos(a), mp.sin(a)
    return mpm([[c, -s, 0], [s, c, 0], [0, 0, 1]])


def rzyx(e):
    return rz(mpf(e[2])) * ry(mpf(e[1])) * rx(mpf(e[0]))


def mat3(v):
    return mpm([[mpf(v[0]), mpf(v[1]), mpf(v[2])], [mpf(v[3]), mpf(v[4]), mpf(v[5])], [mpf(v[6]), mpf(v[7]), mpf(v[8])]])


def mdiff(a, b):
    return max(abs(a[i, j] - b[i, j]) for i in range(a.rows) for j in range(a.cols))


def wrap(d):
    return d - TWO_PI * mp.nint(d / TWO_PI)


def rand_rotation(rng):
    q = [rng.gauss(0, 1) for _ in range(4)]
    n = math.sqrt(sum(c * c for c in q))
    w, x, y, z = [mpf(c / n) for c in q]
    nn = mp.sqrt(w * w + x * x + y * y + z * z)
    w, x, y, z = w / nn, x / nn, y / nn, z / nn
    return mpm([[1 - 2 * (y * y + z * z), 2 * (x * y - z * w), 2 * (x * z + y * w)],
                [2 * (x * y + z * w), 1 - 2 * (x * x + z * z), 2 * (y * z - x * w)],
                [2 * (x * z - y * w), 2 * (y * z + x * w), 1 - 2 * (x * x + y * y)]])


def rand_transform(rng):
    r = rng.random()
    if r < 0.15:
        rot = mp.eye(3)
    elif r < 0.3:
        rot = rz(mpf(rng.uniform(-3.1, 3.1)))
    else:
        rot = rand_rotation(rng)
    tr = [0.0, 0.0, 0.0] if (r < 0.15 or rng.random() < 0.1) else [rng.uniform(-1, 1) * 10 ** rng.uniform(-1, 4) for _ in range(3)]
    return rot, tr


def rand_angles(rng):
    lim = math.pi / 2 - GIMBAL
    r = rng.random()
    if r < 0.1:
        pitch = rng.choice([-1, 1]) * (lim - abs(rng.gauss(0, 1e-3)))
    elif r < 0.2:
        pitch = rng.choice([0.0, lim, -lim])
    else:
        pitch = rng.uniform(-lim, lim)
    pitch = max(-lim, min(lim, pitch))

    def ang():
        if rng.random() < 0.15:
            return rng.choice([0.0, math.pi / 2, -math.pi / 2, math.pi, -math.pi])
        return rng.uniform(-math.pi, math.pi)
    return [ang(), pitch, ang()]


def rand_psd(rng, n):
    r = rng.random()
    rank = n if r < 0.55 else rng.randint(0, n - 1)
    b = np.array([[rng.gauss(0, 1) for _ in range(max(rank, 1))] for _ in range(n)])
    if rank == 0:
        b = b * 0
    d = np.array([10 ** rng.uniform(-2, 2) for _ in range(b.shape[1])])
    c = (b * d) @ b.T * 10 ** rng.uniform(-4, 3)
    return (c + c.T) / 2


def rand_cov2(rng):
    """symmetric PSD 2x2, condition number < 1e8, including rank 1, rank 0, isotropic, axis aligned"""
    r = rng.random()
    s0 = 10 ** rng.uniform(-6, 4)
    if rng.random() < 0.15:
        # exactly diagonal (uncorrelated x and y), either axis the larger one, also rank deficient: cos(pi/2) is not 0
        # in floating point, so the rotated form below never produces var_y > var_x with exactly zero covariance
        s1 = rng.choice([0.0, s0, s0 * 10 ** rng.uniform(-7.9, 0)])
        return [s1, 0.0, 0.0, s0] if rng.random() < 0.6 else [s0, 0.0, 0.0, s1]
    if r < 0.15:
        s1 = 0.0
    elif r < 0.2:
        s0 = s1 = 0.0
    elif r < 0.3:
        s1 = s0
    else:
        s1 = s0 * 10 ** rng.uniform(-7.9, 0)
    th = rng.choice([0.0, math.pi / 2, math.pi / 4, -math.pi / 4, 3.0]) if rng.random() < 0.3 else rng.uniform(-math.pi, math.pi)
    c, s = math.cos(th), math.sin(th)
    a = c * c * s0 + s * s * s1
    b = c * s * (s0 - s1)
    d = s * s * s0 + c * c * s1
    return [a, b, b, d]


# ------------------------------------------------------------------------------------------ generators
def gen(rng, tier):
    big = tier == "thorough"
    k = 8 if big else 1
    groups = []
    red = []
    for n in range(150 * k):
        comp = lambda: rng.uniform(-1, 1) * 10 ** rng.uniform(-2, 4)   # noqa: E731
        pos, lin, angv = [comp() for _ in range(3)], [comp() for _ in range(3)], [comp() for _ in range(3)]
        ori = rand_angles(rng)
        if n % 3 == 0:    # arbitrary (non-symmetric) matrices with all-distinct entries: which entries are kept?
            c1 = np.array([[rng.uniform(-1e4, 1e4) for _ in range(6)] for _ in range(6)])
            c2 = np.arange(1, 37, dtype=float).reshape(6, 6) * rng.choice([1.0, -0.5, 1e-3])
        else:
            c1, c2 = rand_psd(rng, 6), rand_psd(rng, 6)
        red.append("red " + " ".join(hexf(float(v)) for v in pos + ori + list(c1.flatten()) + lin + angv + list(c2.flatten())))
    groups.append(("reductions", red))
    act = []
    n = 0
    while n < 200 * k:
        ra, ta = rand_transform(rng)
        rb, tb = rand_transform(rng)
        ori = rand_angles(rng)
        pos = [rng.uniform(-1, 1) * 10 ** rng.uniform(-1, 4) for _ in range(3)]
        m1 = ra * rzyx(ori)
        m2 = rb * m1
        lim = math.cos(GIMBAL)
        if abs(m1[2, 0]) > lim or abs(m2[2, 0]) > lim:
            continue
        la = [float(ra[i, j]) for i in range(3) for j in range(3)]
        lb = [float(rb[i, j]) for i in range(3) for j in range(3)]
        act.append("act " + " ".join(hexf(float(v)) for v in la + ta + lb + tb + pos + ori))
        n += 1
    groups.append(("SE(3) action", act))
    ell = []
    for _ in range(300 * k):
        c = rand_cov2(rng)
        sigma = rng.choice([1.0, 2.0, 3.0, 10.0, 1e-3]) if rng.random() < 0.4 else rng.uniform(1e-3, 10.0)
        ell.append("ell " + " ".join(hexf(float(v)) for v in c + [sigma, rng.uniform(-1e4, 1e4), rng.uniform(-1e4, 1e4)]))
    groups.append(("ellipse", ell))
    return groups


# ------------------------------------------------------------------------------------------ oracle
def check_red2(fails, name, got, x, y, w, cov6):
    if got[0] != x or got[1] != y or got[2] != w:
        fails.append(("c11-reduction-mean", "%s: mean (%r,%r,%r) is not the planar part (%r,%r,%r)" % (name, got[0], got[1], got[2], x, y, w)))
    for i in range(3):
        for j in range(3):
            if got[3 + 3 * i + j] != cov6[SEL[i]][SEL[j]]:
                fails.append(("c11-reduction-covariance", "%s: covariance(%d,%d) = %r is not C(%d,%d) = %r"
                              % (name, i, j, got[3 + 3 * i + j], SEL[i], SEL[j], cov6[SEL[i]][SEL[j]])))
                return


def sym_psd_kept(fails, name, src, dst):
    src, dst = np.array(src), np.array(dst)
    scale = np.max(np.abs(src)) + 1e-300
    if np.max(np.abs(src - src.T)) == 0:
        if np.max(np.abs(dst - dst.T)) != 0:
            fails.append(("c11-symmetry", "%s: symmetric input, asymmetric output" % name))
        elif np.min(np.linalg.eigvalsh(src)) >= -1e-12 * scale and np.min(np.linalg.eigvalsh(dst)) < -1e-9 * scale:
            fails.append(("c11-psd", "%s: PSD input, output eigenvalue %g" % (name, np.min(np.linalg.eigvalsh(dst)))))


def oracle_red(a, o):
    fails = []
    if len(o) != 105:
        return [("c11-shape", "red: %d tokens" % len(o))]
    pos, ori = a[0:3], a[3:6]
    c1 = [a[6 + 6 * i:12 + 6 * i] for i in range(6)]
    lin, ang = a[42:45], a[45:48]
    c2 = [a[48 + 6 * i:54 + 6 * i] for i in range(6)]
    check_red2(fails, "toPose2D", o[0:12], pos[0], pos[1], ori[2], c1)
    if o[12:15] != pos or any(o[15 + 3 * i + j] != c1[i][j] for i in range(3) for j in range(3)):
        fails.append(("c11-position3d", "toPosition3D does not keep position and covariance.block<3,3>(0,0)"))
    check_red2(fails, "toTwist2D", o[24:36], lin[0], lin[1], ang[2], c2)
    check_red2(fails, "toPoseAndTwist2D.pose", o[36:48], pos[0], pos[1], ori[2], c1)
    check_red2(fails, "toPoseAndTwist2D.twist", o[48:60], lin[0], lin[1], ang[2], c2)
    c3 = [o[60 + 6 * i:66 + 6 * i] for i in range(6)]
    back = [o[96 + 3 * i:99 + 3 * i] for i in range(3)]
    red = [o[3 + 3 * i:6 + 3 * i] for i in range(3)]
    for i in range(6):
        for j in range(6):
            exp = red[SEL.index(i)][SEL.index(j)] if (i in SEL and j in SEL) else 0.0
            if c3[i][j] != exp:
                fails.append(("c11-embedding", "toSe3Covariance(%d,%d) = %r expected %r" % (i, j, c3[i][j], exp)))
                break
    if back != red:
        fails.append(("c11-embed-reduce", "toSe2Covariance(toSe3Covariance(c)) differs from c"))
    sym_psd_kept(fails, "toSe2Covariance", c1, red)
    sym_psd_kept(fails, "toSe3Covariance", red, c3)
    sym_psd_kept(fails, "toPosition3D", c1, [o[15 + 3 * i:18 + 3 * i] for i in range(3)])
    return fails


def oracle_act(a, o):
    fails = []
    if len(o) != 18:
        return [("c11-shape", "act: %d tokens" % len(o))]
    ra, ta = mat3(a[0:9]), mpm([mpf(v) for v in a[9:12]])
    rb, tb = mat3(a[12:21]), mpm([mpf(v) for v in a[21:24]])
    pos, ori = mpm([mpf(v) for v in a[24:27]]), a[27:30]
    scale = 1 + max(abs(v) for v in a[24:27]) + max(abs(v) for v in a[9:12]) + max(abs(v) for v in a[21:24])
    # SE(3) action: position R*p+T, attitude (as a rotation) R*Rzyx(angles)
    p1 = ra * pos + ta
    m1 = ra * rzyx(ori)
    amp1 = 1 / mp.sqrt(max(mpf(1e-12), 1 - m1[2, 0] ** 2))
    if max(abs(mpf(o[i]) - p1[i]) for i in range(3)) > 1e-12 * scale:
        fails.append(("c11-action-position", "position of A*p is not R*p+T (off by %s)" % mp.nstr(max(abs(mpf(o[i]) - p1[i]) for i in range(3)), 5)))
    if mdiff(rzyx(o[3:6]), m1) > 1e-12 * amp1:
        fails.append(("c11-action-attitude", "attitude of A*p is not R*R(angles) as a rotation (off by %s)" % mp.nstr(mdiff(rzyx(o[3:6]), m1), 5)))
    if mdiff(ra, mp.eye(3)) == 0 and max(abs(v) for v in a[9:12]) == 0:
        if o[0:3] != a[24:27] or max(abs(wrap(mpf(o[3 + i]) - mpf(ori[i]))) for i in range(3)) > 1e-12 * amp1:
            fails.append(("c11-action-identity", "the identity transform changed the pose mean: %r -> %r" % (a[24:30], o[0:6])))
    # composition: B*(A*p) = (B*A)*p
    m2 = rb * m1
    amp2 = 1 / mp.sqrt(max(mpf(1e-12), 1 - m2[2, 0] ** 2))
    s2 = scale + float(max(abs(p1[i]) for i in range(3)))
    if max(abs(o[6 + i] - o[12 + i]) for i in range(3)) > 1e-11 * s2:
        fails.append(("c11-action-compose-position", "B*(A*p) and (B*A)*p positions differ by %g" % max(abs(o[6 + i] - o[12 + i]) for i in range(3))))
    if mdiff(rzyx(o[9:12]), rzyx(o[15:18])) > 1e-11 * amp1 * amp2:
        fails.append(("c11-action-compose-attitude", "B*(A*p) and (B*A)*p attitudes differ as rotations by %s" % mp.nstr(mdiff(rzyx(o[9:12]), rzyx(o[15:18])), 5)))
    if mdiff(rzyx(o[9:12]), m2) > 1e-11 * amp1 * amp2:
        fails.append(("c11-action-compose-attitude", "attitude of B*(A*p) is not R'*R*R(angles) (off by %s)" % mp.nstr(mdiff(rzyx(o[9:12]), m2), 5)))
    return fails


def oracle_ell(a, o):
    fails = []
    if len(o) != 10:
        return [("c11-shape", "ell: %d tokens" % len(o))]
    cov = [[mpf(a[0]), mpf(a[1])], [mpf(a[2]), mpf(a[3])]]
    sigma = mpf(a[4])
    cmax = max(abs(mpf(v)) for v in a[0:4])
    for off, name in ((0, "uncertaintyEllipse(Position2D)"), (5, "uncertaintyEllipse(Pose2D)")):
        cx, cy, th, mj, mn = o[off:off + 5]
        if cx != a[5] or cy != a[6]:
            fails.append(("c11-ellipse-centre", "%s: centre moved" % name))
        if not (mj >= mn >= 0):
            fails.append(("c11-ellipse-radii", "%s: major %r, minor %r violate major >= minor >= 0" % (name, mj, mn)))
            continue
        c, s = mp.cos(mpf(th)), mp.sin(mpf(th))
        m2, n2 = mpf(mj) ** 2 / sigma ** 2, mpf(mn) ** 2 / sigma ** 2
        rec = [[c * c * m2 + s * s * n2, c * s * (m2 - n2)], [c * s * (m2 - n2), s * s * m2 + c * c * n2]]
        e = max(abs(rec[i][j] - cov[i][j]) for i in range(2) for j in range(2))
        if e > 1e-9 * cmax + mpf(1e-300):
            fails.append(("c11-ellipse-reconstruct", "%s: R*diag(major^2,minor^2)*R^T/sigma^2 differs from the covariance by %s (max entry %s)"
                          % (name, mp.nstr(e, 5), mp.nstr(cmax, 5))))
    return fails


def oracle(case, out):
    t = case.split()
    if out.strip() in ("none", "?", "contract"):
        return [("c11-nonfinite", "no finite result inside the property's domain (%s)" % out.strip())]
    o = nums(out)
    if any(v is None for v in o):
        return [("c11-shape", "unparsable output")]
    a = [float.fromhex(x) for x in t[1:]]
    if t[0] == "red":
        return oracle_red(a, o)
    if t[0] == "act":
        return oracle_act(a, o)
    if t[0] == "ell":
        return oracle_ell(a, o)
    return [("c11-shape", "unknown case kind")]


# ------------------------------------------------------------------------------------------ correspondence
def compare(case, il, ml):
    t = case.split()
    if il.strip() in ("none", "?") or ml.strip() in ("none", "?", "contract"):
        return None if il.strip() == ml.strip() else "impl %r model %r" % (il[:60], ml[:60])
    a, b = nums(il), nums(ml)
    if len(a) != len(b) or any(v is None for v in a + b):
        return "shape: impl %d tokens, model %d tokens" % (len(a), len(b))
    if t[0] == "red":
        for i, (x, y) in enumerate(zip(a, b)):
            if x != y:      # pure copies
                return "token %d: impl %r model %r" % (i, x, y)
        return None
    if t[0] == "act":
        inp = [float.fromhex(x) for x in t[1:]]
        scale = 1 + max(abs(v) for v in inp[24:27]) + max(abs(v) for v in inp[9:12]) + max(abs(v) for v in inp[21:24]) + max(abs(v) for v in a[0:3])
        for blk in range(3):
            amp = 1 / max(1e-7, abs(math.cos(a[6 * blk + 4]))) * (1 / max(1e-7, abs(math.cos(a[4]))) if blk == 1 else 1.0)
            for i in range(6):
                x, y = a[6 * blk + i], b[6 * blk + i]
                if i < 3:
                    d, lim = abs(x - y), 1e-12 * scale
                else:
                    d, lim = abs(math.remainder(x - y, 2 * math.pi)), 1e-12 * amp
                if not d <= lim:
                    return "token %d: impl %r model %r (|diff| %.3g > %.3g)" % (6 * blk + i, x, y, d, lim)
        return None
    if t[0] == "ell":
        for off in (0, 5):
            if a[off] != b[off] or a[off + 1] != b[off + 1]:
                return "centre differs"
            mj, mn = a[off + 3], a[off + 4]
            if not abs(mj - b[off + 3]) <= 1e-9 * mj + 1e-300:
                return "major: impl %r model %r" % (mj, b[off + 3])
            if not abs(mn - b[off + 4]) <= 1e-7 * mj + 1e-300:
                return "minor: impl %r model %r" % (mn, b[off + 4])
            if mj * mj - mn * mn > 1e-6 * mj * mj:      # orientation is defined (modulo pi) only off the isotropic case
                d = abs(math.remainder(a[off + 2] - b[off + 2], math.pi))
                if not d <= 1e-8 * mj * mj / (mj * mj - mn * mn):
                    return "orientation: impl %r model %r" % (a[off + 2], b[off + 2])
        return None
    return "unknown case"


def nontrivial(case, out):
    return case if out.strip() not in ("none", "?", "contract") else None


CHECK = {
    "coq": "Properties_C11",
    "driver": "drv_C11",
    "harness": "C11.cpp",
    "repo_srcs": ["src/transform/SmartRotation3D.cpp", "src/geometry/Pose3D.cpp", "src/geometry/Pose2D.cpp", "src/geometry/Position2D.cpp",
                  "src/geometry/Position3D.cpp", "src/geometry/Twist3D.cpp", "src/geometry/Twist2D.cpp", "src/geometry/PoseAndTwist3D.cpp",
                  "src/geometry/PoseAndTwist2D.cpp", "src/geometry/Ellipse.cpp"],
    "gen": gen,
    "oracle": oracle,
    "compare": compare,
    "nontrivial": nontrivial,
    "rule": "reductions: components up to 1e4, covariances PSD of rank 0..6 or arbitrary with 36 distinct entries (which entry lands where); "
            "SE(3) action: two random rigid transforms (15% identity, 15% pure yaw, translations up to 1e4) applied to poses up to 1e4 whose "
            "attitude stays 1e-3 rad off gimbal lock before and after each step; ellipse: symmetric PSD 2x2 with condition < 1e8, rank 1 (15%), "
            "zero (5%), isotropic (10%), rotated by special and random angles, sigma in [1e-3, 10]. Non-trivial = distinct case with a finite result.",
    "trusted": ["translator translate/eigensym.py + tr_C11_eigensym.py: clang JSON AST -> entry-wise symbolic values; its reading of the Eigen operations it accepts (coefficient access, Zero/Identity/Unit*, comma-initialiser block placement, * + - unary -, transpose, col/row/block/head, cross); anything else is refused (fail closed)",
                "hand-written model coq/PoseCovModel.v (+ AnglesModel.v) tied by differential execution (this run)",
                "extraction (ExtrOcamlBasic), ocaml/numf.ml, ocaml/drv_C11.ml", "harness/C11.cpp, python/mpmath/numpy oracle in checks/C11.py",
                "Eigen::JacobiSVD of a symmetric PSD 2x2 matrix = eigen-decomposition (contract of the oracle argument, checked on the model side "
                "for its closed-form realisation and on the implementation side by the reconstruction oracle)",
                "Eigen::Transform::rotation() returns the linear part of a rigid transform; Affine3d product = (L'L, L'T+T')"],
    "manifest": {
        "text": "SYNTACTIC TIE: toSe2Covariance / toSe3Covariance (Matrix.hpp templates instantiated at double: Zero(), the block<2,2> copy, the "
                "five element writes) and the value-returning conversions toPose2D(Pose3D), toPosition3D(Pose3D) (src/geometry/Pose3D.cpp) and "
                "toTwist2D(Twist3D) (src/geometry/Twist3D.cpp) and toPoseAndTwist2D(PoseAndTwist3D) (src/geometry/PoseAndTwist3D.cpp, nested "
                "objects) — with the default constructors of Pose2D / Position3D / Twist2D / PoseAndTwist2D and the "
                "two-argument overloads inlined — are regenerated from the clang AST on every run by the symbolic Eigen evaluator "
                "(translate/eigensym.py + tr_C11_eigensym.py -> coq/gen/SrcEigenC11.v) and proved equal to the models of PoseCovModel.v entry by "
                "entry (coq/SrcTieC11.v; C11_source_tie_reductions, C11_source_tie_toPose2D, C11_source_tie_toPosition3D, C11_source_tie_toTwist2D, C11_source_tie_toPoseAndTwist2D); "
                "the mean / attitude part of operator*(Affine3d, Pose3D) is tied under C12 (C12_source_tie_pose_jacobian, C12_source_tie_pose_mean). "
                "Coq: toSe2Covariance selects exactly rows/columns (0,1,5); toSe2Covariance after toSe3Covariance is the identity and the embedding "
                "is zero elsewhere; symmetry and positive semi-definiteness are preserved by both and by the 3x3 position block; the reductions "
                "keep x, y, yaw (vx, vy, yaw rate); the position part of operator*(Affine3d, Pose3D) is the SE(3) action (identity neutral, "
                "composition), the attitude part is R*Rzyx(angles) as a rotation off gimbal lock (identity neutral modulo 2*pi, composition); "
                "the ellipse has major >= minor >= 0 and R*diag(major^2,minor^2)*R^T/sigma^2 reproduces the covariance under the SVD contract "
                "(rank-deficient included). Tie: extracted model vs the real classes, oracle written from the property (exact copies compared "
                "exactly, action and ellipse in mpmath).",
        "note": "Trusted: Coq kernel, standard real-number axioms; the translator's reading of the Eigen operations it accepts and clang's AST; the "
                "parts of the models not listed under SYNTACTIC TIE (the ellipse) are hand transcriptions checked numerically each run; the SVD is an oracle argument "
                "with the eigen-form contract U*diag(s)*U^T = cov, U orthogonal, s0 >= s1 >= 0.",
        "technique": "Coq proof over R (finite sums, ring/nra, atan2 polar lemma) + syntactic source tie (symbolic evaluation of the Eigen matrix code from the clang AST) + extracted-model correspondence run + mpmath oracle",
    },
    "assumptions": ["theorems are over real arithmetic; floating-point behaviour is measured by the correspondence run and the oracle"],
}
