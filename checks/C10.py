"""C10 — angle, rotation and coordinate parametrisations are mutually consistent."""
import math
import numpy as np
from mpmath import mp, mpf, matrix as mpm
from vcommon import hexf, parse_num

mp.dps = 40
PI = mp.pi
TWO_PI = 2 * mp.pi
EPS = {"f64": 2.0 ** -52, "f32": 2.0 ** -23}


def rnd(x, ty):
    return float(np.float32(x)) if ty == "f32" else float(x)


def nxt(x, d, ty):
    if ty == "f32":
        return float(np.nextafter(np.float32(x), np.float32(d)))
    return math.nextafter(x, d)


# ------------------------------------------------------------------------------------------ generators
def special_angles(rng, ty, lim):
    """angles strictly inside (-lim, lim): wrap points, +-1 ulp around them, tiny, random"""
    pts = [0.0, math.pi / 2, math.pi, 3 * math.pi / 2, 2 * math.pi, 3 * math.pi, 1e-9, 1e-3, 1.0]
    out = []
    for p in pts:
        for s in (1, -1):
            v = rnd(s * p, ty)
            for w in (v, nxt(v, math.inf, ty), nxt(v, -math.inf, ty)):
                if -lim < w < lim:
                    out.append(w)
    edge = rnd(lim, ty)
    while edge >= lim:
        edge = nxt(edge, -math.inf, ty)
    out += [edge, -edge]
    return out


def rand_angle(rng, ty, lim):
    v = rnd(rng.uniform(-lim, lim), ty)
    return v if -lim < v < lim else 0.0


def rand_pitch(rng, ty):
    lim = math.pi / 2 - 1e-3
    r = rng.random()
    if r < 0.15:
        v = rng.choice([-1, 1]) * (lim - abs(rng.gauss(0, 1e-4)))
    elif r < 0.25:
        v = rng.choice([0.0, 1e-9, -1e-9, lim, -lim])
    else:
        v = rng.uniform(-lim, lim)
    v = rnd(v, ty)
    while abs(v) > lim:
        v = nxt(v, 0.0, ty)
    return v


def mp_rot(roll, pitch, yaw):
    cx, sx, cy, sy, cz, sz = mp.cos(roll), mp.sin(roll), mp.cos(pitch), mp.sin(pitch), mp.cos(yaw), mp.sin(yaw)
    rx = mpm([[1, 0, 0], [0, cx, -sx], [0, sx, cx]])
    ry = mpm([[cy, 0, sy], [0, 1, 0], [-sy, 0, cy]])
    rz = mpm([[cz, -sz, 0], [sz, cz, 0], [0, 0, 1]])
    return rz * ry * rx


def mp_quat_rot(w, x, y, z):
    n = mp.sqrt(w * w + x * x + y * y + z * z)
    w, x, y, z = w / n, x / n, y / n, z / n
    return mpm([[1 - 2 * (y * y + z * z), 2 * (x * y - z * w), 2 * (x * z + y * w)],
                [2 * (x * y + z * w), 1 - 2 * (x * x + z * z), 2 * (y * z - x * w)],
                [2 * (x * z - y * w), 2 * (y * z + x * w), 1 - 2 * (x * x + y * y)]])


def rand_rotation_floats(rng, ty):
    """a random proper rotation with |R20| <= 1 - 1e-6, rounded to ty (9 floats, row major)"""
    while True:
        r = rng.random()
        if r < 0.3:   # close to the gimbal limit
            pitch = rng.choice([-1, 1]) * (math.pi / 2 - 10 ** rng.uniform(-2.8, -1))
        else:
            pitch = rng.uniform(-math.pi / 2, math.pi / 2)
        roll, yaw = rng.uniform(-math.pi, math.pi), rng.uniform(-math.pi, math.pi)
        if rng.random() < 0.1:
            roll = rng.choice([0.0, math.pi, -math.pi / 2, math.pi / 2])
        if rng.random() < 0.1:
            yaw = rng.choice([0.0, math.pi, -math.pi / 2, math.pi / 2])
        m = mp_rot(mpf(roll), mpf(pitch), mpf(yaw))
        vals = [rnd(float(m[i, j]), ty) for i in range(3) for j in range(3)]
        if abs(vals[6]) <= 1 - 1e-6:
            return vals


def gen(rng, tier):
    big = tier == "thorough"
    k = 10 if big else 1
    groups = []
    norm = []
    for ty in ("f64", "f32"):
        for kind in ("n02", "npi"):
            for v in special_angles(rng, ty, 4 * math.pi):
                norm.append("%s %s %s" % (kind, ty, hexf(v)))
            for _ in range(150 * k):
                norm.append("%s %s %s" % (kind, ty, hexf(rand_angle(rng, ty, 4 * math.pi))))
    groups.append(("normalisers", norm))
    r2 = []
    for ty in ("f64", "f32"):
        for v in special_angles(rng, ty, 2 * math.pi):
            r2.append("r2 %s %s" % (ty, hexf(v)))
        for _ in range(100 * k):
            r2.append("r2 %s %s" % (ty, hexf(rand_angle(rng, ty, 2 * math.pi))))
        for _ in range(100 * k):
            th = mpf(rng.choice([0.0, math.pi, math.pi / 2, -math.pi / 2, rng.uniform(-math.pi, math.pi), rng.uniform(-math.pi, math.pi)]))
            c, s = rnd(float(mp.cos(th)), ty), rnd(float(mp.sin(th)), ty)
            r2.append("r2m %s %s %s %s %s" % (ty, hexf(c), hexf(-s), hexf(s), hexf(c)))
    groups.append(("planar", r2))
    e2r = []
    for ty in ("f64", "f32"):
        sp = special_angles(rng, ty, 2 * math.pi)
        for v in sp:
            e2r.append("e2r %s %s %s %s" % (ty, hexf(v), hexf(rand_pitch(rng, ty)), hexf(rng.choice(sp))))
        for _ in range(250 * k):
            e2r.append("e2r %s %s %s %s" % (ty, hexf(rand_angle(rng, ty, 2 * math.pi)), hexf(rand_pitch(rng, ty)),
                                            hexf(rand_angle(rng, ty, 2 * math.pi))))
    groups.append(("angles->rotation->angles", e2r))
    r2e = []
    for ty in ("f64", "f32"):
        for _ in range(250 * k):
            r2e.append("r2e %s %s" % (ty, " ".join(hexf(v) for v in rand_rotation_floats(rng, ty))))
    groups.append(("rotation->angles->rotation", r2e))
    q2e = []
    for ty in ("f64", "f32"):
        n = 0
        while n < 200 * k:
            q = [rng.gauss(0, 1) for _ in range(4)]
            if rng.random() < 0.15:
                q[rng.randrange(4)] = 0.0
            nq = math.sqrt(sum(c * c for c in q))
            if nq < 1e-3:
                continue
            scale = 1.0 if rng.random() < 0.3 else 10 ** rng.uniform(-3, 3)
            q = [rnd(c / nq * scale, ty) for c in q]
            m = mp_quat_rot(*[mpf(c) for c in q])
            if abs(m[2, 0]) > 1 - 1e-6:
                continue
            q2e.append("q2e %s %s" % (ty, " ".join(hexf(c) for c in q)))
            n += 1
    groups.append(("quaternions", q2e))
    co = []
    for ty in ("f64", "f32"):
        for _ in range(200 * k):
            nrm = 10 ** rng.uniform(-6, 6)
            th = rng.choice([0.0, math.pi, math.pi / 2, -math.pi / 2]) if rng.random() < 0.2 else rng.uniform(-math.pi, math.pi)
            x, y = nrm * math.cos(th), nrm * math.sin(th)
            if rng.random() < 0.2:
                x, y = rng.choice([(nrm, 0.0), (-nrm, 0.0), (0.0, nrm), (0.0, -nrm), (-nrm, -0.0)])
            co.append("pol %s %s %s" % (ty, hexf(rnd(x, ty)), hexf(rnd(y, ty))))
        for _ in range(200 * k):
            nrm = 10 ** rng.uniform(-6, 6)
            v = [rng.gauss(0, 1) for _ in range(3)]
            if rng.random() < 0.25:
                v[rng.randrange(3)] = 0.0
            if rng.random() < 0.1:
                v = [0.0, 0.0, rng.choice([-1.0, 1.0])]
            nv = math.sqrt(sum(c * c for c in v)) or 1.0
            co.append("sph %s %s" % (ty, " ".join(hexf(rnd(c / nv * nrm, ty)) for c in v)))
    groups.append(("polar/spherical", co))
    return groups


# ------------------------------------------------------------------------------------------ oracle
def nums(line):
    return [parse_num(t) for t in line.split()]


def cong(a, b):
    """distance of a-b to the nearest multiple of 2*pi"""
    d = (mpf(a) - mpf(b)) / TWO_PI
    return abs(d - mp.nint(d)) * TWO_PI


def mat_from(v):
    return mpm([[mpf(v[0]), mpf(v[1]), mpf(v[2])], [mpf(v[3]), mpf(v[4]), mpf(v[5])], [mpf(v[6]), mpf(v[7]), mpf(v[8])]])


def mdiff(a, b):
    return max(abs(a[i, j] - b[i, j]) for i in range(a.rows) for j in range(a.cols))


def proper(m, tol, name, fails):
    e = mdiff(m.T * m, mp.eye(3))
    d = abs(mp.det(m) - 1)
    if e > tol:
        fails.append(("c10-not-orthogonal", "%s: |R^T R - I| = %s > %s" % (name, mp.nstr(e, 5), mp.nstr(tol, 3))))
    if d > tol:
        fails.append(("c10-det", "%s: |det - 1| = %s" % (name, mp.nstr(d, 5))))


def in_range(v, lo, hi, tol, name, fails):
    if not (lo - tol <= v <= hi + tol):
        fails.append(("c10-range", "%s = %r outside [%s, %s]" % (name, v, mp.nstr(lo, 8), mp.nstr(hi, 8))))


def oracle(case, out):
    t = case.split()
    kind, ty = t[0], t[1]
    eps = EPS[ty]
    a = [mpf(float.fromhex(x)) for x in t[2:]]
    if out.strip() == "none":
        return [("c10-nonfinite", "non-finite result inside the property's domain")]
    o = nums(out)
    if any(v is None for v in o):
        return [("c10-shape", "unparsable output %r" % out)]
    fails = []
    if kind in ("n02", "npi"):
        tol = 8 * eps * 4 * math.pi
        if cong(o[0], a[0]) > tol:
            fails.append(("c10-normaliser-congruence", "%s(%r) = %r is not congruent to the input modulo 2*pi" % (kind, float(a[0]), o[0])))
        if kind == "n02":
            in_range(o[0], 0, TWO_PI, tol, "between0And2Pi", fails)
        else:
            in_range(o[0], -PI, PI, tol, "betweenMinusPiAndPi", fails)
    elif kind == "r2":
        tol = 16 * eps
        c, s = mp.cos(a[0]), mp.sin(a[0])
        exp = [c, -s, s, c]
        if max(abs(mpf(o[i]) - exp[i]) for i in range(4)) > tol:
            fails.append(("c10-rot2d", "eulerAngleToRotation2D(%r) is not [[cos,-sin],[sin,cos]]" % float(a[0])))
        if cong(o[4], a[0]) > 4 * tol:
            fails.append(("c10-rot2d-roundtrip", "angle %r -> rotation -> angle %r (not congruent)" % (float(a[0]), o[4])))
        in_range(o[4], 0, TWO_PI, tol, "rotation2DToEulerAngle", fails)
    elif kind == "r2m":
        tol = 32 * eps
        if max(abs(mpf(o[1 + i]) - a[i]) for i in range(4)) > tol:
            fails.append(("c10-rot2d-roundtrip", "2D rotation -> angle -> rotation differs by %s" %
                          mp.nstr(max(abs(mpf(o[1 + i]) - a[i]) for i in range(4)), 5)))
        in_range(o[0], 0, TWO_PI, tol, "rotation2DToEulerAngle", fails)
    elif kind == "e2r":
        tol = 64 * eps
        ref = mp_rot(a[0], a[1], a[2])
        amp = 1 / mp.cos(a[1])
        r = mat_from(o[0:9])
        proper(r, tol, "eulerAnglesToRotation3D", fails)
        if mdiff(r, ref) > tol:
            fails.append(("c10-matrix-builder", "eulerAnglesToRotation3D differs from Rz*Ry*Rx by %s" % mp.nstr(mdiff(r, ref), 5)))
        qm = mp_quat_rot(*[mpf(v) for v in o[9:13]])
        if mdiff(qm, ref) > tol or abs(sum(mpf(v) ** 2 for v in o[9:13]) - 1) > tol:
            fails.append(("c10-quaternion-builder", "eulerAnglesToQuaternion does not describe Rz*Ry*Rx (diff %s)" % mp.nstr(mdiff(qm, ref), 5)))
        for name, off in (("rotation3DToEulerAngles", 13), ("quaternionToEulerAngles", 16)):
            for i in range(3):
                if cong(o[off + i], a[i]) > tol * amp:
                    fails.append(("c10-angles-roundtrip", "%s: angle %d in %r, out %r (distance mod 2pi %s)" %
                                  (name, i, float(a[i]), o[off + i], mp.nstr(cong(o[off + i], a[i]), 5))))
                in_range(o[off + i], 0, TWO_PI, tol, name, fails)
        if ty == "f64":
            s = mat_from(o[19:28])
            proper(s, tol, "SmartRotation3D::R", fails)
            if mdiff(s, ref) > tol or mdiff(s, r) > tol:
                fails.append(("c10-smart-rotation", "SmartRotation3D::R differs from the matrix builder by %s" % mp.nstr(mdiff(s, r), 5)))
    elif kind == "r2e":
        tol = 64 * eps
        rin = mat_from(a)
        amp = 1 / mp.sqrt(max(mpf(1e-13), 1 - rin[2, 0] ** 2))
        rout = mat_from(o[3:12])
        if mdiff(rin, rout) > tol * amp:
            fails.append(("c10-rotation-roundtrip", "rotation -> angles -> rotation differs by %s (allowed %s)" %
                          (mp.nstr(mdiff(rin, rout), 5), mp.nstr(tol * amp, 3))))
        proper(rout, tol, "eulerAnglesToRotation3D", fails)
        for i in range(3):
            in_range(o[i], 0, TWO_PI, tol, "rotation3DToEulerAngles", fails)
    elif kind == "q2e":
        tol = 64 * eps
        ref = mp_quat_rot(*a)
        r = mat_from(o[0:9])
        amp = 1 / mp.sqrt(max(mpf(1e-13), 1 - ref[2, 0] ** 2))
        if mdiff(r, ref) > tol:
            fails.append(("c10-quaternion-matrix", "normalized().toRotationMatrix() differs from the rotation of q/|q| by %s" % mp.nstr(mdiff(r, ref), 5)))
        back = mp_rot(mpf(o[9]), mpf(o[10]), mpf(o[11]))
        if mdiff(back, ref) > tol * amp:
            fails.append(("c10-quaternion-roundtrip", "quaternion -> angles does not describe the same rotation (diff %s)" % mp.nstr(mdiff(back, ref), 5)))
        for i in range(3):
            in_range(o[9 + i], 0, TWO_PI, tol, "quaternionToEulerAngles", fails)
    elif kind == "pol":
        tol = 32 * eps
        nrm = mp.sqrt(a[0] ** 2 + a[1] ** 2)
        if abs(mpf(o[0]) - nrm) > tol * nrm:
            fails.append(("c10-polar-range", "range %r is not the norm %s" % (o[0], mp.nstr(nrm, 17))))
        in_range(o[1], -PI, PI, tol, "azimut", fails)
        if max(abs(nrm * mp.cos(mpf(o[1])) - a[0]), abs(nrm * mp.sin(mpf(o[1])) - a[1])) > tol * nrm:
            fails.append(("c10-polar-azimut", "azimut %r does not point at (%r, %r)" % (o[1], float(a[0]), float(a[1]))))
        if max(abs(mpf(o[2]) - a[0]), abs(mpf(o[3]) - a[1])) > tol * nrm:
            fails.append(("c10-polar-roundtrip", "Cartesian -> polar -> Cartesian moved the point by %s" %
                          mp.nstr(max(abs(mpf(o[2]) - a[0]), abs(mpf(o[3]) - a[1])), 5)))
    elif kind == "sph":
        tol = 32 * eps
        nrm = mp.sqrt(a[0] ** 2 + a[1] ** 2 + a[2] ** 2)
        if abs(mpf(o[0]) - nrm) > tol * nrm:
            fails.append(("c10-spherical-range", "range %r is not the norm %s" % (o[0], mp.nstr(nrm, 17))))
        in_range(o[1], -PI, PI, tol, "azimut", fails)
        in_range(o[2], 0, PI, tol, "elevation", fails)
        az, el = mpf(o[1]), mpf(o[2])
        # elevation = acos(z/range) is ill-conditioned at the poles: an error e on z/range moves the angle by
        # min(e/sin(el), sqrt(2e)); the horizontal components inherit range*that, z keeps range*e
        h = mp.sqrt(a[0] ** 2 + a[1] ** 2)
        lim_h = tol * nrm + nrm * min(16 * eps * nrm / h if h > 0 else mp.inf, mp.sqrt(16 * eps))
        p = [nrm * mp.cos(az) * mp.sin(el), nrm * mp.sin(az) * mp.sin(el), nrm * mp.cos(el)]
        if abs(p[2] - a[2]) > tol * nrm or max(abs(p[0] - a[0]), abs(p[1] - a[1])) > lim_h:
            fails.append(("c10-spherical-angles", "(azimut, elevation) = (%r, %r) does not point at the input" % (o[1], o[2])))
        d = max(abs(mpf(o[3]) - a[0]), abs(mpf(o[4]) - a[1]))
        if abs(mpf(o[5]) - a[2]) > tol * nrm or d > lim_h:
            fails.append(("c10-spherical-roundtrip", "Cartesian -> spherical -> Cartesian moved the point by %s (allowed %s)" %
                          (mp.nstr(max(d, abs(mpf(o[5]) - a[2])), 5), mp.nstr(lim_h, 3))))
    return fails


# ------------------------------------------------------------------------------------------ correspondence
def compare(case, il, ml):
    """implementation vs extracted model: angles modulo 2*pi, everything with a conditioning-aware tolerance
    (the float instance calls sinf/cosf/atan2f; the f32 dictionary rounds the double libm result)"""
    t = case.split()
    kind, ty = t[0], t[1]
    eps = EPS[ty]
    if il.strip() == "none" or ml.strip() == "none":
        return None if il.strip() == ml.strip() else "impl %r model %r" % (il[:60], ml[:60])
    a, b = nums(il), nums(ml)
    if len(a) != len(b) or any(v is None for v in a + b):
        return "shape: impl %d tokens, model %d tokens" % (len(a), len(b))
    inp = [float.fromhex(x) for x in t[2:]]
    tol = 64 * eps
    amp = 1.0
    ang = set()
    scale = 1.0
    if kind in ("n02", "npi"):
        tol = 4 * eps
        scale = 4 * math.pi
    elif kind == "r2":
        ang = {4}
    elif kind == "r2m":
        ang = {0}
    elif kind == "e2r":
        ang = set(range(13, 19))
        amp = 1 / max(1e-7, math.cos(inp[1]))
    elif kind == "r2e":
        ang = {0, 1, 2}
        amp = 1 / math.sqrt(max(1e-13, 1 - inp[6] ** 2))
    elif kind == "q2e":
        ang = {9, 10, 11}
        amp = 1 / math.sqrt(max(1e-13, 1 - min(1.0, a[6] ** 2)))
    elif kind in ("pol", "sph"):
        scale = math.sqrt(sum(v * v for v in inp))
        ang = {1} if kind == "pol" else {1, 2}
    for i, (x, y) in enumerate(zip(a, b)):
        if i in ang:
            d = abs(math.remainder(x - y, 2 * math.pi))
            lim = tol * amp
            if kind == "sph":
                lim = math.sqrt(64 * eps)       # acos / atan2 of a nearly vertical point
            if kind == "pol":
                lim = tol
        else:
            d = abs(x - y)
            lim = tol * amp * scale if kind in ("e2r", "r2e", "q2e") else tol * scale
            if kind == "sph" and i >= 3:
                lim = math.sqrt(64 * eps) * scale
        if not d <= lim:
            return "token %d: impl %r model %r (|diff| %.3g > %.3g)" % (i, x, y, d, lim)
    return None


def nontrivial(case, out):
    return case if out.strip() != "none" else None


CHECK = {
    "coq": "Properties_C10",
    "driver": "drv_C10",
    "harness": "C10.cpp",
    "repo_srcs": ["src/transform/SmartRotation3D.cpp"],
    "gen": gen,
    "oracle": oracle,
    "compare": compare,
    "nontrivial": nontrivial,
    "rule": "normalisers: wrap points 0, +-pi, +-2pi, +-3pi, +-4pi-, each +-1 ulp, plus random in (-4pi,4pi); angle triples: roll/yaw at the "
            "same special points and random in (-2pi,2pi), pitch random / at +-(pi/2-1e-3) / near it; random proper rotations with "
            "|R20| <= 1-1e-6 (30% within 1e-1..1.6e-3 rad of gimbal lock); quaternions of norm 1e-3..1e3 (15% with a zero component); "
            "points of norm 1e-6..1e6 incl. on the axes; float and double. Non-trivial = distinct case with a finite result.",
    "trusted": ["translator translate/eigensym.py + tr_C10_eigensym.py: clang JSON AST -> entry-wise symbolic values; its reading of the Eigen operations it accepts (coefficient access, Zero/Identity/Unit*, comma-initialiser block placement, * + - unary -, transpose, col/row/block/head, cross; AngleAxis->Quaternion, quaternion product, normalized, toRotationMatrix transcribed from Eigen 3.4); anything else is refused (fail closed)",
                "translator translate/srcfuns.py (clang AST of between0And2Pi, betweenMinusPiAndPi, rotation2DToEulerAngle, rotation3DToEulerAngles at double -> Gallina)", "hand-written model coq/AnglesModel.v tied by differential execution (this run)",
                "rounded dictionary B64Ops of coq/GridMapFloat.v (Flocq FLT(-1074,53), nearest-even) as the meaning of double arithmetic in the *_binary64 theorems; it is not the dictionary executed by the correspondence run (ocaml/numf.ml is)",
                "extraction (ExtrOcamlBasic), ocaml/numf.ml (f32 = binary64 libm result rounded to binary32), ocaml/drv_C10.ml",
                "harness/C10.cpp, python/mpmath oracle in checks/C10.py",
                "Eigen: AngleAxis->Quaternion, quaternion product, normalized(), toRotationMatrix(), 3x3 products (transcribed, compared numerically)"],
    "manifest": {
        "text": "SYNTACTIC TIE: the angle normalisers and the rotation -> angle extractors are re-translated from the clang AST of the current source (instantiation at double, if/else chains included) on every run (translate/srcfuns.py -> coq/gen/SrcFunsC10.v) and proved equal to the model functions; the angle -> rotation builders eulerAngleToRotation2D (comma initialiser), eulerAnglesToQuaternion (AngleAxis(e(2),UnitZ) * AngleAxis(e(1),UnitY) * AngleAxis(e(0),UnitX)), eulerAnglesToRotation3D (Matrix3(quaternion), the call inlined) and quaternionToEulerAngles (normalized().toRotationMatrix() handed to the generated rotation3DToEulerAngles) are regenerated by the symbolic Eigen evaluator (translate/eigensym.py + tr_C10_eigensym.py -> coq/gen/SrcEigenC10.v) and proved equal to the models of AnglesModel.v (coq/SrcTieC10Eigen.v, C10_source_tie_euler_builders) — there Eigen's own AngleAxis->Quaternion / product / toRotationMatrix / normalized formulas are the evaluator's (transcribed from Eigen 3.4), the tie is on how the source composes them; likewise the polar / spherical conversions toPolar(CartesianCoordinates2), toCartesian(PolarCoordinates), toSpherical(CartesianCoordinates3), toCartesian(SphericalCoordinates) of include/romea_core_common/coordinates/*.hpp (template classes with a base class, getters and static member templates, all inlined) equal toPolar / polarToCartesian / toSpherical (inside its guards) / sphericalToCartesian (C10_source_tie_coordinates); SmartRotation3D::R is tied under C12 (C12_source_tie_smart_rotation). Coq theorems over the reals about the transcribed formulas: Rz*Ry*Rx is a proper rotation; the quaternion builder, the matrix "
                "builder and SmartRotation3D::R are the same matrix; angles->rotation->angles returns the angles modulo 2*pi in [0,2*pi); "
                "rotation->angles->rotation is the identity for |R20|<1; the normalisers are congruent modulo 2*pi and inside their interval "
                "for |x|<4*pi; the planar pair and the polar/spherical maps are mutual inverses for r>0. The model is executed (binary64 and "
                "binary32 dictionaries) against the real templates on generated inputs aimed at the wrap points and the gimbal limit, and "
                "an mpmath oracle written from the property statement judges the implementation's outputs. "
                "FLOATING POINT (normalisers only, Scalar = double; coq/AnglesFloat.v, Flocq): the same model functions at the rounded "
                "dictionary B64Ops (one round-to-nearest-even in FLT(-1074,53) per + and -, comparisons exact), also tied to the clang-AST "
                "translation at B64Ops. Proved: M_PI = 884279719003555*2^-48 = 0x1.921fb54442d18p+1 with 1.2246e-16 < pi - M_PI < 1.2247e-16 "
                "and M_2PI = 2*M_PI exact; std::fmod is exact in full generality (the remainder x - y*trunc(x/y) of two floating-point "
                "numbers is a floating-point number, any precision, any y); between0And2Pi on |v| < M_4PI returns a double r in the CLOSED "
                "interval [0, M_2PI] with |r - (v - k*M_2PI)| <= 2^-51 for an integer k in -2..1 (equality when the fmod is >= 0 or <= -M_PI) "
                "and within 9.4e-16 of the congruence modulo the true 2*pi; r = M_2PI is attained for every v in (-2^-51, 0) (witness "
                "-2^-70; replayed on the C++: between0And2Pi(-0x1p-70) == M_2PI), so the half-open [0, 2*pi) of the real theorem closes in "
                "double (M_2PI < 2*pi as reals); between0And2Pi<float> returns at most 6.2831855f and exactly that, above the real 2*pi by "
                "1.7e-7, for the same inputs; betweenMinusPiAndPi returns r in [-M_PI, M_PI] with r = v - k*M_2PI EXACTLY (k in -2..2; both "
                "conditional +-M_2PI are exact by Sterbenz' lemma), within 4.9e-16 of the true congruence.",
        "note": "Trusted: Coq kernel and the standard real-number axioms; hand transcription of the C++/Eigen formulas (checked numerically "
                "each run); libm and IEEE rounding are observed, not proved — except for the two normalisers at double, where rounding is "
                "modelled by Flocq and what stays trusted is that the hardware/compiler arithmetic IS that rounding (one rounding per C++ "
                "operation: no FMA contraction, no x87 excess precision), that std::fmod returns the exact remainder (IEEE-754 / C Annex F; "
                "its representability is proved), and that M_PI is the double nearest to pi (its value is proved to be 0x1.921fb54442d18p+1); "
                "toSpherical<float> does not instantiate in the library (its component functions are used for float).",
        "technique": "Coq proof over R (ring/nra/nsatz, atan2/asin/acos inverse lemmas) + Flocq binary64 proof for the normalisers (Sterbenz, format_REM_ZR, "
                     "Interval for the enclosure of pi) + extracted-model correspondence run + mpmath oracle",
    },
    "assumptions": ["theorems are over real arithmetic, except the *_binary64 theorems about the two normalisers (Flocq rounding, Scalar = double, |v| < M_4PI); "
                    "elsewhere floating-point behaviour is measured by the correspondence run and the oracle",
                    "binary64 theorems: hardware arithmetic is round-to-nearest-even with one rounding per C++ operation (no FMA contraction, no x87 excess precision); "
                    "std::fmod returns the exact remainder",
                    "std::fmod/atan2/asin/acos/sin/cos follow their mathematical definitions up to rounding"],
}
