"""C17 — rate monitoring and rate check-ups follow the stamped-event history exactly."""
from fractions import Fraction as Fr
import math
from vcommon import hexf

NS = 10 ** 9
HALF_S = 5 * 10 ** 8          # the property's 0.5 s in ns
U = 2.0 ** -52


# --------------------------------------------------------------------------------------------- generators
def gen_case(rng, max_events):
    kind = rng.choice(["eq", "gt"])
    r = rng.random()
    if r < 0.25:      # window clamp borders: 2*rate around 4, 5, 64 and the ends of the range
        expected = rng.choice([0.5, 1.0, 1.9999, 2.0, 2.25, 2.4999999, 2.5, 2.75, 3.0, 10.0, 31.75, 31.9999, 32.0, 32.25, 100.0, 200.0,
                               math.nextafter(2.5, 0), math.nextafter(32.0, 0), math.nextafter(3.0, 0)])
    elif r < 0.6:
        expected = float(rng.choice([1, 2, 4, 5, 8, 10, 16, 20, 25, 40, 50, 64, 100, 125, 200]))
    else:
        expected = rng.uniform(0.5, 200.0)
    thr_exact = rng.random() < 0.35
    eps = rng.choice([0.01, 0.05, 0.1, 0.2, 0.5]) * expected if not thr_exact else rng.choice([0.25, 0.5, 1.0, 2.0, 0.125 * expected])
    if rng.random() < 0.05:
        eps = 0.0
    W = min(max(int(2 * Fr(expected)), 4), 64)
    n = rng.randint(1, max_events)
    if rng.random() < 0.5:
        n = min(max_events, max(n, W + 2 + rng.randint(0, 3 * W)))     # make sure the window usually fills and rolls over
    period = max(1000, round(NS / expected))
    # periods that put the rate exactly on a threshold when steady:  rate = 1e9 / p  with threshold representable
    if thr_exact:
        target = rng.choice([expected - eps, expected + eps, expected])
        if target > 0 and NS / target >= 1000 and NS / target <= 10 * NS:
            period = max(1000, round(NS / target))
    style = rng.choice(["steady", "steady", "jitter", "burst", "mixed", "silence"])
    t = rng.choice([0, 1, rng.randint(0, 10 ** 6), rng.randint(10 ** 9, 10 ** 12), 1_700_000_000 * NS + rng.randint(0, NS)])
    evs = []
    if rng.random() < 0.3:      # heartbeats before any data
        for _ in range(rng.randint(1, 3)):
            evs.append("H:%d" % (t + rng.choice([0, 1, HALF_S, HALF_S + 1, 3 * NS])))
    first = True
    last = None
    while len(evs) < n:
        if first:
            d = t
            first = False
        else:
            u = rng.random()
            if style == "steady" or (style == "mixed" and u < 0.5):
                p = period
            elif style == "jitter" or (style == "mixed" and u < 0.8):
                p = max(1000, round(period * rng.uniform(0.7, 1.3)))
            elif style == "burst":
                p = rng.randint(1000, 100_000) if u < 0.7 else period
            else:
                p = period
            v = rng.random()
            if v < 0.04 or (style == "silence" and v < 0.15):
                p = rng.choice([HALF_S - 1, HALF_S, HALF_S + 1, HALF_S + 2, 2 * HALF_S, 10 * NS, rng.randint(HALF_S, 10 * NS)])
            elif v < 0.06:
                p = rng.choice([1000, 1001, 10 * NS])
            d = last + p
            # heartbeats between the previous stamp and this one
            if rng.random() < (0.5 if p >= HALF_S else 0.12):
                for _ in range(rng.randint(1, 3)):
                    off = rng.choice([0, 1, p // 2, p - 1, HALF_S - 1, HALF_S, HALF_S + 1, HALF_S + 2, rng.randint(0, max(1, p))])
                    if rng.random() < 0.05:
                        off = -rng.randint(1, NS)       # a heartbeat carrying an older stamp
                    if rng.random() < 0.05:
                        off = p + rng.randint(1, NS)    # a heartbeat carrying a stamp beyond the next data stamp
                    evs.append("H:%d" % (last + off))
        evs.append("D:%d" % d)
        last = d
    if rng.random() < 0.5:
        for _ in range(rng.randint(1, 3)):
            evs.append("H:%d" % ((t if last is None else last) + rng.choice([1, HALF_S - 1, HALF_S, HALF_S + 1, 2 * NS, rng.randint(0, 2 * NS)])))
    return "rate %s %s %s %s" % (kind, hexf(expected), hexf(eps), " ".join(evs[:max_events + 6]))


def gen(rng, tier):
    big = tier == "thorough"
    cases = [gen_case(rng, 500 if big else 150) for _ in range(6000 if big else 2500)]
    return [("histories", cases)]


# --------------------------------------------------------------------------------------------- oracle
def representable(x):
    return Fr(float(x)) == x


def verdict_ok(kind, v, cmp_, eps, st, msg):
    """does (status, message) agree with classifying the reported rate v by the configured thresholds?"""
    fv, fc, fe = Fr(v), Fr(cmp_), Fr(eps)
    low, high = fc - fe, fc + fe
    LOW, HIGH, OKV = ("ERROR", "x_rate_is_too_low."), ("ERROR", "x_rate_is_too_high."), ("OK", "x_rate_is_OK.")

    def near(thr):      # threshold not exactly representable: either verdict inside its rounding band
        return (not representable(thr)) and abs(fv - thr) <= 2 * Fr(U) * max(abs(thr), 1)
    if kind == "eq":
        exact = LOW if fv < low else (HIGH if fv > high else OKV)
        allowed = [exact] + ([LOW, OKV] if near(low) else []) + ([HIGH, OKV] if near(high) else [])
    else:
        exact = OKV if fv > low else LOW
        allowed = [exact] + ([LOW, OKV] if near(low) else [])
    return (st, msg) in allowed, allowed


def oracle(case, out):
    t = case.split()
    kind, expected, eps = t[1], float.fromhex(t[2]), float.fromhex(t[3])
    evs = t[4:]
    o = out.split()
    fails = []
    if "SHAPE" in o or "GETRATE" in o:
        return [("c17-shape", "report does not have one diagnostic and one info entry, or getRate() differs from update()'s result")]
    W = min(max(int(2 * Fr(expected)), 4), 64)       # W = clamp(2 * expected rate, 4, 64)
    pos = 0
    if o[pos:pos + 4] != ["I", "ERROR", "no_data_received_from_x", "i="]:
        fails.append(("c17-initial-report", "before any event the report is %r" % o[pos:pos + 4]))
    pos += 4
    stamps = []
    cur = (Fr(0), "ERROR", "no_data_received_from_x", "i=")      # rate, status, message, info
    for i, e in enumerate(evs):
        s = int(e[2:])
        if e[0] == "D":
            f = o[pos:pos + 6]
            pos += 6
            if len(f) < 6 or f[0] != "D":
                return fails + [("c17-shape", "event %d: malformed output %r" % (i, f))]
            rate, ret, st, msg, info = float.fromhex(f[1]), f[2], f[3], f[4], f[5]
            stamps.append(s)
            k = len(stamps)
            if k <= W:      # 0 until W+1 stamps have been seen
                if rate != 0.0:
                    fails.append(("c17-rate-before-full", "event %d: %d stamps seen (W=%d) but rate=%r" % (i, k, W, rate)))
                exact = Fr(0)
            else:           # thereafter W divided by the time spanned by the last W periods
                span = stamps[-1] - stamps[-1 - W]
                exact = Fr(W * NS, span)
                if abs(Fr(rate) - exact) > Fr(1, 10 ** 12) * exact:
                    fails.append(("c17-rate-value", "event %d: rate %r, expected W/span = %d/%d ns = %r" % (i, rate, W, span, float(exact))))
            if ret != st:
                fails.append(("c17-returned-vs-stored", "event %d: evaluate returned %s, report stores %s" % (i, ret, st)))
            if info != "i=%g" % rate:
                fails.append(("c17-info", "event %d: info %r is not the printed rate %r" % (i, info, "%g" % rate)))
            ok, allowed = verdict_ok(kind, rate, expected, eps, st, msg)
            if not ok:
                fails.append(("c17-verdict", "event %d: rate %r expected %r eps %r (%s): got %s/%s, allowed %s" % (i, rate, expected, eps, kind, st, msg, allowed)))
            cur = (Fr(rate), st, msg, info)
        else:
            f = o[pos:pos + 7]
            pos += 7
            if len(f) < 7 or f[0] != "H":
                return fails + [("c17-shape", "event %d: malformed output %r" % (i, f))]
            tmo, rate, alive, st, msg, info = f[1], float.fromhex(f[2]), f[3], f[4], f[5], f[6]
            timed_out = bool(stamps) and (s - stamps[-1]) > HALF_S      # more than 0.5 s after the last stamp
            if timed_out:
                if (tmo, rate, alive, st, msg, info) != ("1", 0.0, "0", "STALE", "x_rate_timeout.", "i="):
                    fails.append(("c17-timeout", "event %d: heartbeat %d ns after the last stamp: got timeout=%s rate=%r alive=%s %s/%s/%s"
                                  % (i, s - stamps[-1], tmo, rate, alive, st, msg, info)))
                cur = (Fr(0), "STALE", "x_rate_timeout.", "i=")
            else:
                if tmo != "0" or alive != "1" or (Fr(rate), st, msg, info) != cur:
                    fails.append(("c17-early-heartbeat", "event %d: heartbeat %s must change nothing: timeout=%s alive=%s rate=%r %s/%s/%s, before: %s"
                                  % (i, "before any stamp" if not stamps else "%d ns after the last stamp" % (s - stamps[-1]),
                                     tmo, alive, rate, st, msg, info, (float(cur[0]),) + cur[1:])))
    if pos != len(o):
        fails.append(("c17-shape", "trailing output %r" % o[pos:pos + 5]))
    return fails


def nontrivial(case, out):
    o = out.split()
    sts = set(x for x in o if x in ("OK", "STALE")) | set(x for x in o if x.endswith("too_low.") or x.endswith("too_high."))
    return len(sts) >= 2 and case


CHECK = {
    "coq": "Properties_C17",
    "driver": "drv_C17",
    "harness": "C17.cpp",
    "repo_srcs": ["src/monitoring/RateMonitoring.cpp", "src/diagnostics/CheckupRate.cpp", "src/diagnostics/DiagnosticStatus.cpp",
                  "src/diagnostics/Diagnostic.cpp", "src/diagnostics/DiagnosticReport.cpp"],
    "gen": gen,
    "oracle": oracle,
    "rtol": 1e-12,
    "nontrivial": nontrivial,
    "rule": "event histories: expected rate 0.5..200 Hz (incl. the window-clamp borders 2*rate = 4, 5, 64 +- 1 ulp), tolerance absolute/relative/0, "
            "both check-up kinds, up to 150 (quick) / 500 (thorough) events, first stamp 0 .. 1.7e18 ns, periods 1 us..10 s steady / jittered / "
            "bursty / mixed, silences of 0.5 s -1,0,+1,+2 ns and up to 10 s, steady periods that put the rate exactly on a threshold, heartbeats "
            "before any data, between stamps (offsets 0.5 s +-1 ns), after the end, with older stamps.  Non-trivial = the history shows at least two "
            "different verdicts among OK / too low / too high / STALE",
    "trusted": ["translators translate/tr_C17_rate.py + imptrans.py (clang JSON AST -> Gallina state transformers; its vocabulary: integers "
                "unbounded, std::queue = list, atomic / SharedVariable load-store = read-write, lock_guard skipped) and translate/constants.py",
                "constructors of RateMonitoring / CheckupRate (initial field values, 'no data received' diagnostic): model tied by differential "
                "execution only (this run)",
                "binary64 theorems: hardware arithmetic = one round-to-nearest-even per C++ operation (no x87 excess precision, no FMA contraction); "
                "the rounded dictionary B64Ops is not the one executed (ocaml/numf.ml is)",
                "extraction (ExtrOcamlBasic), ocaml/numf.ml, ocaml/drv_C17.ml", "harness/C17.cpp, python oracle in checks/C17.py",
                "std::queue, std::chrono::duration<long long, nano>, std::ostream default float formatting == printf %g"],
    "manifest": {
        "text": "SYNTACTIC TIE: durationToNanoSecond / durationToSecond, RateMonitoring::initialize / update / timeout / getRate and "
                "CheckupRate<CheckupEqualTo<double>> / <CheckupGreaterThan<double>>::evaluate / heartBeatCallback / getReport are regenerated on "
                "every run from the clang AST of the current source as Gallina state transformers over the fields (coq/gen/SrcRate.v) and proved "
                "EQUAL to the functions of RateModel.v the theorems are about, for every numeric dictionary (SrcTieC17.v, theorems "
                "C17_source_tie_*; in CheckupRate the member objects are abstract and instantiated with the model's transformers). "
                "Theorems by induction over arbitrary event lists (data stamps / heartbeats): queue = last min(k,W) periods, integer sum = span "
                "of the window, rate 0 until W+1 stamps then W/span, window clamp, time-out rule (iff a stamp was seen and the silence exceeds "
                "500000000 ns), report after every event determined by the history. BINARY64 (Flocq, C17_rate_binary64_*): 1e9 / (sum / double(W)) "
                "for integer sum < 2^53 ns and W in [4,64] is W*1e9/sum up to 3*2^-53 relative, correctly rounded (one rounding) when W is a power "
                "of two and exact when the quotient is a double; the window size and the 0.5 s time-out test are exact in binary64; end to end: "
                "the double published after any history (increasing stamps, > W of them, not stale, span < 2^53 ns) is W/span within 3*2^-53. "
                "The model's binary64 instance is also executed against the real classes on generated histories and the property's statement "
                "is evaluated in exact integer/rational arithmetic on the implementation's outputs.",
        "note": "Trusted: Coq kernel; real-number axioms of the standard library for the theorems over R and binary64; the AST-to-Gallina "
                "translator and its vocabulary (unbounded integers: 64-bit overflow of stamps and size_t wrap-around are outside the model; "
                "queue front on an empty queue = 0; atomicity is C19's); constructors tied by differential execution only; extraction; float "
                "dictionary; harness and oracle. The tie breaks (checked by hand) on windowSize_ + 1 -> windowSize_, a dropped periods_.pop(), "
                "2 * moved outside the cast, > -> >= in the time-out test, a dropped checkup_.timeout() (each also with a concrete failing "
                "input from the oracle), and on a re-associated rate formula 1e9 * W / sum (equal over the reals, different in binary64: "
                "reported as no-failing-input-found); it survives renaming a local, reordering independent statements, 1 + windowSize_, a "
                "negated early-return form of timeout, extra locals in CheckupRate::evaluate. A float operation written the other way "
                "round (expectedRate * 2) is refused as well (the tie is an equality for every dictionary, commutativity is not assumed); "
                "the regex-based constants translator is stricter still (it refuses any respelling of the three literals' contexts). "
                "The rate is compared to 1e-12 relative in the correspondence run; inside the rounding band of a non-representable threshold "
                "either verdict is accepted there.",
        "technique": "Coq proof (induction over event lists, invariants; Flocq rounding analysis) + source-to-Gallina translation with tie "
                     "lemmas + extracted-model correspondence run",
    },
    "assumptions": ["stamps fit in 63 bits (long long nanoseconds); data stamps strictly increasing for the rate formula",
                    "the rate is read through a RateMonitoring object fed the same events as the one inside CheckupRate (no accessor exists)",
                    "single-threaded use (the concurrency of these classes is property C19)"],
}
