"""C06 — ICP + RANSAC recover every small displacement of the reference scan (PARTIAL).

Proved (Coq, coq/Properties_C06.v): the decision logic — RANSAC iteration bound, estimateModel's success/failure and
refine discipline, the 3-sigma inlier filter, the best-consensus invariant, reported error < sigma on success,
outlier-free refit, the one-to-one filter, the ICP exit / best-estimate logic; "zero displacement returns the identity"
(point-to-plane estimator for any LDLT / SVD oracle, and the ICP loop model).
Syntactic source tie (translate/tr_C06_ransac.py -> coq/gen/SrcRansac.v, coq/SrcTieC06.v): RansacIterations
(constructor, update, get), Ransac::estimateModel over an abstract RansacModel, the exit logic of
FindRigidTransformationByICP::find are regenerated from the clang AST on every run and proved equal to the models.
NOT proved (sampled here, labelled as testing): that ICP converges within 0.015 for every displacement of the
envelope, and that RANSAC's random draws hit an outlier-free sample.
"""
from fractions import Fraction
import math
import os
import shutil
import tempfile
import numpy as np
import mpmath
import vcommon
from vcommon import hexf

mpmath.mp.dps = 50

REPO_SRCS = [
    "src/regression/ransac/Ransac.cpp", "src/regression/ransac/RansacIterations.cpp",
    "src/regression/ransac/RansacModel.cpp", "src/regression/ransac/RansacRandomCorrespondences.cpp",
    "src/transform/estimation/RansacRigidTransformationModel.cpp",
    "src/transform/estimation/FindRigidTransformationByICP.cpp",
    "src/transform/estimation/FindRigidTransformationBySVD.cpp",
    "src/transform/estimation/FindRigidTransformationByLeastSquares.cpp",
    "src/regression/leastsquares/LeastSquares.cpp",
    "src/pointset/algorithms/NormalAndCurvatureEstimation.cpp", "src/pointset/KdTree.cpp",
    "src/pointset/algorithms/PointSetPreconditioner.cpp", "src/pointset/algorithms/PreconditionedPointSet.cpp",
    "src/pointset/algorithms/Correspondence.cpp",
]
CXXFLAGS = ('-DC06_SCAN_PATH="%s"' % os.path.join(vcommon.REPO, "test/data/scan2d.txt"),)

ICP_SIGMA = 0.2          # pointsPositionStd used by the repository's own ICP test (TestTransform::FindByICPc/h)
TOL = 0.015              # Frobenius tolerance of the property
DBL_EPS = 2.0 ** -52
MAXIT = 1000             # only used by generators (the model takes the constant from the sources)
TIE = 1e-9


def fh(s):
    return float.fromhex(s) if ("0x" in s or "0X" in s) else float(s)


def f32(x):
    return float(np.float32(x))


def f32round_int(z):
    return int(np.float32(z)) if z < 2 ** 63 else z


# ------------------------------------------------------------------------------------------------ generators
def gen_it(rng, n):
    cases = []
    for _ in range(n):
        mode = rng.random()
        npoints = rng.choice([1, 2, 3, 7, 40, 100, 173, 400, 702, rng.randint(1, 5000)])
        p = f32(rng.choice([0.99, 0.99, 0.5, 0.9, 0.999, 0.01, rng.uniform(0.01, 0.999)]))
        maxit = rng.choice([1000, 1000, 1, 0, 10, 100000, rng.randint(1, 3000)])
        sdraw = rng.choice([3, 4, 3, 4, 1, 2, 8, 0])
        ks = []
        for _ in range(rng.randint(1, 12)):
            r = rng.random()
            if r < 0.7:
                ks.append(rng.randint(1, npoints))
            elif r < 0.8:
                ks.append(npoints)
            elif r < 0.9:
                ks.append(rng.randint(npoints, 2 * npoints + 1))      # more "inliers" than points: clamp to EPSILON
            else:
                ks.append(0)
        if mode < 0.3:
            ks.sort()
        cases.append("it %d %s %d %d %s" % (npoints, hexf(p), maxit, sdraw, " ".join(map(str, ks))))
    return cases


def gen_est(rng, n):
    cases = []
    for _ in range(n):
        sdraw = rng.choice([3, 4, 3, 4, 1, 6])
        mininl = rng.choice([2 * sdraw, 2 * sdraw, 0, 1, sdraw])
        r = rng.random()
        if r < 0.12:
            npoints = rng.randint(0, max(0, mininl - 1)) if mininl > 0 else 1      # fewer points than the minimum
        elif r < 0.2:
            npoints = mininl
        else:
            npoints = rng.choice([40, 100, 173, 400, 702, rng.randint(max(1, mininl), 1500)])
        npoints = max(npoints, 0)
        if npoints == 0 and mininl == 0:
            npoints = 1
        L = rng.choice([0, 1, 5, 30, 200, 1000, 1100, rng.randint(1, 1000)])
        script = []
        best = 0
        style = rng.random()
        for i in range(L):
            d = 1 if rng.random() < rng.choice([0.3, 0.9, 1.0]) else 0
            if style < 0.25:
                c = rng.randint(0, sdraw + 1)                    # hovering around the success threshold
            elif style < 0.5:
                c = best = max(best, rng.choice([0, 0, 0, rng.randint(0, npoints)]))   # monotone, like the rigid model
            elif style < 0.55:
                c = rng.choice([2 ** 24, 2 ** 24 + 1, 2 ** 24 + 2, 2 ** 24 + 3, 2 ** 25 + 2, 2 ** 25 + 6, 5])
            else:
                c = rng.randint(0, max(1, npoints))
            script.append("%d:%d" % (d, c))
        cases.append("est %d %d %d %s %s" % (npoints, sdraw, mininl, hexf(rng.choice([0.2, 0.05, 1.0])), " ".join(script)))
    return cases


def rot(rng, d, ang):
    if d == 2:
        return np.array([[math.cos(ang), -math.sin(ang)], [math.sin(ang), math.cos(ang)]])
    a = np.array([rng.gauss(0, 1) for _ in range(3)])
    a /= np.linalg.norm(a)
    K = np.array([[0, -a[2], a[1]], [a[2], 0, -a[0]], [-a[1], a[0], 0]])
    return np.eye(3) + math.sin(ang) * K + (1 - math.cos(ang)) * (K @ K)


def rand_dir(rng, d):
    v = np.array([rng.gauss(0, 1) for _ in range(d)])
    return v / np.linalg.norm(v)


def homog(R, t):
    d = len(t)
    M = np.eye(d + 1)
    M[:d, :d] = R
    M[:d, d] = t
    return M


def gen_rig(rng, n, composed):
    cases = []
    for _ in range(n):
        kind = rng.choice(["c2", "c3", "h2", "h3"])
        hom, d = kind[0] == "h", int(kind[1])
        sz = d + 1 if hom else d
        sigma = rng.choice([0.2, 0.05, 0.01, 1.0])
        npts = rng.randint(8, 40)
        src = np.array([[rng.uniform(-10, 10) for _ in range(d)] for _ in range(npts)])
        R0, t0 = rot(rng, d, rng.uniform(-0.2, 0.2)), rand_dir(rng, d) * rng.uniform(0, 0.5)
        tgt = src @ R0.T + t0
        for i in range(npts):       # residual under the true motion: spread around the 3-sigma gate
            r = rng.random()
            if r < 0.35:
                mag = abs(rng.gauss(0, 0.3 * sigma))
            elif r < 0.55:
                mag = 3 * sigma * (1 + rng.choice([-1, 1]) * 10 ** rng.uniform(-7, -1))
            elif r < 0.8:
                mag = sigma * rng.uniform(0, 6)
            else:
                mag = sigma * rng.uniform(10, 60)
            tgt[i] += rand_dir(rng, d) * mag
        ncand = rng.randint(1, 6) if not composed else rng.randint(1, 40)
        Ms = []
        for c in range(ncand):
            r = rng.random()
            if r < 0.2:
                M = homog(R0, t0)
            elif r < 0.45:      # small shifts: usually the same consensus with another rmse (equal-size comparison)
                M = homog(R0, t0 + rand_dir(rng, d) * sigma * rng.uniform(0, 0.3))
            elif r < 0.75:
                M = homog(rot(rng, d, rng.gauss(0, 0.003)) @ R0, t0 + rand_dir(rng, d) * sigma * rng.uniform(0, 1.5))
            elif r < 0.85:
                M = np.eye(d + 1)
            else:
                M = homog(rot(rng, d, rng.uniform(-0.3, 0.3)), rand_dir(rng, d) * rng.uniform(0, 1))
            if hom and rng.random() < 0.1:
                M[d, :] += np.array([rng.gauss(0, 1e-3) for _ in range(d + 1)])
            if c > 0 and rng.random() < 0.15:
                M = Ms[rng.randrange(c)]       # the same candidate again: equal size, equal rmse
            Ms.append(M)
        # correspondences: mostly i<->i; sometimes several sources for one target (exercises std::unique)
        corrs = []
        dup = rng.random() < 0.4
        for i in range(npts):
            if rng.random() < 0.9:
                t = i if not (dup and rng.random() < 0.3) else rng.randrange(npts)
                corrs.append((i, t, rng.choice([0.0, rng.uniform(0, 1), rng.uniform(0, 1)])))
        if len(corrs) <= d + 2:
            corrs = [(i, i, 0.0) for i in range(npts)]
        rng.shuffle(corrs)
        nsample = d + 1
        samples = [[rng.randrange(len(corrs)) for _ in range(nsample)] for _ in range(ncand)]
        numpoints = len(corrs) if rng.random() < 0.8 else rng.randint(1, 2 * len(corrs))
        if hom:
            src = np.hstack([src, np.ones((npts, 1))])
            tgt = np.hstack([tgt, np.ones((npts, 1))])
        toks = ["cmp" if composed else "rig", kind, hexf(sigma), str(ncand), str(npts), str(len(corrs)), str(nsample), str(numpoints)]
        for M in Ms:
            toks += [hexf(x) for x in M.flatten()]
        for s in samples:
            toks += [str(x) for x in s]
        toks += [hexf(x) for x in src.flatten()] + [hexf(x) for x in tgt.flatten()]
        for (s, t, dd) in corrs:
            toks += [str(s), str(t), hexf(dd)]
        cases.append(" ".join(toks))
    return cases


def icp_grid(rng, tier):
    """grid over the envelope incl. all corners and zero, plus random interior points"""
    pts = []
    for tx in (-0.2, 0.0, 0.2):
        for ty in (-0.2, 0.0, 0.2):
            for th in (-0.05, 0.0, 0.05):
                pts.append((tx, ty, th))
    pts += [(0.1, 0.2, 0.05)]                    # the displacement of the repository's own test
    nrand = 2000 if tier == "thorough" else 12
    if tier == "thorough":
        g5 = [-0.2, -0.1, 0.0, 0.1, 0.2]
        t5 = [-0.05, -0.025, 0.0, 0.025, 0.05]
        pts += [(a, b, c) for a in g5 for b in g5 for c in t5 if (a, b, c) not in pts]
    for _ in range(nrand):
        pts.append((rng.uniform(-0.2, 0.2), rng.uniform(-0.2, 0.2), rng.uniform(-0.05, 0.05)))
    cases = []
    for (tx, ty, th) in pts:
        for k in "ch":
            cases.append("%s %s %s %s %s" % (k, hexf(tx), hexf(ty), hexf(th), hexf(ICP_SIGMA)))
    return cases


def gen_syn(rng, n):
    cases = []
    for _ in range(n):
        kind = rng.choice(["c2", "c3", "h2", "h3"])
        d = int(kind[1])
        # sigma: the property does not fix it; chosen so that the statistical error of a least-squares refit on the
        # inliers alone (0.3 sigma sqrt(d / n_inliers)) stays well below the 0.015 tolerance
        sigma = rng.choice([0.01, 0.02, 0.03])
        npairs = rng.choice([40, 41, 60, 100, 200, 400, rng.randint(40, 400)])
        fout = rng.choice([0.0, 0.1, 0.2, 0.3, rng.uniform(0, 0.3)])
        src = np.array([[rng.uniform(-10, 10) for _ in range(d)] for _ in range(npairs)])
        ang = rng.choice([rng.uniform(-0.2, 0.2), 0.2, -0.2, 0.0])
        R = rot(rng, d, ang)
        t = rand_dir(rng, d) * rng.choice([rng.uniform(0, 0.5), 0.5, 0.0])
        tgt = src @ R.T + t + np.array([[rng.gauss(0, 0.3 * sigma) for _ in range(d)] for _ in range(npairs)])
        outs = sorted(rng.sample(range(npairs), int(fout * npairs)))
        for i in outs:
            tgt[i] = src[i] @ R.T + t + rand_dir(rng, d) * sigma * rng.uniform(10.5, 60)
        T = homog(R, t)
        toks = ["syn", kind, hexf(sigma), str(npairs)] + [hexf(x) for x in src.flatten()] + [hexf(x) for x in tgt.flatten()]
        toks += ["|"] + [hexf(x) for x in T.flatten()] + ["|"] + [str(i) for i in outs]
        cases.append(" ".join(toks))
    return cases


def attach_traces(kindword, cases):
    """stage 1 of the ICP tie: run the implementation once to record the hook trace of every case; the recorded
    outcomes are embedded in the case line so that the model replays them, and the implementation is run again in
    the main pass (fresh object, deterministic engine) and must reproduce the same trace."""
    work = tempfile.mkdtemp(prefix="verif-C06-stage1-")
    try:
        exe, log = vcommon.build_harness("C06.cpp", REPO_SRCS, work, CXXFLAGS)
        if exe is None:
            return [kindword + " " + c + " | -1" for c in cases]
        out, err = vcommon.run_lines(exe, [kindword + " " + c for c in cases], timeout=600)
        res = []
        for i, c in enumerate(cases):
            tr = "-1"
            if i < len(out) and " T " in out[i]:
                tr = out[i].split(" T ", 1)[1]
            res.append(kindword + " " + c + " | " + tr)
        return res
    finally:
        shutil.rmtree(work, ignore_errors=True)


def gen(rng, tier):
    big = tier == "thorough"
    groups = [
        ("ransac-iterations", gen_it(rng, 6000 if big else 600)),
        ("estimate-scripted", gen_est(rng, 3000 if big else 300)),
        ("rigid-consensus", gen_rig(rng, 1500 if big else 150, False)),
        ("rigid-under-ransac", gen_rig(rng, 1000 if big else 100, True)),
    ]
    icp = icp_grid(rng, tier)
    groups.append(("icp-envelope(testing)", attach_traces("icp", icp)))
    det = icp[:8] + icp[52:56] if not big else icp[:120]
    groups.append(("icp-one-to-one-filter", attach_traces("icpd", det)))
    groups.append(("ransac-synthetic-outliers(testing)", gen_syn(rng, 6000 if big else 400)))
    return groups


# ------------------------------------------------------------------------------------------------ comparison
def parse_corr_list(toks, k):
    """'<len> s:t:sq ...' starting at toks[k]; returns (list, next index)"""
    n = int(toks[k])
    out = []
    for x in toks[k + 1:k + 1 + n]:
        s, t, q = x.split(":")
        out.append((int(s), int(t), fh(q)))
    return out, k + 1 + n


def corr_lists_close(a, b):
    if len(a) != len(b):
        return "length %d vs %d" % (len(a), len(b))
    for i, (x, y) in enumerate(zip(a, b)):
        if x[0] != y[0] or x[1] != y[1]:
            return "entry %d: %s vs %s" % (i, x[:2], y[:2])
        if not vcommon.close(x[2], y[2], 1e-9, 1e-12):
            return "entry %d: residual %r vs %r" % (i, x[2], y[2])
    return None


def model_margin(ml):
    t = ml.split()
    if t and t[-1].startswith("m="):
        return fh(t[-1][2:]), " ".join(t[:-1])
    return float("inf"), ml


STATS = {"tie_prone": 0}


def compare(case, il, ml):
    cmd = case.split(" ", 1)[0]
    if cmd == "syn":
        return None
    if cmd == "it":
        a = [fh(x) for x in il.split()]
        left, _, right = ml.partition("|")
        b = [fh(x) for x in left.split()]
        ratios = [fh(x) for x in right.split()]
        if len(a) != len(b):
            return "token count"
        for i, (x, y) in enumerate(zip(a, b)):
            if x != y:
                r = ratios[i - 1] if 0 < i <= len(ratios) else float("nan")
                if r == r and abs(r - round(r)) <= TIE * max(1.0, abs(r)):
                    STATS["tie_prone"] += 1
                    return None          # pre-truncation value within 1e-9 of an integer: tie-prone, rest follows
                return "bound after update %d: impl %r model %r (pre-truncation %r)" % (i, x, y, r)
        return None
    if cmd == "est":
        return vcommon.compare_tokens(il, ml)
    if cmd in ("rig", "cmp"):
        m, body = model_margin(ml)
        if m < TIE:
            STATS["tie_prone"] += 1
            return None
        a, b = il.split(), body.split()
        if len(a) != len(b):
            return "token count %d vs %d" % (len(a), len(b))
        for i, (x, y) in enumerate(zip(a, b)):
            if x == y:
                continue
            if ":" in x and ":" in y:
                xs, ys = x.split(":"), y.split(":")
                if xs[:2] == ys[:2] and vcommon.close(fh(xs[2]), fh(ys[2]), 1e-9, 1e-12):
                    continue
                return "token %d: impl %r model %r" % (i, x, y)
            fx, fy = vcommon.parse_num(x), vcommon.parse_num(y)
            if fx is None or fy is None or not vcommon.close(fx, fy, 1e-9, 1e-15):
                return "token %d: impl %r model %r" % (i, x, y)
        return None
    if cmd in ("icp", "icpd"):
        if ml in ("notrace", "incomplete") or ml.startswith("incomplete"):
            return "model could not replay the trace (%s)" % ml.split()[0]
        emb = case.split(" | ", 1)[1].split()
        it = il.split()
        if "T" not in it:
            return "no trace in implementation output"
        k = it.index("T")
        if it[k + 1:] != emb:
            return "implementation trace differs from the trace recorded in stage 1 (not reproducible)"
        m, body = model_margin(ml)
        if m < TIE:
            STATS["tie_prone"] += 1
            return None
        mt = body.split()
        ntrace = int(emb[0])
        if ntrace < 0:
            return "hook H1 absent: no per-iteration trace"
        found_m, n_m, ret_m = mt[0], int(mt[1]), int(mt[2])
        if found_m != it[0]:
            return "return value: impl %s model %s" % (it[0], found_m)
        ran = n_m + 1 if found_m == "1" else n_m
        if ran != ntrace:
            return "iterations run: impl %d model %d" % (ntrace, ran)
        Mi = it[2:11]
        Mm = mt[4:13]
        if Mi != Mm:
            return "returned transformation is not that of iteration %d" % ret_m
        if cmd == "icpd":
            # kept pairs per iteration: impl (from trace) vs model
            kept_model = []
            p = 13
            while p < len(mt) and mt[p] == "K":
                n = int(mt[p + 1])
                kept_model.append(mt[p + 2:p + 2 + n])
                p += 2 + n
            q = 1
            for e in range(ntrace):
                pairs = int(emb[q + 3])
                q += 4 + 9
                nc = int(emb[q])
                q += 1 + 3 * nc
                nk = int(emb[q])
                kept_impl = ["%s:%s" % (emb[q + 1 + 2 * i], emb[q + 2 + 2 * i]) for i in range(nk)]
                q += 1 + 2 * nk
                if pairs != nk:
                    return "iteration %d: matched-pair count %d differs from the kept list (%d)" % (e, pairs, nk)
                if e >= len(kept_model) or kept_impl != kept_model[e]:
                    return "iteration %d: one-to-one filter keeps different pairs (impl %d, model %d)" % (
                        e, nk, len(kept_model[e]) if e < len(kept_model) else -1)
        return None
    return vcommon.compare_tokens(il, ml)


# ------------------------------------------------------------------------------------------------ oracle
def in_known_corner(tx, ty, th):
    """the characterised failing region of the known finding (see known_findings.d/C06.json)"""
    return tx >= 0.18 and ty >= 0.17 and th >= 0.044


def oracle(case, out):
    t = case.split()
    cmd = t[0]
    fails = []
    o = out.split()
    if cmd == "it":
        npoints, p, maxit, sdraw = int(t[1]), fh(t[2]), int(t[3]), int(t[4])
        ks = [int(x) for x in t[5:]]
        b = [fh(x) for x in o]
        if len(b) != len(ks) + 1:
            return [("c06-iterations-shape", "expected %d values" % (len(ks) + 1))]
        if b[0] != maxit:
            fails.append(("c06-iterations-init", "bound after construction %r, configured maximum %d" % (b[0], maxit)))
        lp = mpmath.log(1 - mpmath.mpf(p))
        for i, k in enumerate(ks):
            prev, cur = b[i], b[i + 1]
            if cur > prev or cur > maxit or cur != int(cur) or cur < 0:
                fails.append(("c06-iterations-monotone", "update %d (k=%d): bound %r after %r (max %d)" % (i, k, cur, prev, maxit)))
                continue
            w = mpmath.mpf(k) / npoints
            q = 1 - w ** sdraw
            q = min(max(q, mpmath.mpf(DBL_EPS)), 1 - mpmath.mpf(DBL_EPS))
            ratio = lp / mpmath.log(q)
            allowed = {min(prev, float(mpmath.floor(ratio * (1 - mpmath.mpf(TIE))))), min(prev, float(mpmath.floor(ratio * (1 + mpmath.mpf(TIE)))))}
            if ratio > 4 * max(prev, 1):
                allowed = {prev}
            if cur not in allowed:
                fails.append(("c06-iterations-formula", "update %d: n=%d k=%d s=%d p=%r: bound %r, expected min(%r, floor(%s))"
                              % (i, npoints, k, sdraw, p, cur, prev, mpmath.nstr(ratio, 15))))
        return fails
    if cmd == "est":
        npoints, sdraw, mininl = int(t[1]), int(t[2]), int(t[3])
        script = [(x.split(":")[0] == "1", int(x.split(":")[1])) for x in t[5:]]
        if o[0] == "runaway":
            return [("c06-estimate-iterations", "more than 200000 draws: the iteration bound does not stop the loop")]
        ok, draws, counts, refines, after, sig = [int(x) for x in o[:6]]
        if npoints < mininl:
            if ok or draws or counts or refines:
                fails.append(("c06-estimate-too-few-points", "%d points < %d minimal inliers but ok=%d draws=%d" % (npoints, mininl, ok, draws)))
            return fails
        if draws > MAXIT:
            fails.append(("c06-estimate-iterations", "%d draws > configured maximum" % draws))
        exe_script = script[:draws]
        if counts != sum(1 for d, _ in exe_script if d):
            fails.append(("c06-estimate-count-calls", "countInliers called %d times for %d successful draws" % (counts, sum(1 for d, _ in exe_script if d))))
        best = max([f32round_int(c) for d, c in exe_script if d] + [0])
        if bool(ok) != (best > sdraw):
            fails.append(("c06-estimate-success", "returned %d but best inlier count %d vs draw size %d" % (ok, best, sdraw)))
        if refines != (1 if ok else 0) or after != 0:
            fails.append(("c06-estimate-refine", "ok=%d refine calls=%d, calls after refine=%d" % (ok, refines, after)))
        if not sig:
            fails.append(("c06-estimate-sigma", "model called with a deviation different from the configured one"))
        return fails
    if cmd in ("rig", "cmp"):
        return oracle_rig(t, o, cmd == "cmp")
    if cmd in ("icp", "icpd"):
        tx, ty, th = fh(t[2]), fh(t[3]), fh(t[4])
        if o[0] == "noscan":
            return [("c06-icp-noscan", "scan file not found")]
        found = o[0] == "1"
        M = np.array([fh(x) for x in o[2:11]]).reshape(3, 3)
        T = np.array([[math.cos(th), -math.sin(th), tx], [math.sin(th), math.cos(th), ty], [0, 0, 1]])
        fro = float(np.linalg.norm(M - T))
        if not found or not fro <= TOL:
            key = "c06-icp-envelope"
            if in_known_corner(tx, ty, th) and not found:
                key = "c06-icp-no-convergence-corner+tx+ty+theta"
            fails.append((key, "displacement (%.6g, %.6g, %.6g rad) %s points: found=%d, Frobenius distance %.4g (tolerance %.3g)"
                          % (tx, ty, th, "Cartesian" if t[1] == "c" else "homogeneous", found, fro, TOL)))
        if cmd == "icpd" and "T" in o:
            fails += oracle_filter(o[o.index("T") + 1:])
        return fails
    if cmd == "syn":
        kind, sigma, n = t[1], fh(t[2]), int(t[3])
        d = int(kind[1])
        bars = [i for i, x in enumerate(t) if x == "|"]
        T = np.array([fh(x) for x in t[bars[0] + 1:bars[1]]]).reshape(d + 1, d + 1)
        outs = set(int(x) for x in t[bars[1] + 1:])
        ok, rmse, nbest = o[0] == "1", fh(o[1]), int(o[2])
        M = np.array([fh(x) for x in o[3:3 + (d + 1) ** 2]]).reshape(d + 1, d + 1)
        idx = [int(x) for x in o[o.index("I") + 1:]]
        fro = float(np.linalg.norm(M - T))
        tag = "%s n=%d sigma=%g outliers=%d" % (kind, n, sigma, len(outs))
        if not ok:
            fails.append(("c06-ransac-fails", tag + ": estimateModel returned false"))
        else:
            if not fro <= TOL:
                fails.append(("c06-ransac-transform", tag + ": Frobenius distance %.4g > %.3g" % (fro, TOL)))
            if not rmse < sigma:
                fails.append(("c06-ransac-error-not-below-sigma", tag + ": reported consensus error %r, sigma %r" % (rmse, sigma)))
            if outs & set(idx):
                fails.append(("c06-ransac-outlier-in-consensus", tag + ": %d outliers in the refit input" % len(outs & set(idx))))
        return fails
    return fails


def oracle_filter(tr):
    """one-to-one property on the recorded candidates / kept pairs of every iteration"""
    fails = []
    n = int(tr[0])
    q = 1
    for e in range(n):
        q += 4 + 9
        nc = int(tr[q])
        cands = [(int(tr[q + 1 + 3 * i]), int(tr[q + 2 + 3 * i]), fh(tr[q + 3 + 3 * i])) for i in range(nc)]
        q += 1 + 3 * nc
        nk = int(tr[q])
        kept = [(int(tr[q + 1 + 2 * i]), int(tr[q + 2 + 2 * i])) for i in range(nk)]
        q += 1 + 2 * nk
        srcs = [s for s, _ in kept]
        if len(set(srcs)) != len(srcs):
            fails.append(("c06-filter-not-one-to-one", "iteration %d: a source index is kept twice" % e))
        if set(srcs) != set(s for s, _, _ in cands):
            fails.append(("c06-filter-source-lost", "iteration %d: kept sources differ from matched sources" % e))
        dist = {(s, t): dd for s, t, dd in cands}
        mind = {}
        for s, _, dd in cands:
            mind[s] = min(mind.get(s, float("inf")), dd)
        for s, tt in kept:
            if (s, tt) not in dist or dist[(s, tt)] != mind[s]:
                fails.append(("c06-filter-not-nearest", "iteration %d: source %d keeps target %d which is not its nearest" % (e, s, tt)))
                break
    return fails


def oracle_rig(t, o, composed):
    fails = []
    kind, sigma = t[1], fh(t[2])
    hom, d = kind[0] == "h", int(kind[1])
    sz = d + 1 if hom else d
    ncand, npts, ncorr, nsample = int(t[3]), int(t[4]), int(t[5]), int(t[6])
    k = 8
    Ms = []
    for _ in range(ncand):
        Ms.append([[Fraction(fh(t[k + i * (d + 1) + j])) for j in range(d + 1)] for i in range(d + 1)])
        k += (d + 1) ** 2
    k += ncand * nsample
    src = [[Fraction(fh(t[k + i * sz + j])) for j in range(sz)] for i in range(npts)]
    k += npts * sz
    tgt = [[Fraction(fh(t[k + i * sz + j])) for j in range(sz)] for i in range(npts)]
    k += npts * sz
    corrs = [(int(t[k + 3 * i]), int(t[k + 3 * i + 1])) for i in range(ncorr)]
    gate = 9 * Fraction(sigma) ** 2
    mininl = 2 * (3 if d == 2 else 4)

    def resid(M, s, g):
        p = src[s]
        if hom:
            pr = [sum(M[i][j] * p[j] for j in range(sz)) for i in range(sz)]
        else:
            pr = [sum(M[i][j] * p[j] for j in range(d)) + M[i][d] for i in range(d)]
        return sum((a - b) ** 2 for a, b in zip(tgt[g], pr))

    distinct_targets = len(set(g for _, g in corrs)) == len(corrs)
    sorted_impl, p = parse_corr_list(o, 1)
    if sorted([(s, g) for s, g, _ in sorted_impl]) != sorted(corrs):
        fails.append(("c06-rigid-sorted", "sorted correspondences are not a permutation of the input"))
    if composed:
        # R ok ndraw nrefine bestrmse <best> A <refit input>
        ok, ndraw, nref, brmse = o[p + 1] == "1", int(o[p + 2]), int(o[p + 3]), fh(o[p + 4])
        best, q = parse_corr_list(o, p + 5)
        refit, _ = parse_corr_list(o, q + 1)
        if ok:
            if not brmse < sigma:
                fails.append(("c06-ransac-error-not-below-sigma", "success with reported consensus error %r >= sigma %r" % (brmse, sigma)))
            if nref != 1 or [(a, b) for a, b, _ in refit] != [(a, b) for a, b, _ in best]:
                fails.append(("c06-estimate-refine", "refine calls %d; refit input differs from the stored consensus" % nref))
            if len(best) < mininl:
                fails.append(("c06-rigid-min-inliers", "success with %d < %d inliers" % (len(best), mininl)))
            # every member of the consensus is within 3 sigma of some drawn candidate (the one that produced it)
            if distinct_targets:
                okc = False
                for M in Ms[:ndraw]:
                    rs = [resid(M, s, g) for s, g, _ in best]
                    if all(r < gate * (1 + Fraction(1, 10 ** 8)) for r in rs):
                        okc = True
                        break
                if not okc:
                    fails.append(("c06-rigid-consensus-not-3sigma", "no drawn candidate has the stored consensus within 3 sigma"))
        elif nref != 0:
            fails.append(("c06-estimate-refine", "failure but refine called %d times" % nref))
        return fails
    # per candidate:  C ck ret changed bestrmse <consensus>
    cons = []
    for c in range(ncand):
        ret, brmse = int(o[p + 2]), fh(o[p + 4])
        lst, p2 = parse_corr_list(o, p + 5)
        cons.append((lst, ret, brmse))
        p = p2
        exact = [(s, g, resid(Ms[c], s, g)) for s, g, _ in sorted_impl]
        near = any(abs(r - gate) <= gate * Fraction(1, 10 ** 8) for _, _, r in exact)
        if near:
            continue
        want = [(s, g) for s, g, r in exact if r < gate]
        got = [(s, g) for s, g, _ in lst]
        if distinct_targets:
            if got != want:
                fails.append(("c06-rigid-inliers-not-3sigma-filter", "candidate %d: consensus %s, 3-sigma filter gives %s" % (c, got[:8], want[:8])))
        else:
            if len(got) != len(want) or not set(got) <= set(want):
                fails.append(("c06-rigid-inliers-not-3sigma-filter", "candidate %d: %d listed, %d within 3 sigma" % (c, len(got), len(want))))
    brmse_final = fh(o[p + 1])
    best, _ = parse_corr_list(o, p + 2)
    # best consensus: maximum of (size, -rmse) among the candidates passing both gates, first one on ties
    bi, bkey = None, None
    tie = False
    for c, (lst, _, _) in enumerate(cons):
        if not lst:
            continue
        r = math.sqrt(sum(x[2] for x in lst) / len(lst))
        if abs(r - sigma) <= 1e-9 * sigma:
            tie = True
        if len(lst) >= mininl and r < sigma:
            if bkey is not None and len(lst) == bkey[0] and abs(r - bkey[1]) <= 1e-9 * sigma and r != bkey[1]:
                tie = True
            if bkey is None or len(lst) > bkey[0] or (len(lst) == bkey[0] and r < bkey[1]):
                bi, bkey = c, (len(lst), r)
    if not tie:
        if bi is None:
            if best:
                fails.append(("c06-rigid-best-consensus", "no candidate passes the gates but a consensus of %d is stored" % len(best)))
        else:
            if [(a, b) for a, b, _ in best] != [(a, b) for a, b, _ in cons[bi][0]] or not vcommon.close(brmse_final, bkey[1], 1e-9, 1e-15):
                fails.append(("c06-rigid-best-consensus", "stored consensus (size %d, rmse %r) is not candidate %d (size %d, rmse %r)"
                              % (len(best), brmse_final, bi, bkey[0], bkey[1])))
            if not brmse_final < sigma:
                fails.append(("c06-ransac-error-not-below-sigma", "stored consensus error %r >= sigma %r" % (brmse_final, sigma)))
    return fails


def nontrivial(case, out):
    t = case.split(" ", 2)
    cmd = t[0]
    o = out.split()
    if cmd == "it":
        return len(set(o)) >= 2 and case
    if cmd == "est":
        return o[0] != "runaway" and int(o[1]) >= 1 and case
    if cmd == "rig":
        return " C " in out and case
    if cmd in ("icp", "icpd"):
        return ("T" in o and int(o[o.index("T") + 1]) >= 2) and case
    return case


def coverage_extra():
    return {"tie_prone_cases_skipped_in_correspondence": STATS["tie_prone"],
            "testing_only_groups": ["icp-envelope(testing)", "ransac-synthetic-outliers(testing)"],
            "not_covered_by_any_theorem": [
                "ICP converges within 0.015 (Frobenius) for every displacement of test/data/scan2d.txt in the envelope",
                "RANSAC's random draws hit an outlier-free minimal sample (probabilistic; engine is default-seeded, so "
                "a fresh object is deterministic)"]}


CHECK = {
    "coq": "Properties_C06",
    "driver": "drv_C06",
    "harness": "C06.cpp",
    "repo_srcs": REPO_SRCS,
    "cxxflags": CXXFLAGS,
    "gen": gen,
    "oracle": oracle,
    "compare": compare,
    "nontrivial": nontrivial,
    "coverage_extra": coverage_extra,
    "run_timeout": 1200,
    "rule": "PARTIAL. Correspondence (model vs code): RansacIterations on (points, p, max, draw size, inlier-count sequences); "
            "Ransac::estimateModel over a scripted RansacModel (script of draw results / counts, incl. counts >= 2^24); "
            "RansacRigidTransformationModel through a derived class (candidate matrices around the 3-sigma gate, duplicate targets) "
            "alone and under the real Ransac::estimateModel; the ICP loop replayed from the hook-H1 trace (per-iteration success, rmse, "
            "matrix; for the detail group also the matched candidates and the kept pairs). Integer outputs compared exactly, residuals "
            "1e-9 relative; cases whose pre-threshold value lies within 1e-9 relative of a threshold are tie-prone and only judged by "
            "the oracle. TESTING (failing-input search, not proof): groups named '(testing)' — ICP on test/data/scan2d.txt displaced "
            "on a grid over |tx|,|ty|<=0.2, |theta|<=0.05 incl. all corners, zero and random interior points, Cartesian and "
            "homogeneous, fresh object, identity guess, sigma=0.2 (the repository test's value): success and Frobenius <= 0.015; "
            "synthetic 2D/3D sets of 40..400 pairs over 20 m, noise 0.3 sigma, <=30% outliers beyond 10 sigma, motion <=0.5 m/0.2 rad, "
            "sigma in {0.01,0.02,0.03}: success, Frobenius <= 0.015, reported error < sigma, no outlier in the refit input. "
            "The sampling engine is a default-constructed std::default_random_engine: a fresh object is deterministic, so no re-run rule "
            "is needed. Non-trivial = bound changes / at least one draw / at least two ICP iterations.",
    "trusted": ["hand-written models coq/RansacModel.v, coq/IcpModel.v: RansacIterations, Ransac::estimateModel and the ICP exit logic "
                "are tied syntactically (translate/tr_C06_ransac.py: clang AST -> coq/gen/SrcRansac.v, equality proved in "
                "coq/SrcTieC06.v; trusted: clang's AST dump and the translator's reading of it, listed in its docstring) AND by "
                "differential execution; the rigid model (countInliers / check_ / store) and the one-to-one filter only by "
                "differential execution (this run)",
                "point-to-plane estimator / LeastSquares models (coq/P2pModel.v, coq/LsModel.v) are those of C05 / C07, tied there",
                "translator translate/constants.py + translate/tables/C06.json (0.99f, factor 9, 2x draw size, 3/4, ICP 10 / 0.001, RANSAC 1000)",
                "hook H1 in FindRigidTransformationByICP.cpp (add-only, guarded) reports what the loop did",
                "std::sort / std::unique of libstdc++ (unique without erase leaves the tail in place; modelled as such)",
                "extraction (ExtrOcamlBasic), ocaml/numf.ml, ocaml/drv_C06.ml, harness/C06.cpp, python oracle in checks/C06.py",
                "kd-tree matching, normal estimation, the SVD / least-squares estimators and <random>: not modelled (abstract outcomes)"],
    "assumptions": ["comparisons are read over the reals in the theorems; the binary64 instance is executed and compared",
                    "inlier counts < 2^24 are unchanged by the float round trip in Ransac.cpp (modelled exactly by f32round)",
                    "0 < p < 1, numberOfPoints >= 1 and at least one inlier in every update for the closed formula of the bound",
                    "convergence of ICP over the envelope and the luck of the random draws are NOT proved: sampled only"],
    "manifest": {
        "text": "PARTIAL. Proved in Coq for all inputs / all draw sequences about models of the code: RANSAC iteration bound is "
                "non-increasing, <= the configured maximum and equals min(previous, floor(ln(1-p)/ln(1-w^s))) with its EPSILON clamps; "
                "estimateModel returns false below the minimal number of points, otherwise true iff the best count exceeds the draw size, "
                "and calls refine exactly once, last, iff true; the consensus is exactly the 3-sigma filter; the stored consensus is the "
                "lexicographic maximum (size, -rmse) of the candidates passing both gates; on success the reported error is < sigma; "
                "outliers outside every drawn model's gate never reach the refit; the one-to-one filter keeps each source once with a "
                "nearest target; ICP returns true iff it broke on a successful iteration whose matrix moved < epsilon; its best estimate "
                "has the minimal rmse. ZERO DISPLACEMENT: when every correspondence pairs a target point with an identical source "
                "point (any normals, any subset / order / multiplicity, any configured preconditioner, 2D / 3D, Cartesian / "
                "homogeneous) the point-to-plane estimator model returns exactly the identity matrix for ANY LDLT / SVD oracle "
                "(all right-hand sides are 0, every solver path returns the parameter vector 0; under the right-inverse contract "
                "0 is the only solution of the normal equations), and if every successful iteration's transformation is the "
                "identity the ICP loop model reports success at the first iteration whose step-difference test is evaluated and "
                "hands out the identity; on the RANSAC rigid model with identical pairs and the identity as candidate every "
                "residual is 0, the consensus is the whole correspondence list with rmse 0, check_ accepts the sample and "
                "estimateModel returns true at the first draw with the full consensus handed to refine (>= 2 x draw size "
                "correspondences). "
                "Tied to the code on every run (a) SYNTACTICALLY: translate/tr_C06_ransac.py regenerates from the clang AST "
                "RansacIterations (constructor, update incl. the EPSILON clamps, the size_t truncation and std::min, get), "
                "Ransac::estimateModel as a program over an abstract RansacModel (early return, while loop, draw / countInliers / "
                "best-consensus test through the float variable / update / final test / refine) and the exit logic of "
                "FindRigidTransformationByICP::find (block after a successful estimateModel, loop header, return), and "
                "coq/SrcTieC06.v proves them equal to iters_init / iters_update / iters_get (every numeric dictionary), estimate "
                "(every dictionary with an order-preserving integer conversion; the reals) and icp_step / icp_run (every "
                "dictionary): theorems C06_source_tie_*; (b) by executing the extracted models against the real classes "
                "(scripted RansacModel, derived rigid model, hook-H1 replay of the ICP loop). NOT proved: convergence within 0.015 "
                "over the envelope and the success of the random draws — these are sampled (failing-input search) and reported as "
                "testing; also not proved: that at zero displacement the kd-tree pairs every point with itself (C08's property) "
                "and that RANSAC's drawn samples pass its gates (sampled: the grid contains the zero displacement, oracle demands "
                "the identity within 0.015).",
        "note": "Trusted: Coq kernel; real-number axioms; clang's JSON AST and the plug-in translator tr_C06_ransac.py (conventions: "
                "size_t -> Z, integer->float conversion = f32round, double->size_t = ntruncZ, virtual calls on ransacModel_ = "
                "function arguments threading the object, Eigen (A-B).array().abs().sum() = mat_absdiff, the rest of the ICP loop "
                "body only checked not to touch the loop variables); the rigid model / one-to-one filter tied only by differential "
                "execution; hook H1; libstdc++ sort/unique; extraction; numf.ml; harness and oracle. Kd-tree, normals, the SVD "
                "estimator, <random> are abstract (oracle arguments). Floating point is observed, not proved.",
        "technique": "Coq proof (induction over update / draw / iteration sequences; linear algebra over the reals for the "
                     "zero-displacement clause) + clang-AST translator with generated-term tie lemmas + extracted-model "
                     "correspondence run + envelope sampling (testing) for the convergence claim",
    },
}
