"""C03 — Lambert conic projection is conformal, true-scale on its parallels, invertible.
Oracle (mpmath, 50 digits): local scales by 5-point numerical differentiation of the implementation's own forward
map, divided by the ellipsoid's meridional radius M and parallel radius N cos(lat); origin, central meridian,
inverse to 1e-11 rad."""
import math
from mpmath import mp, mpf
from vcommon import hexf, parse_num

mp.dps = 50
DEG = math.pi / 180
D_STEP = 2.0 ** -10          # differentiation step (rad)
TOL_SCALE = mpf("2e-8")      # numerical-differentiation tolerance on scale factors (relative)
TOL_RAD = mpf("1e-11")
TOL_M = mpf("1e-6")

GRS80 = (6378137.0, 6356752.314)
CLARKE = (6378249.2, 6356515.0)
PARIS = (2 + 20 / 60 + 14.025 / 3600) * DEG

NAMED = [("sec", GRS80, dict(lon0=3 * DEG, lat0=46.5 * DEG, lat1=44 * DEG, lat2=49 * DEG, x0=700000.0, y0=6600000.0))]   # Lambert-93
for z in range(42, 51):   # CC42 .. CC50
    NAMED.append(("sec", GRS80, dict(lon0=3 * DEG, lat0=z * DEG, lat1=(z - 0.75) * DEG, lat2=(z + 0.75) * DEG,
                                     x0=1700000.0, y0=(z - 41) * 1e6 + 200000.0)))
for lat0g, k0, x0, y0 in [(55.0, 0.99987734, 600000.0, 200000.0), (52.0, 0.99987742, 600000.0, 200000.0),
                          (49.0, 0.99987750, 600000.0, 200000.0), (46.85, 0.99994471, 234.358, 185861.369),
                          (52.0, 0.99987742, 600000.0, 2200000.0)]:   # Lambert I-IV, II etendu (NTF, grades)
    NAMED.append(("tan", CLARKE, dict(lat0=lat0g * 0.9 * DEG, lon0=PARIS, k0=k0, x0=x0, y0=y0)))
# the witness of the southern-cone defect
NAMED.append(("sec", GRS80, dict(lon0=0.3, lat0=-0.68, lat1=-0.5759, lat2=-0.7854, x0=500000.0, y0=300000.0)))


def rand_ellipsoid(rng):
    a = 6378137.0 * (1 + rng.uniform(-1e-3, 1e-3))
    e = rng.choice([0.0, 0.1, 0.0818191910428, rng.uniform(0, 0.1), rng.uniform(0, 0.1)])
    return (a, a * math.sqrt(1 - e * e))


def rand_set(rng):
    hemi = rng.choice([1, -1])
    el = rng.choice([GRS80, CLARKE, rand_ellipsoid(rng), rand_ellipsoid(rng)])
    lon0 = rng.choice([0.0, 3 * DEG, rng.uniform(-math.pi + 0.6, math.pi - 0.6)])
    x0, y0 = rng.choice([(0.0, 0.0), (rng.uniform(0, 2e6), rng.uniform(0, 9e6))])
    if rng.random() < 0.6:
        sep = rng.choice([1.0, 20.0, rng.uniform(1, 20)]) * DEG
        lo = rng.uniform(15 * DEG, 75 * DEG - sep)
        l1, l2 = lo, lo + sep
        if rng.random() < 0.5:
            l1, l2 = l2, l1
        lat0 = rng.choice([(l1 + l2) / 2, l1, l2, rng.uniform(min(l1, l2), max(l1, l2))])
        return ("sec", el, dict(lon0=lon0, lat0=hemi * lat0, lat1=hemi * l1, lat2=hemi * l2, x0=x0, y0=y0))
    lat0 = rng.choice([15 * DEG, 75 * DEG, rng.uniform(15 * DEG, 75 * DEG)])
    k0 = rng.choice([0.99, 1.0, rng.uniform(0.99, 1.0)])
    return ("tan", el, dict(lat0=hemi * lat0, lon0=lon0, k0=k0, x0=x0, y0=y0))


def case_line(kind, el, p, lat, lon):
    if kind == "sec":
        v = [el[0], el[1], p["lon0"], p["lat0"], p["lat1"], p["lat2"], p["x0"], p["y0"], lat, lon, D_STEP]
    else:
        v = [el[0], el[1], p["lat0"], p["lon0"], p["k0"], p["x0"], p["y0"], lat, lon, D_STEP]
    return kind + " " + " ".join(hexf(x) for x in v)


def points(rng, kind, p, k):
    pts = []
    lat0, lon0 = p["lat0"], p["lon0"]
    special_lat = [lat0] + ([p["lat1"], p["lat2"]] if kind == "sec" else [])
    for _ in range(k):
        r = rng.random()
        if r < 0.3:
            lat = rng.choice(special_lat)
        elif r < 0.4:
            lat = lat0 + rng.choice([-8, 8]) * DEG
        else:
            lat = lat0 + rng.uniform(-8, 8) * DEG
        r = rng.random()
        if r < 0.15:
            lon = lon0
        elif r < 0.25:
            lon = lon0 + rng.choice([-30, 30]) * DEG
        else:
            lon = lon0 + rng.uniform(-30, 30) * DEG
        pts.append((lat, lon))
    return pts


def gen(rng, tier):
    big = tier == "thorough"
    named, rnd, iso = [], [], []
    for kind, el, p in NAMED:
        for lat, lon in points(rng, kind, p, 60 if big else 12):
            named.append(case_line(kind, el, p, lat, lon))
    for _ in range(12000 if big else 500):
        kind, el, p = rand_set(rng)
        for lat, lon in points(rng, kind, p, 6 if big else 5):
            rnd.append(case_line(kind, el, p, lat, lon))
            if rng.random() < 0.25:
                # the same projection parameters and the bit-identical point on another ellipsoid, right afterwards
                # (converters for several datums used side by side in one process: nothing may be shared between them)
                el2 = rng.choice([e for e in (GRS80, CLARKE, rand_ellipsoid(rng)) if e != el])
                rnd.append(case_line(kind, el2, p, lat, lon))
    for _ in range(5000 if big else 600):
        lat = rng.choice([1, -1]) * rng.choice([rng.uniform(0, 85 * DEG), rng.uniform(7 * DEG, 83 * DEG), 0.0, 83 * DEG])
        e = rng.choice([0.0, 0.1, 0.0818191910428, 0.08248325676, rng.uniform(0, 0.1)])
        iso.append("iso %s %s" % (hexf(lat), hexf(e)))
        if rng.random() < 0.25:
            iso.append("iso %s %s" % (hexf(lat), hexf(rng.choice([0.0, 0.1, 0.05, rng.uniform(0, 0.1)]))))
    return [("named-zones", named), ("random-sets", rnd), ("isometric-latitude", iso)]


# ------------------------------------------------------------------ oracle
def fin(x):
    return x is not None and x == x and not math.isinf(x)


def d5(fm2, fm1, fp1, fp2, h):
    """5-point central first derivative"""
    return (8 * (mpf(fp1) - mpf(fm1)) - (mpf(fp2) - mpf(fm2))) / (12 * h)


def oracle(case, out):
    t = case.split()
    kind = t[0]
    f = [float.fromhex(x) for x in t[1:]]
    toks = out.split()
    fails = []
    if kind == "iso":
        lat, e = f
        if "HANG" in toks:
            return [("c03-hang", "computeLatitude did not return")]
        v = [parse_num(x) for x in toks]
        if len(v) != 2 or not all(fin(x) for x in v):
            return [("c03-nonfinite", "iso: %r" % out)]
        s = mp.sin(mpf(lat))
        L = mp.atanh(s) - mpf(e) * mp.atanh(mpf(e) * s)
        if abs(L - v[0]) > mpf("1e-12") * (1 + abs(L)):
            fails.append(("c03-isolat", "isometric latitude %r, expected %s" % (v[0], mp.nstr(L, 17))))
        if abs(mpf(v[1]) - mpf(lat)) > TOL_RAD:
            fails.append(("c03-inverse", "computeLatitude(isometricLatitude(lat)) differs from lat by %s rad" % mp.nstr(abs(mpf(v[1]) - mpf(lat)), 4)))
        return fails
    if kind == "sec":
        a, b, lon0, lat0, lat1, lat2, x0, y0, lat, lon, d = f
        k0 = None
    else:
        a, b, lat0, lon0, k0, x0, y0, lat, lon, d = f
        lat1 = lat2 = None
    if len(toks) != 28:
        return [("c03-shape", "expected 28 tokens: %r" % out[:200])]
    hang = toks[6] == "HANG"
    v = [None if x == "HANG" else parse_num(x) for x in toks]
    if not all(fin(x) for i, x in enumerate(v) if i not in (6, 7)):
        return [("c03-nonfinite", "forward map / parameters not finite: %r" % out[:300])]
    n, c = v[0], v[1]
    x, y = v[4], v[5]
    south = " (cone constant n=%.6g, c=%.6g)" % (n, c)
    # inverse
    if hang:
        fails.append(("c03-hang", "toWGS84 did not return within the time limit" + south))
    elif not (fin(v[6]) and fin(v[7])):
        fails.append(("c03-nonfinite", "toWGS84 returned (%r, %r)%s" % (v[6], v[7], south)))
    else:
        dl, do = abs(mpf(v[6]) - mpf(lat)), abs(mpf(v[7]) - mpf(lon))
        if dl > TOL_RAD or do > TOL_RAD:
            fails.append(("c03-inverse", "toWGS84(toLambert(p)) differs from p by dlat=%s dlon=%s rad%s" % (mp.nstr(dl, 4), mp.nstr(do, 4), south)))
    # local scales from the implementation's own forward map
    lat_pts = [fl for fl in (lat + k * d for k in (-2.0, -1.0, 1.0, 2.0))]
    lon_pts = [fl for fl in (lon + k * d for k in (-2.0, -1.0, 1.0, 2.0))]
    hlat = (mpf(lat_pts[2]) - mpf(lat_pts[1])) / 2      # effective step (exactly d unless rounding moved an abscissa)
    hlon = (mpf(lon_pts[2]) - mpf(lon_pts[1])) / 2
    g = v[8:24]
    dxdlat = d5(g[0], g[2], g[4], g[6], hlat)
    dydlat = d5(g[1], g[3], g[5], g[7], hlat)
    dxdlon = d5(g[8], g[10], g[12], g[14], hlon)
    dydlon = d5(g[9], g[11], g[13], g[15], hlon)
    a_, b_ = mpf(a), mpf(b)
    e2 = (a_ ** 2 - b_ ** 2) / a_ ** 2
    w = mp.sqrt(1 - e2 * mp.sin(mpf(lat)) ** 2)
    M = a_ * (1 - e2) / w ** 3
    Nc = a_ * mp.cos(mpf(lat)) / w
    km = mp.sqrt(dxdlat ** 2 + dydlat ** 2) / M
    kp = mp.sqrt(dxdlon ** 2 + dydlon ** 2) / Nc
    if abs(km - kp) > TOL_SCALE * kp:
        fails.append(("c03-conformal", "meridian scale %s differs from parallel scale %s" % (mp.nstr(km, 12), mp.nstr(kp, 12))))
    dot = dxdlat * dxdlon + dydlat * dydlon
    if abs(dot) > TOL_SCALE * (km * M) * (kp * Nc):
        fails.append(("c03-orthogonal", "images of meridian and parallel are not orthogonal (cos = %s)" % mp.nstr(dot / (km * M * kp * Nc), 6)))
    if dxdlon * dydlat - dydlon * dxdlat <= 0:
        fails.append(("c03-orientation", "east x north is not counter-clockwise in the map"))
    if kind == "sec" and (lat == lat1 or lat == lat2):
        if abs(kp - 1) > TOL_SCALE or abs(km - 1) > TOL_SCALE:
            fails.append(("c03-scale-parallel", "scale on a standard parallel is %s / %s, not 1" % (mp.nstr(kp, 12), mp.nstr(km, 12))))
    if kind == "tan" and lat == lat0:
        if abs(kp - mpf(k0)) > TOL_SCALE or abs(km - mpf(k0)) > TOL_SCALE:
            fails.append(("c03-scale-tangent", "scale on the tangent parallel is %s / %s, not k0 = %r" % (mp.nstr(kp, 12), mp.nstr(km, 12), k0)))
    # origin and central meridian
    if abs(abs(mpf(lat0)) - mp.pi / 2) > mpf("1e-6"):
        if abs(mpf(v[24]) - mpf(x0)) > TOL_M or abs(mpf(v[25]) - mpf(y0)) > TOL_M:
            fails.append(("c03-origin", "toLambert(lat0,lon0) = (%r,%r), false origin (%r,%r)" % (v[24], v[25], x0, y0)))
    if abs(mpf(v[26]) - mpf(x0)) > TOL_M:
        fails.append(("c03-central-meridian", "point on the central meridian has x = %r, x0 = %r" % (v[26], x0)))
    return fails


# ------------------------------------------------------------------ correspondence
def compare(case, il, ml):
    a, b = il.split(), ml.split()
    if len(a) != len(b):
        return "token count %d vs %d" % (len(a), len(b))
    kind = case.split()[0]
    for i, (x, y) in enumerate(zip(a, b)):
        if x == y:
            continue
        fx, fy = parse_num(x), parse_num(y)
        if fx is None or fy is None:
            return "token %d: impl %r model %r" % (i, x, y)
        if fx != fx or fy != fy:
            if not (fx != fx and fy != fy):
                return "token %d: impl %r model %r" % (i, x, y)
            continue
        if kind == "iso":
            rt, at = (4e-15, 1e-15) if i == 0 else (0, 1e-12)
        elif i == 0:
            rt, at = 1e-13, 0         # n
        elif i in (6, 7):
            rt, at = 0, 1e-12         # angles
        else:
            rt, at = 1e-13, 1e-6      # c, xs, ys, map coordinates (metres)
        if abs(fx - fy) > at + rt * max(abs(fx), abs(fy)):
            return "token %d: impl %r model %r (|diff|=%.3g)" % (i, x, y, abs(fx - fy))
    return None


def nontrivial(case, out):
    return "HANG" not in out and "nan" not in out and case


CHECK = {
    "coq": "Properties_C03",
    "driver": "drv_C03",
    "harness": "C03.cpp",
    "repo_srcs": ["src/geodesy/LambertConverter.cpp", "src/geodesy/EarthEllipsoid.cpp", "src/geodesy/WGS84Coordinates.cpp"],
    "gen": gen,
    "oracle": oracle,
    "compare": compare,
    "nontrivial": nontrivial,
    "rule": "parameter sets: Lambert-93, CC42..CC50 (GRS80), Lambert I-IV and II etendu (Clarke 1880 IGN, tangent), the southern "
            "witness, random secant sets (parallels 1..20 deg apart inside 15..75 deg, either hemisphere, either order, lat0 between "
            "them) and tangent sets (k0 in [0.99,1]) on ellipsoids with e in {0, 0.1, GRS80, random}; points within +-8 deg / +-30 deg "
            "of the origin incl. the standard parallels, the origin, the central meridian and the domain ends; isometric-latitude "
            "round trips; non-trivial = every output finite",
    "trusted": ["translator translate/srcfuns.py (clang AST of pure leaf functions -> Gallina)",
                "translator translate/tr_C03_ctor.py + translate/imptrans.py (clang AST of the four constructors -> the data members they leave; struct fields read as the model's record fields)", "hand-written model coq/LambertModel.v tied by differential execution (this run)",
                "translator translate/constants.py (EPSILON, pole-test constant 1e-9)", "extraction, ocaml/numf.ml, ocaml/drv_C03.ml",
                "harness/C03.cpp with a per-call CPU-time limit (harness/geoA.hpp), mpmath oracle (5-point differentiation, tolerance 2e-8)"],
    "assumptions": ["theorems are over the reals; binary64 behaviour is observed on generated inputs", "std::pow(x,2) is modelled as x*x"],
    "run_timeout": 1200,
    "manifest": {
        "text": "SYNTACTIC TIE: computeIsometricLatitude, computeGrandeNormal, toLambert, the two EarthEllipsoid radii, and the iterative inverse (computeLatitude's for(;;) loop as a fuelled fix, toWGS84) and both computeProjectionParameters overloads are re-translated from the clang AST of the current source into Gallina terms on every run (translate/srcfuns.py -> coq/gen/SrcFunsC03.v) and proved equal, over the reals, to the model functions the theorems are about. SYNTACTIC TIE OF THE CONSTRUCTORS: the four constructors of LambertConverter are re-translated on every run (translate/tr_C03_ctor.py, on the library translate/imptrans.py -> coq/gen/SrcLambertCtor.v) into the tuple of the six data members they leave; the class must have exactly these members and constructors; coq/SrcTieC03Ctor.v proves, for every numeric dictionary, that a converter built from secant / tangent parameters and an ellipsoid holds computeProjectionParameters(parameters, ellipsoid) and the ellipsoid's first eccentricity e (not e2) — C03_source_tie_constructors, _plain_constructors — and, over the reals, that the source's toLambert on the members the source's constructors store is the model's toLambert (C03_source_tie_constructed_converter, and the same for the inverse toWGS84, _inverse). Coq theorems over the reals about a model of LambertConverter: derivative of the isometric latitude (Coquelicot), "
                "the partial derivatives of toLambert are orthogonal and give equal scale along meridian and parallel (conformal), "
                "scale 1 on both standard parallels / k0 on the tangent parallel, origin -> false origin, central meridian -> x = x0, "
                "toWGS84 recovers isometric latitude and longitude exactly on cones of either hemisphere, the true latitude is a "
                "fixed point of the latitude iteration, which is a global contraction (|g'| <= e^2/(1-e^2), mean value theorem), so for "
                "e <= 0.1 the loop exits within 8 passes and the returned latitude is within EPSILON/98 of the true one; the pre-repair inverse is undefined on every "
                "point of a southern cone. Tied by running the extracted model against the compiled class; mpmath oracle differentiates the "
                "implementation's forward map numerically.",
        "note": "Trusted: Coq kernel, real-number axioms, hand-written model, extraction, float dictionary, harness, oracle. "
                "Float rounding/libm observed, not proved; numerical differentiation tolerance 2e-8. Termination of the latitude loop is proved over "
                "the reals (8 passes for e <= 0.1); in binary64 it is observed (HANG outcome).",
        "technique": "Coq proof (Coquelicot derivatives, field/nra; symbolic execution of the constructors + tie lemmas by computation) + correspondence run + mpmath oracle",
    },
}
