"""C07 — the linear least-squares solver returns the minimiser of the current problem only."""
from fractions import Fraction
import math
import numpy as np
from vcommon import hexf, parse_num

EPS = {"f64": 2.0 ** -52, "f32": 2.0 ** -23}
BASE = {"f64": 1e-9, "f32": 1e-4}
STATS = {"max_contract_residual": 0.0, "not_converged": 0, "undecidable_in_precision": 0, "max_condJ": 0.0}


def rnd(x, ty):
    return float(np.float32(x)) if ty == "f32" else float(x)


# ------------------------------------------------------------------------------------------ generators
def make_J(rng, nprng, n, k, ty, cond, scale, colratio):
    """n x k matrix with 2-norm condition number ~cond (before column scaling), times a global scale;
    column scales spread over at most colratio"""
    G = nprng.standard_normal((n, k))
    U, _, Vt = np.linalg.svd(G, full_matrices=False)
    s = np.logspace(0, -math.log10(cond), k) if k > 1 else np.array([1.0])
    J = (U * s) @ Vt
    J = J * math.sqrt(n)
    cs = np.array([colratio ** rng.uniform(-0.5, 0.5) for _ in range(k)])
    J = J * cs * scale
    return J


def emit_problem(rng, nprng, ty, k, n, cap, opts):
    """ops (token list) that load one problem of n rows into the solver and solve it"""
    cond = opts["cond"]
    J = make_J(rng, nprng, n, k, ty, cond, opts["scale"], opts["colratio"])
    xt = nprng.standard_normal(k) * opts.get("xscale", 1.0)
    Y = J @ xt + nprng.standard_normal(n) * opts["noise"] * np.linalg.norm(J, 2) * (np.linalg.norm(xt) + 1e-3) / math.sqrt(n)
    toks = ["D", str(n)]
    cap = max(cap, n)
    order = list(range(n))
    rng.shuffle(order)
    writes = [(i, J[i], Y[i]) for i in order]
    if cap > n and rng.random() < opts.get("stale", 0.5):
        # poison rows beyond the current size (leftovers of the larger problem): they must not matter
        for _ in range(rng.randint(1, 3)):
            i = rng.randint(n, cap - 1)
            writes.insert(rng.randint(0, len(writes)), (i, nprng.standard_normal(k) * opts["scale"] * 1e3, 1e3 * opts["scale"]))
    weighted = opts["est"] == "XW"
    default_w = opts.get("default_weights", False)
    for i, row, y in writes:
        if default_w:      # row and y only: the weights are the ones the class set when it (re)allocated, i.e. 1
            toks += ["Q", str(i), str(k)] + [hexf(rnd(v, ty)) for v in row] + [hexf(rnd(y, ty))]
            continue
        w = rng.choice([1.0, 0.5, 2.0, rng.uniform(0.1, 10.0)]) if weighted else rng.choice([1.0, 1.0, rng.uniform(0.1, 10.0)])
        toks += ["R", str(i), str(k)] + [hexf(rnd(v, ty)) for v in row] + [hexf(rnd(y, ty)), hexf(rnd(w, ty))]
    pre = opts.get("precond")
    if pre == "diag":
        A = np.diag([10 ** rng.uniform(-3, 3) for _ in range(k)])
    elif pre in ("full", "fullA"):
        A = np.eye(k) + 0.3 * nprng.standard_normal((k, k)) / math.sqrt(k)
    if pre in ("diag", "full"):
        b = nprng.standard_normal(k) * opts.get("xscale", 1.0) * 3
        toks += ["P", str(k)] + [hexf(rnd(v, ty)) for v in A.flatten()] + [hexf(rnd(v, ty)) for v in b]
    elif pre == "fullA":
        toks += ["A", str(k)] + [hexf(rnd(v, ty)) for v in A.flatten()]
    toks += opts["est"].split()
    return toks, cap


def gen_structured(rng, nprng, count, maxn, tier):
    cases = []
    for ci in range(count):
        ty = rng.choice(["f64", "f64", "f32"])
        k = rng.randint(1, 8)
        ctor = rng.choice(["C1", "C1", "C2", "C0"])
        cap = 0
        if ctor == "C0":
            toks = ["C0", "E", str(k)]
        elif ctor == "C1":
            toks = ["C1", str(k)]
        else:
            cap = rng.randint(k, maxn)
            toks = ["C2", str(k), str(cap)]
        nprob = rng.choice([1, 2, 2, 3, 3, 4])
        big = rng.randint(max(k, maxn // 2), maxn)
        for pi in range(nprob):
            shape = rng.random()
            if pi == 0:
                n = big if rng.random() < 0.7 else rng.randint(k, maxn)
            elif shape < 0.6:
                n = rng.randint(k, max(k, cap - 1)) if cap > k else k          # shrink after grow
            elif shape < 0.8:
                n = cap if cap >= k else k                                     # same size
            else:
                n = rng.randint(k, maxn)
            if ty == "f64":
                cond = 10 ** rng.choice([0, 0.5, 1, 1, 2, 2, 3, 4, 5, 5.9])
                scale = 10 ** rng.choice([0, 0, 0, -3, 3, -6, 6, rng.uniform(-6, 6)])
                colratio = 10 ** rng.choice([0, 0, 1, 2])
            else:
                cond = 10 ** rng.choice([0, 0.3, 0.5, 1, 1, 1.5, 2, 2.2, 2.4])
                if cond > 100 and pi == 0 and rng.random() < 0.5:
                    n = rng.randint(300, 500)     # many rows: row-count dependent cut-offs show only here
                scale = 10 ** rng.choice([0, 0, 0, -2, 2, -4, 4, rng.uniform(-5, 5)])
                colratio = 10 ** rng.choice([0, 0, 0.5])
            if cond * colratio >= 1e6:
                colratio = 1.0
            est = rng.choice(["XC", "XS", "XC XS", "XS XC", "XW", "XC XS V %s" % hexf(rnd(rng.uniform(0.1, 4), ty)), "XS"])
            opts = {"cond": cond, "scale": scale, "colratio": colratio, "noise": rng.choice([0.0, 1e-3, 0.1, 1.0]),
                    "est": est, "precond": rng.choice([None, None, "diag", "full", "fullA"]),
                    "xscale": 10 ** rng.uniform(-2, 2)}
            if pi == 0 and ctor in ("C0", "C1") and rng.random() < 0.3:
                opts["default_weights"] = True
                opts["est"] = "XW"
                opts["stale"] = 0.0
            t, cap = emit_problem(rng, nprng, ty, k, n, cap, opts)
            toks += t
        cases.append("ls %s %s" % (ty, " ".join(toks)))
    return cases


def gen_tiny_scale(rng, nprng, count):
    """the defect's home ground: well-conditioned J at a scale where the singular values of JtJ fall below epsilon"""
    cases = []
    for _ in range(count):
        ty = rng.choice(["f64", "f32"])
        k = rng.randint(1, 6)
        n = rng.randint(k, 30)
        scale = 10 ** (rng.uniform(-12, -8.5) if ty == "f64" else rng.uniform(-6, -4))
        opts = {"cond": 10 ** rng.uniform(0, 0.5), "scale": scale, "colratio": 1.0, "noise": 0.1, "est": "XC XS", "precond": None}
        t, _ = emit_problem(rng, nprng, ty, k, n, 0, opts)
        cases.append("ls %s C1 %d %s" % (ty, k, " ".join(t)))
    # the witness of ls_svd_tiny_scale_refuted: J = [1e-9], Y = [1e-9]
    cases.append("ls f64 C1 1 D 1 R 0 1 %s %s %s XC XS" % (hexf(1e-9), hexf(1e-9), hexf(1.0)))
    cases.append("ls f32 C1 1 D 1 R 0 1 %s %s %s XC XS" % (hexf(rnd(1e-4, "f32")), hexf(rnd(1e-4, "f32")), hexf(1.0)))
    return cases


def gen_float_midcond(rng, count):
    """single precision, cond(J) 330..500 — above the band where a generic problem can be judged (50 eps cond^2 > 0.5) but
    still resolvable when J^T J and J^T Y are formed EXACTLY: two columns of small integers (p, p + s_i), so that every
    product and sum is an integer below 2^24.  The only rounding left is in the 2x2 solve (a few eps * cond^2 <= 0.03): a
    path that drops or mis-thresholds the small singular direction is off by O(1) and is judged here with tolerance 0.25."""
    cases = []
    while len(cases) < count:
        n = rng.randint(2, 5)
        p = rng.randint(120, 260)
        ss = [rng.choice([-2, -1, 1, 2, 0]) for _ in range(n)]
        J = np.array([[p, p + s] for s in ss], dtype=float)
        sv = np.linalg.svd(J, compute_uv=False)
        if sv[-1] <= 0 or not (330 <= sv[0] / sv[-1] <= 500):
            continue
        xt = [rng.choice([-3, -2, -1, 1, 2, 3]), rng.choice([-3, -2, -1, 1, 2, 3])]
        Y = [int(J[i, 0]) * xt[0] + int(J[i, 1]) * xt[1] + rng.choice([0, 0, 1, -1]) for i in range(n)]
        toks = ["D", str(n)]
        for i in range(n):
            toks += ["R", str(i), "2", hexf(float(J[i, 0])), hexf(float(J[i, 1])), hexf(float(Y[i])), hexf(1.0)]
        toks += rng.choice(["XC XS", "XS XC", "XS"]).split()
        cases.append("ls f32 C1 2 %s" % " ".join(toks))
    return cases


def exact_small_int_problem(rec):
    J = rec["J"]
    return rec["ty"] == "f32" and rec["op"] in ("XC", "XS") and len(J) <= 6 and all(len(r) == 2 for r in J) and \
        all(float(v) == int(v) and abs(v) < 2048 for r in J for v in r) and \
        all(float(v) == int(v) and abs(v) < 16384 for v in rec["Y"]) and \
        all(float(rec["A"][i][j]) == (1.0 if i == j else 0.0) for i in range(2) for j in range(2)) and all(float(v) == 0.0 for v in rec["b"])


def gen_raw(rng, nprng, count, maxn):
    """low-level sequences: repeated estimates without rewriting, weights applied twice, partial rewrites, estimate-size
    changes (reallocation or out-of-bounds = undef), out-of-range rows.  Correspondence only."""
    cases = []
    for _ in range(count):
        ty = rng.choice(["f64", "f32"])
        k = rng.randint(1, 6)
        n = rng.randint(k + 1, maxn)
        opts = {"cond": 10 ** rng.uniform(0, 1), "scale": 1.0, "colratio": 1.0, "noise": 0.1,
                "est": rng.choice(["XC", "XW", "XS"]), "precond": rng.choice([None, "diag"]), "stale": 0.0}
        toks, cap = emit_problem(rng, nprng, ty, k, n, 0, opts)
        toks = ["C1", str(k)] + toks
        for _ in range(rng.randint(1, 5)):
            r = rng.random()
            if r < 0.25:
                toks += [rng.choice(["XW", "XC", "XS"])]
            elif r < 0.4:
                toks += ["V", hexf(rnd(rng.uniform(0.1, 3), ty))]
            elif r < 0.6:   # partial rewrite then solve
                for _ in range(rng.randint(1, 4)):
                    i = rng.randint(0, cap - 1)
                    toks += ["R", str(i), str(k)] + [hexf(rnd(v, ty)) for v in nprng.standard_normal(k)] + \
                            [hexf(rnd(nprng.standard_normal(), ty)), hexf(rnd(rng.uniform(0.5, 2), ty))]
                toks += [rng.choice(["XC", "XS", "XW"])]
            elif r < 0.7:   # shrink without rewriting
                n2 = rng.randint(k, cap)
                toks += ["D", str(n2), rng.choice(["XC", "XS"])]
            elif r < 0.8:   # change the estimate size: smaller keeps J (cols differ -> undef), then maybe grow (realloc)
                k2 = rng.randint(1, 6)
                toks += ["E", str(k2)]
                if rng.random() < 0.6:
                    n2 = max(cap + rng.randint(1, 5), k2)
                    o2 = dict(opts)
                    o2["precond"] = None
                    t2, cap = emit_problem(rng, nprng, ty, k2, n2, cap, o2)
                    toks += t2
                    k = k2
                else:
                    toks += ["D", str(rng.randint(1, cap)), "XC"]
                    break
            elif r < 0.9:   # row outside the buffers or of the wrong length
                if rng.random() < 0.5:
                    toks += ["R", str(cap + rng.randint(0, 3)), str(k)] + [hexf(1.0)] * k + [hexf(1.0), hexf(1.0)]
                else:
                    toks += ["R", "0", str(k + 1)] + [hexf(1.0)] * (k + 1) + [hexf(1.0), hexf(1.0)]
                break
            else:
                n2 = cap + rng.randint(1, 4)
                t2, cap = emit_problem(rng, nprng, ty, k, n2, cap, opts)
                toks += t2
        cases.append("lsr %s %s" % (ty, " ".join(toks)))
    return cases


def gen(rng, tier):
    nprng = np.random.default_rng(rng.getrandbits(32))
    big = tier == "thorough"
    groups = [("problem-sequences", gen_structured(rng, nprng, 1500 if big else 260, 60, tier)),
              ("tiny-scale", gen_tiny_scale(rng, nprng, 200 if big else 40)),
              ("float-midcond-exact-normal-matrix", gen_float_midcond(rng, 120 if big else 24)),
              ("raw-op-sequences", gen_raw(rng, nprng, 1500 if big else 200, 24))]
    if big:
        groups.append(("large-problems", gen_structured(rng, nprng, 150, 500, tier)))
    else:
        groups.append(("large-problems", gen_structured(rng, nprng, 6, 500, tier)))
    return groups


# ------------------------------------------------------------------------------------------ spec-level replay
def spec_replay(case):
    """Reads a case at the level of the property: the current problem is the last declared data size n, the
    latest values written to rows 0..n-1, and the last preconditioner.  Yields one record per output-producing op."""
    t = case.split()
    ty = t[1]
    p = 2
    rows = {}
    k = n = 0
    A = b = None

    def rf():
        nonlocal p
        v = float.fromhex(t[p]) if t[p] not in ("nan", "inf", "-inf") else float(t[p])
        p += 1
        return v
    c = t[p]; p += 1
    if c == "C1":
        k = int(t[p]); p += 1
    elif c == "C2":
        k = int(t[p]); n = int(t[p + 1]); p += 2
    out = []
    while p < len(t):
        op = t[p]; p += 1
        if op == "E":
            k = int(t[p]); p += 1; A = b = None
        elif op == "D":
            n = int(t[p]); p += 1
            out.append({"op": "D"})
        elif op == "R":
            i = int(t[p]); m = int(t[p + 1]); p += 2
            row = [rf() for _ in range(m)]
            y = rf(); w = rf()
            rows[i] = (row, y, w)
        elif op == "Q":
            i = int(t[p]); m = int(t[p + 1]); p += 2
            row = [rf() for _ in range(m)]
            y = rf()
            rows[i] = (row, y, rows[i][2] if i in rows else 1.0)    # weights default to 1 (setDataSize on growth)
        elif op in ("P", "A"):
            kk = int(t[p]); p += 1
            A = [[rf() for _ in range(kk)] for _ in range(kk)]
            b = [rf() for _ in range(kk)] if op == "P" else [0.0] * kk
        elif op in ("XC", "XS", "XW"):
            ok = all(i in rows and len(rows[i][0]) == k for i in range(n))
            rec = {"op": op, "k": k, "n": n, "ok": ok, "ty": ty}
            if ok:
                rec["J"] = [rows[i][0] for i in range(n)]
                rec["Y"] = [rows[i][1] for i in range(n)]
                rec["W"] = [rows[i][2] for i in range(n)]
                rec["A"] = A if A is not None else [[1.0 if i == j else 0.0 for j in range(k)] for i in range(k)]
                rec["b"] = b if b is not None else [0.0] * k
            out.append(rec)
            if op == "XW" and ok:     # the rows now hold the weighted values: the next problem must rewrite them
                for i in range(n):
                    rows.pop(i)
        elif op == "V":
            p += 1
            out.append({"op": "V"})
    return out


def parse_outputs(line):
    """impl/model line -> list of ('f',flag) / ('x',[..]) / ('m',[..]) / ('undef',)"""
    line = line.split("|")[0]
    t = line.split()
    p = 0
    res = []
    while p < len(t):
        if t[p] in ("f0", "f1"):
            res.append(("f", t[p])); p += 1
        elif t[p] == "x":
            k = int(t[p + 1]); res.append(("x", [parse_num(v) for v in t[p + 2:p + 2 + k]])); p += 2 + k
        elif t[p] == "m":
            k = int(t[p + 1]); res.append(("m", [parse_num(v) for v in t[p + 2:p + 2 + k * k]])); p += 2 + k * k
        elif t[p] == "undef":
            res.append(("undef",)); p += 1
        else:
            res.append(("?", t[p])); p += 1
    return res


def cond_info(rec):
    J = np.array(rec["J"], dtype=float)
    if rec["op"] == "XW":
        J = J * np.array(rec["W"], dtype=float)[:, None]
    s = np.linalg.svd(J, compute_uv=False)
    if s[-1] <= 0:
        return float("inf"), float(s[0])
    return float(s[0] / s[-1]), float(s[0])


def tolerances(rec):
    """(residual tolerance, forward tolerance, cond(J)); None if the precision cannot resolve the problem"""
    cJ, smax = cond_info(rec)
    eps = EPS[rec["ty"]]
    cM = cJ * cJ
    STATS["max_condJ"] = max(STATS["max_condJ"], cJ if math.isfinite(cJ) else 0.0)
    # an algorithm that forms and inverts J^T J cannot do better than ~eps*cond(J)^2; beyond 50*eps*cond^2 > 0.5 the
    # precision cannot resolve the problem at all (single precision: cond(J) above ~290) and the case is only counted.
    # Below that the estimate IS judged, with a margin of 20x (residual) / 50x (forward) over that bound: a solver that
    # drops a resolvable singular direction is off by O(1) and must not hide behind the tolerance.
    if math.isfinite(cM) and 50 * eps * cM > 0.5 and eps * cM <= 0.03 and exact_small_int_problem(rec):
        # J^T J and J^T Y are exact integers here: only the k x k solve rounds (see gen_float_midcond); forward tolerance 0.25
        return 20 * eps * cM, 0.025, cJ
    if not math.isfinite(cM) or 50 * eps * cM > 0.5:
        return None
    return max(BASE[rec["ty"]], 20 * eps * cM), max(BASE[rec["ty"]], 5 * eps * cM), cJ


# ------------------------------------------------------------------------------------------ exact arithmetic
def solve_exact(M, v):
    """Gaussian elimination over Fractions; returns None if singular"""
    k = len(M)
    a = [list(M[i]) + [v[i]] for i in range(k)]
    for c in range(k):
        p = next((r for r in range(c, k) if a[r][c] != 0), None)
        if p is None:
            return None
        a[c], a[p] = a[p], a[c]
        piv = a[c][c]
        a[c] = [x / piv for x in a[c]]
        for r in range(k):
            if r != c and a[r][c] != 0:
                f = a[r][c]
                a[r] = [x - f * y for x, y in zip(a[r], a[c])]
    return [a[i][k] for i in range(k)]


def normal_eq_exact(rec):
    n, k = rec["n"], rec["k"]
    w = [Fraction(x) for x in rec["W"]] if rec["op"] == "XW" else [Fraction(1)] * n
    J = [[Fraction(x) * w[i] for x in rec["J"][i]] for i in range(n)]
    Y = [Fraction(rec["Y"][i]) * w[i] for i in range(n)]
    M = [[sum(J[r][i] * J[r][j] for r in range(n)) for j in range(k)] for i in range(k)]
    v = [sum(J[r][i] * Y[r] for r in range(n)) for i in range(k)]
    return J, Y, M, v


def oracle(case, out):
    if not case.startswith("ls "):
        return []
    fails = []
    recs = spec_replay(case)
    outs = parse_outputs(out)
    if len(recs) != len(outs):
        return [("c07-shape", "expected %d outputs, got %d (%s)" % (len(recs), len(outs), out[:80]))]
    last = {}
    for rec, o in zip(recs, outs):
        if rec["op"] not in ("XC", "XS", "XW"):
            continue
        if o[0] != "x" or not rec["ok"]:
            fails.append(("c07-shape", "estimate op produced %r" % (o[0],)))
            continue
        k, n = rec["k"], rec["n"]
        x = o[1]
        tol = tolerances(rec)
        if tol is None:
            STATS["undecidable_in_precision"] += 1
            continue
        rtol, xtol, cJ = tol
        site = {"XC": "cholesky", "XS": "svd", "XW": "weighted"}[rec["op"]]
        if any(v is None or not math.isfinite(v) for v in x):
            fails.append(("c07-%s-nonfinite" % site, "estimate %s is not finite (cond(J)=%.3g, n=%d, k=%d)" % (x, cJ, n, k)))
            continue
        J, Y, M, v = normal_eq_exact(rec)
        A = [[Fraction(a) for a in r] for r in rec["A"]]
        b = [Fraction(a) for a in rec["b"]]
        # undo the affine preconditioner exactly: z = A^-1 (x - b)
        z = solve_exact(A, [Fraction(xi) - bi for xi, bi in zip(x, b)])
        if z is None:
            continue
        res = [sum(M[i][j] * z[j] for j in range(k)) - v[i] for i in range(k)]
        Jf = np.array([[float(a) for a in r] for r in J])
        smax = float(np.linalg.norm(Jf, 2))
        zn = math.sqrt(float(sum(a * a for a in z)))
        yn = math.sqrt(float(sum(a * a for a in Y)))
        scale = smax * smax * zn + smax * yn
        zstar = solve_exact(M, v)
        small_sv = site == "svd" and svd_below_abs_eps(M, rec["ty"])
        # x itself is rounded to the scalar type: z = A^-1 (x - b) inherits |A^-1| (|x|+|b|) eps (cancellation when b dominates)
        try:
            Ainv = np.abs(np.linalg.inv(np.array(rec["A"], dtype=float)))
            dz = 8 * EPS[rec["ty"]] * (Ainv @ (np.abs(np.array(x)) + np.abs(np.array(rec["b"], dtype=float))))
            extra = np.abs(np.array([[float(a) for a in r] for r in M])) @ dz
        except Exception:
            extra = np.zeros(k)
        worst = max(abs(float(r)) - float(extra[i]) for i, r in enumerate(res))
        if scale > 0 and worst > rtol * scale:
            key = "c07-svd-singular-values-below-absolute-epsilon" if small_sv else "c07-normal-equations-%s" % site
            fails.append((key, "|J^T(Jz-Y)|_max = %.3g > %.3g * (|J|^2|z|+|J||Y| = %.3g); z = A^-1(x-b) = %s, exact minimiser %s; "
                          "n=%d k=%d cond(J)=%.3g %s" % (worst, rtol, scale, [float(a) for a in z][:4],
                                                          [float(a) for a in (zstar or [])][:4], n, k, cJ, rec["ty"])))
        # history independence / fresh-solver equality: x is A z* + b with z* the exact minimiser of THIS problem
        elif zstar is not None:
            xs = [sum(A[i][j] * zstar[j] for j in range(k)) + b[i] for i in range(k)]
            sc = max(max(abs(float(a)) for a in xs), max(abs(float(a)) for a in b), 1e-300)
            d = max(abs(float(Fraction(xi) - a)) for xi, a in zip(x, xs))
            if d > xtol * 10 * sc * max(1.0, cond_A(rec["A"])):
                key = "c07-svd-singular-values-below-absolute-epsilon" if small_sv else "c07-minimiser-%s" % site
                fails.append((key, "x differs from the exact minimiser of the current problem by %.3g (scale %.3g, "
                              "tol %.3g): stale rows or wrong path? n=%d k=%d cond(J)=%.3g" % (d, sc, xtol * 10, n, k, cJ)))
        # Cholesky and SVD on the same problem agree
        sig = (n, k, tuple(map(tuple, rec["J"])), tuple(rec["Y"]), tuple(map(tuple, rec["A"])), tuple(rec["b"]))
        if site in ("cholesky", "svd"):
            other = last.get("svd" if site == "cholesky" else "cholesky")
            if other and other[0] == sig:
                sc = max(max(abs(a) for a in x), max(abs(a) for a in other[1]), 1e-300)
                d = max(abs(a - c) for a, c in zip(x, other[1]))
                if d > xtol * 10 * sc * max(1.0, cond_A(rec["A"])):
                    key = "c07-svd-singular-values-below-absolute-epsilon" if svd_below_abs_eps(M, rec["ty"]) else "c07-chol-vs-svd"
                    fails.append((key, "Cholesky and SVD paths differ by %.3g (scale %.3g) on the same problem, n=%d k=%d cond(J)=%.3g"
                                  % (d, sc, n, k, cJ)))
            last[site] = (sig, x)
    # report each key once per case
    seen, uniq = set(), []
    for f in fails:
        if f[0] not in seen:
            seen.add(f[0]); uniq.append(f)
    return uniq


def cond_A(A):
    try:
        return float(np.linalg.cond(np.array(A, dtype=float)))
    except Exception:
        return 1.0


def svd_below_abs_eps(M, ty):
    """does the normal matrix have a singular value that the ORIGINAL code's absolute test (sigma > epsilon) rejects?"""
    Mf = np.array([[float(a) for a in r] for r in M])
    s = np.linalg.svd(Mf, compute_uv=False)
    return bool(s[-1] <= EPS[ty] * 1.0000001)


# ------------------------------------------------------------------------------------------ correspondence
def compare(case, il, ml):
    mparts = ml.split("|")
    if len(mparts) > 1:
        r = mparts[1].split()
        if len(r) >= 3 and r[0] == "res":
            v = parse_num(r[1])
            if v is not None and math.isfinite(v):
                STATS["max_contract_residual"] = max(STATS["max_contract_residual"], v)
            if r[2] != "1":
                STATS["not_converged"] += 1
    io, mo = parse_outputs(il), parse_outputs(ml)
    if len(io) != len(mo):
        return "output count %d vs %d" % (len(io), len(mo))
    ty = case.split()[1]
    recs = spec_replay(case) if case.startswith("ls ") else None
    xtol_default = 1e-7 if ty == "f64" else 1e-3
    prev_tol = xtol_default
    for idx, (a, b) in enumerate(zip(io, mo)):
        if a[0] != b[0]:
            return "output %d: impl %s model %s" % (idx, a[0], b[0])
        if a[0] == "f" and a[1] != b[1]:
            return "output %d: flag impl %s model %s" % (idx, a[1], b[1])
        if a[0] in ("x", "m"):
            tol = xtol_default
            if recs is not None and idx < len(recs):
                rec = recs[idx]
                if rec["op"] in ("XC", "XS", "XW") and rec.get("ok"):
                    t3 = tolerances(rec)
                    if t3 is None:
                        prev_tol = None
                        continue          # not resolvable in this precision: oracle-only (and the oracle skips it too)
                    tol = t3[1] * 10 * max(1.0, cond_A(rec["A"]))
                    if rec["op"] == "XS" and 256 * EPS[rec["ty"]] * t3[2] ** 2 > 1:
                        # the model's SVD oracle realisation (one-sided Jacobi) completes U by orthogonality, with an arbitrary
                        # sign, for singular values below 64 eps sigma_max, while the solver inverts everything above eps
                        # sigma_max: in between (single precision, cond(J) > ~180) the MODEL side is unreliable, so the
                        # correspondence is not judged there; the exact-rational oracle still judges the implementation
                        prev_tol = None
                        continue
                    if rec["op"] == "XS" and svd_below_abs_eps(normal_eq_exact(rec)[2], rec["ty"]):
                        tol = max(tol, 1e-6)   # threshold side may differ by rounding of sigma; the oracle decides
                    prev_tol = tol
                elif rec["op"] == "V":
                    if prev_tol is None:
                        continue
                    tol = prev_tol * 100
            va, vb = a[1], b[1]
            if len(va) != len(vb):
                return "output %d: length" % idx
            fin_a = all(v is not None and math.isfinite(v) for v in va)
            fin_b = all(v is not None and math.isfinite(v) for v in vb)
            if not fin_a or not fin_b:
                if fin_a != fin_b:
                    return "output %d: finite on one side only (impl %s, model %s)" % (idx, va[:3], vb[:3])
                continue
            sc = max(max(abs(v) for v in va), max(abs(v) for v in vb), 1e-300)
            d = max(abs(x - y) for x, y in zip(va, vb))
            if d > tol * sc:
                return "output %d (%s): |impl-model|=%.3g > %.3g*%.3g; impl %s model %s" % (idx, a[0], d, tol, sc, va[:3], vb[:3])
    return None


def nontrivial(case, out):
    o = parse_outputs(out)
    xs = [r for r in o if r[0] == "x" and all(v is not None and math.isfinite(v) for v in r[1])]
    return case if xs else None


def coverage_extra():
    return {"max_oracle_contract_residual": STATS["max_contract_residual"],
            "jacobi_not_converged_cases": STATS["not_converged"],
            "estimates_not_resolvable_in_precision_skipped": STATS["undecidable_in_precision"],
            "max_cond_J_generated": STATS["max_condJ"]}


CHECK = {
    "coq": "Properties_C07",
    "driver": "drv_C07",
    "harness": "C07.cpp",
    "repo_srcs": ["src/regression/leastsquares/LeastSquares.cpp"],
    "gen": gen,
    "oracle": oracle,
    "compare": compare,
    "nontrivial": nontrivial,
    "coverage_extra": coverage_extra,
    "rule": "one solver object per case; problem sequences (estimate size 1..8, data size k..60 quick / ..500 large group, "
            "cond(J) 1..1e6 double / 1..100 float, global scale 1e-6..1e6, column-scale ratio <= 100, shrink-after-grow with "
            "poisoned leftover rows, weights, diagonal/full/offset preconditioners, Cholesky/SVD/weighted/covariance); tiny-scale "
            "group aimed at the singular-value threshold; raw op sequences (repeated estimates, weights applied twice, partial "
            "rewrites, estimate-size changes, out-of-range rows: undefined ops must be undefined on both sides). "
            "non-trivial = at least one finite estimate was produced",
    "trusted": ["hand-written model coq/LsModel.v tied to the source by translate/tr_C07_ls.py + coq/SrcTieC07.v (every member function, every "
                "dictionary) and by differential execution (this run); trusted there: the translator and the vocabulary coq/SrcEigenDyn.v",
                "Eigen LDLT / JacobiSVD are oracles with a contract (premise of the theorems); realised for execution by unverified "
                "Gallina Gauss-Jordan / one-sided Jacobi whose contract residual is measured on every call (max in coverage)",
                "extraction (ExtrOcamlBasic), ocaml/numf.ml, ocaml/drv_C07.ml", "harness/C07.cpp, python oracle (fractions.Fraction) in checks/C07.py",
                "numpy SVD used only to compute condition numbers for tolerances"],
    "assumptions": ["theorems are over the reals; rounding is observed by the correspondence run, not proved",
                    "'vanishes to rounding' is read as |J^T(Jx-Y)| <= max(1e-9|1e-4, 20 eps cond(J)^2) (|J|^2|x|+|J||Y|): the explicit-inverse "
                    "algorithm cannot do better; estimates with 50 eps cond(J)^2 > 0.5 (single precision beyond cond(J)~290) are counted, not judged",
                    "contents of the buffers after a reallocation are unspecified (model: explicit fill value; harness never reads them)"],
    "run_timeout": 900,
    "manifest": {
        "text": "SYNTACTIC TIE: translate/tr_C07_ls.py regenerates on every run, from the clang AST of the instantiated members of "
                "LeastSquares<double> (checked identical for <float>), the record of the ten data members and one Gallina state transformer per "
                "member function (three constructors, setEstimateSize, setDataSize, both setPreconditionner overloads, getJ/getY/getW as "
                "references, computeJTJ_, computeJTY_, weightJAndY_, estimateUsingCholeskyDecomposition, estimateUsingSVD, weightedEstimate, "
                "computeEstimateCovariance; counted loops with run-time bounds = folds over seq; coq/gen/SrcLs.v); coq/SrcTieC07.v proves each "
                "generated transformer EQUAL to the operation of LsModel.v for every numeric dictionary (C07_source_tie_*: the nested loops of "
                "computeJTJ_/computeJTY_ leave the dot products over the first dataSize_ rows whatever the buffers held; grow-only setDataSize; "
                "the three estimate paths incl. the relative SVD threshold; a simulation theorem for EVERY op sequence; history independence and "
                "the Cholesky minimiser theorem restated on the generated member functions). "
                "Coq theorems about a state-machine model of LeastSquares<T> (buffers that grow but never shrink, in-place weighting, "
                "both estimate paths with Eigen's solvers as contract-bound oracles): normal equations, Pythagoras => global and unique "
                "minimiser; weighted variant proved in full (row r of J and Y scaled by w_r in place => weighted normal equations "
                "J^T W^2 (J z - Y) = 0 and unique minimiser of sum (w_r r_r)^2 on the rows as written; a second call without rewriting "
                "the rows squares the weights); affine preconditioner A z + b on the Cholesky, SVD and weighted paths; SVD path = "
                "Cholesky path under the contracts (premise: eps * sigma_max < sigma_min); result independent of which right inverse "
                "the LDLT oracle returns; history independence for every op sequence, and the headline stated on the caller's lists "
                "(any history, then load rows/ys/ws + preconditioner, then any estimator => A z + b with z the unique minimiser of that "
                "problem); tied to the source by running the extracted "
                "model against the real class on "
                "generated op sequences, plus an exact-rational normal-equation oracle on the implementation's outputs.",
        "note": "Trusted: Coq kernel, real-number axioms, the translator tr_C07_ls.py and its vocabulary coq/SrcEigenDyn.v (the reading of each "
                "dynamic-size Eigen operation: resize destructive with unspecified contents, rows()/cols(), col/head/dot, operator() with run-time "
                "indices, products, transpose, asDiagonal, array *=; C++ int/size_t read as nat, no wrap-around; Eigen's summation order not "
                "modelled), the shape premises on the oracles (ldlt_dims, svd_dims) and on the preconditioner argument (run_dims), extraction, "
                "float dictionaries, harness and oracle. The model is now tied to the source syntactically (every member function) AND by "
                "differential execution. Eigen's decompositions are not verified: they appear as hypotheses (oracle arguments of the generated terms).",
        "technique": "Coq proof (linear algebra over R, induction over op lists) + source translator with tie lemmas for every member function "
                     "(generated folds proved equal to the model by loop invariants) + extracted-model correspondence run + exact-rational oracle",
    },
}
